"""F18: InMemoryStorage's WAITING listing skipped a trial that was set back to WAITING below its scan cursor.

History (plain BaseStorage calls, no concurrency): create a trial (RUNNING), list WAITING trials (none: the cursor moves
to the end), set the trial WAITING (accepted by every backend), list WAITING trials again.
RDB, journal and the in-memory list form (states=[WAITING]) return the trial; the in-memory tuple form - the one
Study._pop_waiting_trial_id uses - returned nothing.  Exit 0 / PASS when all backends agree.
"""
import os
import sys
import tempfile

sys.path.insert(0, os.getcwd())
import optuna  # noqa: E402
from optuna.storages import InMemoryStorage, JournalStorage, RDBStorage  # noqa: E402
from optuna.storages.journal import JournalFileBackend  # noqa: E402
from optuna.study import StudyDirection  # noqa: E402
from optuna.trial import TrialState  # noqa: E402

optuna.logging.set_verbosity(optuna.logging.ERROR)
d = tempfile.mkdtemp()
rows = {}
for st in (InMemoryStorage(), RDBStorage(f"sqlite:///{d}/a.db"), JournalStorage(JournalFileBackend(d + "/j.log"))):
    sid = st.create_new_study([StudyDirection.MINIMIZE], "s")
    t0 = st.create_new_trial(sid)
    before = len(st.get_all_trials(sid, states=(TrialState.WAITING,)))
    accepted = st.set_trial_state_values(t0, TrialState.WAITING)
    rows[type(st).__name__] = (before, accepted, len(st.get_all_trials(sid, states=(TrialState.WAITING,))),
                               len(st.get_all_trials(sid, states=[TrialState.WAITING])))
    print(type(st).__name__, rows[type(st).__name__])
ok = len(set(rows.values())) == 1
print("PASS" if ok else "FAIL")
sys.exit(0 if ok else 1)
