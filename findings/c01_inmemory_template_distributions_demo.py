"""F28: InMemoryStorage did not enter the distributions of a trial created from a template (Study.add_trial / add_trials / copy_study)
into its per-study table, so a later set_trial_param with an incompatible distribution for the same name was accepted, while RDB
and journal - which compare against all earlier trials, template trials included - raise ValueError.
Exit 0 / PASS when the three backends answer alike.
"""
import os
import sys
import tempfile

sys.path.insert(0, os.getcwd())
import optuna  # noqa: E402
from optuna.distributions import FloatDistribution  # noqa: E402
from optuna.storages import InMemoryStorage, JournalStorage, RDBStorage  # noqa: E402
from optuna.storages.journal import JournalFileBackend  # noqa: E402
from optuna.study import StudyDirection  # noqa: E402
from optuna.trial import create_trial  # noqa: E402

optuna.logging.set_verbosity(optuna.logging.ERROR)
d = tempfile.mkdtemp()
rows = {}
for st in (InMemoryStorage(), RDBStorage(f"sqlite:///{d}/a.db"), JournalStorage(JournalFileBackend(d + "/j.log"))):
    sid = st.create_new_study([StudyDirection.MINIMIZE], "s")
    st.create_new_trial(sid, template_trial=create_trial(value=1.0, params={"x": 0.5}, distributions={"x": FloatDistribution(0, 1)}))
    t = st.create_new_trial(sid)
    try:
        st.set_trial_param(t, "x", 0.5, FloatDistribution(0.1, 1, log=True))
        rows[type(st).__name__] = "accepted"
    except ValueError:
        rows[type(st).__name__] = "ValueError"
    print(type(st).__name__, rows[type(st).__name__])
ok = len(set(rows.values())) == 1
print("PASS" if ok else "FAIL")
sys.exit(0 if ok else 1)
