"""F19: RDBStorage.set_trial_param silently dropped the second write of a parameter (writes must overwrite by key).

History: set_trial_param(t, "x", 1.0, Float(0, 2)); set_trial_param(t, "x", 1.5, Float(0, 2)); get_trial(t).params.
In-memory and journal return {'x': 1.5}; RDB inserted a second row, hit the (trial_id, param_name) unique constraint, swallowed the
IntegrityError in its session scope and kept {'x': 1.0}.  Exit 0 / PASS when all backends agree.
"""
import os
import sys
import tempfile

sys.path.insert(0, os.getcwd())
import optuna  # noqa: E402
from optuna.distributions import FloatDistribution  # noqa: E402
from optuna.storages import InMemoryStorage, JournalStorage, RDBStorage  # noqa: E402
from optuna.storages.journal import JournalFileBackend  # noqa: E402
from optuna.study import StudyDirection  # noqa: E402

optuna.logging.set_verbosity(optuna.logging.ERROR)
d = tempfile.mkdtemp()
rows = {}
for st in (InMemoryStorage(), RDBStorage(f"sqlite:///{d}/a.db"), JournalStorage(JournalFileBackend(d + "/j.log"))):
    sid = st.create_new_study([StudyDirection.MINIMIZE], "s")
    t = st.create_new_trial(sid)
    st.set_trial_param(t, "x", 1.0, FloatDistribution(0, 2))
    st.set_trial_param(t, "x", 1.5, FloatDistribution(0, 2))
    rows[type(st).__name__] = st.get_trial(t).params
    print(type(st).__name__, rows[type(st).__name__])
ok = all(v == {"x": 1.5} for v in rows.values())
print("PASS" if ok else "FAIL")
sys.exit(0 if ok else 1)
