"""F29: _tell_with_warning handed the SAME list object to sampler.after_trial(study, trial, state, values) and then to
storage.set_trial_state_values(...): a sampler that edits `values` in place (negating, normalising, appending a penalty) changed what was
stored after the values had passed validation - the objective returned 3.0 and the trial was COMPLETE with [-3.0], [3.0, 7.0] or [nan].
Exit 0 / PASS when the stored values are the validated floats whatever after_trial does with its argument.
"""
import os
import sys

sys.path.insert(0, os.getcwd())
import optuna  # noqa: E402

optuna.logging.set_verbosity(optuna.logging.ERROR)


class Editing(optuna.samplers.RandomSampler):
    def __init__(self, how):
        super().__init__(seed=0)
        self.how = how

    def after_trial(self, study, trial, state, values):
        if values is not None:
            if self.how == "negate":
                values[0] = -values[0]
            elif self.how == "append":
                values.append(7.0)
            elif self.how == "nan":
                values[0] = float("nan")


ok = True
for how in ("negate", "append", "nan"):
    study = optuna.create_study(sampler=Editing(how))
    study.optimize(lambda t: 3.0, n_trials=1)
    t = study.trials[0]
    print(how, t.state.name, t.values)
    ok = ok and t.values == [3.0]
print("PASS" if ok else "FAIL")
sys.exit(0 if ok else 1)
