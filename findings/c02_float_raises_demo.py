import sys, os; sys.path.insert(0, os.getcwd())
import optuna
optuna.logging.set_verbosity(optuna.logging.ERROR)
class V:
    def __float__(self):
        raise RuntimeError("no float for you")
study = optuna.create_study()
err = None
try:
    study.optimize(lambda t: V(), n_trials=1)
except BaseException as e:
    err = e
states = [t.state.name for t in study.get_trials(deepcopy=False)]
print("optimize raised:", repr(err)); print("states:", states)
ok = err is None and states == ["FAIL"]
print("PASS" if ok else "FAIL"); sys.exit(0 if ok else 1)
