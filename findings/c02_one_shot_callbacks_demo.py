"""F21: Study.optimize(callbacks=<one-shot iterable>) ran the callbacks for the first trial only.

`callbacks` is declared Iterable[Callable]; the per-trial loop iterated the caller's object after every trial, so iter([cb]) or a
generator was exhausted by trial 0.  Exit 0 / PASS when cb is called once per trial (n_jobs 1 and 2).
"""
import os
import sys

sys.path.insert(0, os.getcwd())
import optuna  # noqa: E402

optuna.logging.set_verbosity(optuna.logging.ERROR)
ok = True
for n_jobs in (1, 2):
    seen = []
    s = optuna.create_study()
    s.optimize(lambda t: t.suggest_float("x", 0, 1), n_trials=4, n_jobs=n_jobs, callbacks=iter([lambda st, tr: seen.append(tr.number)]))
    print("n_jobs", n_jobs, "callback saw trials", sorted(seen))
    ok = ok and sorted(seen) == [0, 1, 2, 3]
print("PASS" if ok else "FAIL")
sys.exit(0 if ok else 1)
