"""F17: _CachedStorage.create_new_trial merges a trial snapshot outside the critical section it was fetched in.

Schedule (forced with events; two threads share one _CachedStorage on SQLite, a second RDBStorage plays another process):
  A: create_new_trial(template WAITING) - the backend call has returned, A has not yet taken the cache lock
  P: claims the WAITING trial and tells COMPLETE (acknowledged)
  C: get_all_trials() starts *after* that acknowledgement; its refresh caches the trial as COMPLETE
  A: takes the lock and merges its older WAITING snapshot over the COMPLETE one
  C: (second half of the same call) reads the cache and returns
A reader that started after the trial was acknowledged COMPLETE must not see it WAITING.
Exit 0 / last line PASS when the reader sees COMPLETE, exit 1 / FAIL otherwise.
"""
import os
import sys
import tempfile
import threading

sys.path.insert(0, os.getcwd())
import optuna  # noqa: E402
from optuna.storages import RDBStorage  # noqa: E402
from optuna.storages._cached_storage import _CachedStorage  # noqa: E402
from optuna.trial import TrialState, create_trial  # noqa: E402

optuna.logging.set_verbosity(optuna.logging.ERROR)
d = tempfile.mkdtemp()
url = f"sqlite:///{d}/db.sqlite3"
backend = RDBStorage(url)
cs = _CachedStorage(backend)
other = RDBStorage(url)
sid = cs.create_new_study([optuna.study.StudyDirection.MINIMIZE], "s")

created, go_a, a_done, c_refreshed = (threading.Event() for _ in range(4))
orig_create = backend._create_new_trial


def slow_create(study_id, template_trial=None):
    ft = orig_create(study_id, template_trial)
    if threading.current_thread().name == "A":
        created.set()
        go_a.wait(10)
    return ft


backend._create_new_trial = slow_create
orig_refresh = cs._read_trials_from_remote_storage


def refresh(study_id):
    orig_refresh(study_id)
    if threading.current_thread().name == "C":
        c_refreshed.set()
        a_done.wait(3)  # on a tree where A holds the lock across its backend call, A is already done


cs._read_trials_from_remote_storage = refresh
template = create_trial(state=TrialState.WAITING, system_attrs={"fixed_params": {}})


def a():
    cs.create_new_trial(sid, template)
    a_done.set()


seen = []


def c():
    seen.extend(cs.get_all_trials(sid, deepcopy=False))


ta = threading.Thread(target=a, name="A")
ta.start()
if not created.wait(5):
    # A holds the cache lock across the backend call (repaired tree): the interleaving cannot be forced
    go_a.set()
tid = other.get_all_trials(sid)[0]._trial_id
assert other.set_trial_state_values(tid, TrialState.RUNNING)
assert other.set_trial_state_values(tid, TrialState.COMPLETE, [1.0])  # acknowledged
tc = threading.Thread(target=c, name="C")
tc.start()
c_refreshed.wait(3)
go_a.set()
ta.join()
tc.join()
print("reader that started after the COMPLETE was acknowledged saw:", [(t.number, t.state.name) for t in seen])
ok = [t.state for t in seen] == [TrialState.COMPLETE]
print("PASS" if ok else "FAIL")
sys.exit(0 if ok else 1)
