"""F24: _CachedStorage.create_new_study registered a fresh, empty cache entry for the new study id AFTER the backend call, outside the
critical section of that call.  A sibling thread that found the study by name in between (create_study(load_if_exists=True)) and created a
trial had its cache entry replaced; the id map still knew the trial, so get_trial(trial_id) - the first thing Trial.__init__ does - raised
KeyError for a trial that exists and is RUNNING.  Exit 0 / PASS when the trial can be read.
"""
import os
import sys
import tempfile
import threading

sys.path.insert(0, os.getcwd())
import optuna  # noqa: E402
from optuna.storages import RDBStorage  # noqa: E402
from optuna.storages._cached_storage import _CachedStorage  # noqa: E402
from optuna.study import StudyDirection  # noqa: E402

optuna.logging.set_verbosity(optuna.logging.ERROR)
storage = _CachedStorage(RDBStorage("sqlite:///" + os.path.join(tempfile.mkdtemp(), "db.sqlite3")))
created, t2_done = threading.Event(), threading.Event()
orig = storage._backend.create_new_study


def create_new_study(directions, study_name=None):
    study_id = orig(directions=directions, study_name=study_name)
    created.set()      # the study row exists, the cache entry is not registered yet
    t2_done.wait(3)    # (on a tree that holds the cache lock across this call, T2 simply waits for T1)
    return study_id


storage._backend.create_new_study = create_new_study
res = {}


def t1():
    res["study_id"] = storage.create_new_study([StudyDirection.MINIMIZE], "s")


def t2():
    created.wait(10)
    try:
        res["trial_id"] = storage.create_new_trial(storage.get_study_id_from_name("s"))
    finally:
        t2_done.set()


a, b = threading.Thread(target=t1), threading.Thread(target=t2)
a.start(); b.start(); a.join(30); b.join(30)
try:
    t = storage.get_trial(res["trial_id"])
    print("get_trial ->", t.number, t.state.name)
    ok = True
except KeyError as e:
    print(f"get_trial({res['trial_id']}) raised KeyError({e}) although create_new_trial returned this id")
    ok = False
print("PASS" if ok else "FAIL")
sys.exit(0 if ok else 1)
