"""F20: Study.ask()/optimize raised UpdateFinishedTrialError when another worker claimed *and finished* a queued trial between this
worker's listing of WAITING trials and its own claim.

Schedule (forced: the WAITING listing of worker A is handed over before A's claim): one enqueued trial, A lists it, worker B asks (gets
it), tells it COMPLETE, A goes on to claim it.  A lost the race and has to move on (sample a fresh trial), exactly as when B has
claimed but not yet finished the trial (set_trial_state_values returns False).  Exit 0 / PASS if A's ask() returns a new trial.
"""
import os
import sys

sys.path.insert(0, os.getcwd())
import optuna  # noqa: E402
from optuna.trial import TrialState  # noqa: E402

optuna.logging.set_verbosity(optuna.logging.ERROR)
ok = True
for make in (lambda: optuna.storages.InMemoryStorage(),
             lambda: optuna.storages.JournalStorage(optuna.storages.journal.JournalFileBackend(os.path.join(__import__("tempfile").mkdtemp(), "j.log")))):
    storage = make()
    a = optuna.create_study(storage=storage, study_name="s")
    b = optuna.load_study(storage=storage, study_name="s")
    a.enqueue_trial({"x": 0.5})
    orig = storage.get_all_trials
    state = {"armed": True}

    def listing(study_id, deepcopy=True, states=None, orig=orig, state=state):
        out = orig(study_id, deepcopy=deepcopy, states=states)
        if state["armed"] and states == (TrialState.WAITING,) and out:
            state["armed"] = False
            tb = b.ask()                      # B claims the queued trial ...
            b.tell(tb, tb.suggest_float("x", 0, 1))  # ... and finishes it before A's claim
        return out

    storage.get_all_trials = listing
    try:
        ta = a.ask()
        print(type(storage).__name__, "A got trial", ta.number, "queued trial state:", a.trials[0].state.name)
        ok = ok and ta.number == 1
    except Exception as e:  # noqa: BLE001
        print(type(storage).__name__, "A's ask() raised", type(e).__name__, "-", str(e)[:80])
        ok = False
print("PASS" if ok else "FAIL")
sys.exit(0 if ok else 1)
