import sys, os; sys.path.insert(0, os.getcwd())
import tempfile, threading
import optuna
from optuna.storages import RDBStorage
from optuna.trial import TrialState
print(optuna.__file__)
optuna.logging.set_verbosity(optuna.logging.ERROR)
d = tempfile.mkdtemp()
url = "sqlite:///" + os.path.join(d, "db.sqlite3")
s1 = RDBStorage(url)
s2 = RDBStorage(url)
study1 = optuna.create_study(storage=s1, study_name="s")
study2 = optuna.load_study(storage=s2, study_name="s")
study1.enqueue_trial({"x": 1.0})

paused = threading.Event(); resume = threading.Event()
orig = s1.check_trial_is_updatable
def hooked(trial_id, state):
    orig(trial_id, state)
    if threading.current_thread().name == "A" and not paused.is_set():
        paused.set(); resume.wait(20)
s1.check_trial_is_updatable = hooked
res = {}
def a():
    try:
        res["a"] = study1.ask().number
    except Exception as e:
        res["a"] = repr(e)
t = threading.Thread(target=a, name="A"); t.start()
paused.wait(20)
res["b"] = study2.ask().number
resume.set(); t.join()
print(res)
print([(t.number, t.state) for t in study2.get_trials()])
