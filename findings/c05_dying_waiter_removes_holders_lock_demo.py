import sys, os; sys.path.insert(0, os.getcwd())  # noqa: E401,E702

# Reproducer for an EXISTING defect of the unmodified library (see existing_defect.md):
# a worker that is interrupted (Ctrl-C / SIGINT -> KeyboardInterrupt; the same for SystemExit or
# any other BaseException) inside the `try:` body of `acquire()` while ANOTHER worker holds the
# journal lock removes the lock file of that holder, because `acquire()` runs `self.release()`
# in its `except BaseException:` arm although it never acquired anything.
#
# The schedule is forced: worker B delivers SIGINT to itself at the moment it is about to issue
# the lock-creating system call (os.symlink / os.open) of a polling round. (An interrupt that
# arrives during the time.sleep() of the polling loop is harmless, since that sleep is executed
# inside the `except OSError` handler, which the `except BaseException` arm does not cover.)
#
# Run from the worktree root: /venv/bin/python /tmp/seed6/C05_out/existing_defect_repro.py
# Exit 1 and last line "DEFECT REPRODUCED" if the defect shows, exit 0 / "not reproduced" if not.

import multiprocessing
import signal
import tempfile
import threading
import time
import warnings

import optuna
from optuna.storages import JournalStorage
from optuna.storages.journal import JournalFileBackend
from optuna.storages.journal import JournalFileOpenLock
from optuna.storages.journal import JournalFileSymlinkLock
from optuna.study import StudyDirection


warnings.simplefilter("ignore")
optuna.logging.set_verbosity(optuna.logging.ERROR)


def waiter(path, lock_cls, go, study_id):
    storage = JournalStorage(JournalFileBackend(path, lock_obj=lock_cls(path)))
    go.wait()
    lock_file = path + ".lock"
    name = "symlink" if lock_cls is JournalFileSymlinkLock else "open"
    real = getattr(os, name)
    calls = [0]

    def interrupted_syscall(*args, **kwargs):
        if lock_file in args and os.path.lexists(lock_file):
            calls[0] += 1
            if calls[0] == 3:  # third polling round while A holds the lock
                signal.raise_signal(signal.SIGINT)  # Ctrl-C arrives here -> KeyboardInterrupt
        return real(*args, **kwargs)

    setattr(os, name, interrupted_syscall)
    # Polls for the lock because worker A holds it; dies from the KeyboardInterrupt.
    storage.set_study_user_attr(study_id, "from_B", 1)


def run(lock_cls):
    findings = []
    with tempfile.TemporaryDirectory() as d:
        path = os.path.join(d, "journal.log")
        lock_file = path + ".lock"
        storage_a = JournalStorage(JournalFileBackend(path, lock_obj=lock_cls(path)))
        study_id = storage_a.create_new_study([StudyDirection.MINIMIZE], "s")

        ctx = multiprocessing.get_context("fork")
        go = ctx.Event()
        b = ctx.Process(target=waiter, args=(path, lock_cls, go, study_id))
        b.start()

        # Worker A: a normal append, paused inside its critical section (in fsync).
        in_fsync, resume = threading.Event(), threading.Event()
        real_fsync = os.fsync
        a_thread = None

        def slow_fsync(fd):
            if threading.current_thread() is a_thread:
                in_fsync.set()
                resume.wait(30)
            return real_fsync(fd)

        os.fsync = slow_fsync
        a_error = []

        def worker_a():
            try:
                storage_a.set_study_user_attr(study_id, "from_A", 1)
            except BaseException as e:
                a_error.append(e)

        a_thread = threading.Thread(target=worker_a)
        a_thread.start()
        try:
            assert in_fsync.wait(20)
            assert os.path.lexists(lock_file), "A holds the lock"
            go.set()
            b.join(20)  # B polls for the lock and is interrupted in its third round
            print("  worker B exited with code", b.exitcode)

            still_locked = os.path.lexists(lock_file)
            print("  lock file of A still present after B died:", still_locked)
            if not still_locked:
                findings.append(
                    "the dying waiter deleted the lock file of the live holder "
                    "(mutual exclusion is lost while A is still inside its critical section)"
                )
        finally:
            resume.set()
            a_thread.join(30)
            os.fsync = real_fsync

        if a_error:
            print("  worker A's storage call raised: %r" % a_error[0])
            fresh = JournalStorage(JournalFileBackend(path, lock_obj=lock_cls(path)))
            applied = fresh.get_study_user_attrs(study_id).get("from_A") == 1
            findings.append(
                "surviving worker A's set_study_user_attr raised %r although its record %s "
                "written to the journal" % (a_error[0], "WAS" if applied else "was not")
            )
        else:
            print("  worker A's storage call returned normally")
    return findings


def main():
    print("optuna from", optuna.__file__)
    findings = []
    for lock_cls in (JournalFileSymlinkLock, JournalFileOpenLock):
        print(lock_cls.__name__)
        findings += ["%s: %s" % (lock_cls.__name__, f) for f in run(lock_cls)]
    for f in findings:
        print("FINDING:", f)
    if findings:
        print("DEFECT REPRODUCED")
        sys.exit(1)
    print("not reproduced")


if __name__ == "__main__":
    main()
