import sys, os; sys.path.insert(0, os.getcwd())

# Existing defect (unmodified library): a partly written last journal record left by a dead
# writer wedges the journal for everybody as soon as a survivor appends.

import shutil
import tempfile

import optuna
from optuna.storages import JournalStorage
from optuna.storages.journal import JournalFileBackend
from optuna.study import StudyDirection

optuna.logging.set_verbosity(optuna.logging.ERROR)
print(optuna.__file__)

FULL = b'{"op_code":8,"worker_id":"dead-1-1","trial_id":0,"user_attr":{"dead":1}}\n'
problems = []
for cut in (1, 20, len(FULL) - 2, len(FULL) - 1):  # len-1: everything but the newline
    tmpdir = tempfile.mkdtemp(prefix="c05_existing_")
    path = os.path.join(tmpdir, "journal.log")
    try:
        s1 = JournalStorage(JournalFileBackend(path))
        sid = s1.create_new_study([StudyDirection.MINIMIZE], "s")
        tid = s1.create_new_trial(sid)
        with open(path, "ab") as f:  # the dying writer gets only `cut` bytes out
            f.write(FULL[:cut])
        s2 = JournalStorage(JournalFileBackend(path))  # survivor / fresh opener: fine so far
        s2.set_trial_user_attr(tid, "k", 1)  # returns normally = acknowledged
        for name, opener in (
            ("writer itself", lambda: s2),
            ("other survivor", lambda: s1),
            ("fresh opener", lambda: JournalStorage(JournalFileBackend(path))),
        ):
            try:
                st = opener()
                st.set_trial_user_attr(tid, "k2", 2)
                attrs = st.get_trial(tid).user_attrs
                if attrs.get("k") != 1:
                    problems.append(f"cut={cut}: {name}: acknowledged attr lost: {attrs}")
            except Exception as e:  # noqa: BLE001
                problems.append(f"cut={cut}: {name}: {type(e).__name__}: {e}")
    finally:
        shutil.rmtree(tmpdir, ignore_errors=True)

for p in problems:
    print("problem:", p)
print("FAIL" if problems else "PASS")
sys.exit(1 if problems else 0)
