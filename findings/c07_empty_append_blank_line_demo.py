"""F26: JournalFileBackend.append_logs([]) wrote a bare newline.  The blank line is newline-terminated but is not a record: once any real
record follows it, every read_logs that passes over it raises JSONDecodeError - for the same worker and for fresh readers.  The Redis
backend treats an empty batch as a no-op.  Exit 0 / PASS when an empty batch leaves the journal readable.
"""
import os
import sys
import tempfile

sys.path.insert(0, os.getcwd())
from optuna.storages.journal import JournalFileBackend  # noqa: E402

path = os.path.join(tempfile.mkdtemp(), "j.log")
b = JournalFileBackend(path)
b.append_logs([{"k": 1}])
b.append_logs([])
b.append_logs([{"k": 2}])
try:
    got = JournalFileBackend(path).read_logs(0)
    print("fresh reader:", got)
    ok = got == [{"k": 1}, {"k": 2}]
except Exception as e:  # noqa: BLE001
    print("fresh reader raised", type(e).__name__, e)
    ok = False
print("PASS" if ok else "FAIL")
sys.exit(0 if ok else 1)
