"""Known finding C07/R07.6 takeover-removes-by-path: deterministic reproduction on the real code.

A holder died leaving its lock file. Waiters W1 and W2 both watch it for the grace period.
W2 is preempted between its staleness test and the rename inside release(); meanwhile W1 removes
the stale lock and acquires. W2 resumes, renames *W1's* fresh lock away and acquires as well:
two workers hold the journal lock at the same time.   Run: /venv/bin/python findings/c07_takeover_race_demo.py
"""
import os
import sys
import tempfile
import threading
import warnings

from optuna.storages.journal import JournalFileOpenLock, JournalFileSymlinkLock

warnings.simplefilter("ignore")
bad = 0
for cls in (JournalFileOpenLock, JournalFileSymlinkLock):
    d = tempfile.mkdtemp()
    path = os.path.join(d, "journal.log")
    open(path, "w").close()
    dead = cls(path, grace_period=1)
    assert dead.acquire()          # the holder "dies" here: never releases
    w1, w2 = cls(path, grace_period=1), cls(path, grace_period=1)
    w2_at_release, w1_has_lock = threading.Event(), threading.Event()
    real_release = w2.release
    first = [True]

    def paused_release():
        if first[0]:               # W2 judged the lock stale; preempted before the rename
            first[0] = False
            w2_at_release.set()
            w1_has_lock.wait(20)
        real_release()
    w2.release = paused_release
    got = {}
    t2 = threading.Thread(target=lambda: got.__setitem__("w2", w2.acquire()))
    t2.start()
    w2_at_release.wait(20)
    got["w1"] = w1.acquire()       # removes the dead holder's lock, creates its own
    w1_has_lock.set()
    t2.join(20)
    both = got.get("w1") is True and got.get("w2") is True
    print(f"{cls.__name__}: acquire() returned True for W1={got.get('w1')} W2={got.get('w2')} with no release in between -> two holders: {both}")
    bad += both
print("FAIL" if bad else "PASS")
sys.exit(1 if bad else 0)
