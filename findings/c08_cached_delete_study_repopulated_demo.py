"""F25: _CachedStorage.delete_study cleared its cache and only afterwards, with the lock released, deleted the study in the backend.
A get_all_trials from another thread of the same client inside that window re-populated the trial cache and both id maps; after
delete_study had returned, get_trial(tid) still returned the COMPLETE trial and get_trial_id_from_study_id_trial_number(sid, 0) the old
id, while the backend raises KeyError for both.  No id re-use involved.  Exit 0 / PASS when the cache answers like the backend.
"""
import os
import sys
import tempfile
import threading

sys.path.insert(0, os.getcwd())
import optuna  # noqa: E402
from optuna.storages import RDBStorage  # noqa: E402
from optuna.storages._cached_storage import _CachedStorage  # noqa: E402
from optuna.study import StudyDirection  # noqa: E402
from optuna.trial import TrialState  # noqa: E402

optuna.logging.set_verbosity(optuna.logging.ERROR)
backend = RDBStorage("sqlite:///" + os.path.join(tempfile.mkdtemp(), "db.sqlite3"))
storage = _CachedStorage(backend)
sid = storage.create_new_study([StudyDirection.MINIMIZE], "s")
tid = storage.create_new_trial(sid)
storage.set_trial_state_values(tid, TrialState.COMPLETE, [1.0])
storage.get_all_trials(sid)

in_window, reader_done = threading.Event(), threading.Event()
orig = backend.delete_study


def delete_study(study_id):
    in_window.set()         # the cache was cleared, the backend still has the study
    reader_done.wait(3)     # (a tree that deletes under the cache lock keeps the reader out until the delete is done)
    orig(study_id)


backend.delete_study = delete_study


def reader():
    in_window.wait(10)
    try:
        storage.get_all_trials(sid)
    except KeyError:
        pass
    finally:
        reader_done.set()


t = threading.Thread(target=reader)
t.start()
storage.delete_study(sid)
t.join(30)
ok = True
for what, call in (("get_trial", lambda: storage.get_trial(tid)), ("number look-up", lambda: storage.get_trial_id_from_study_id_trial_number(sid, 0))):
    try:
        print(what, "after delete_study returned ->", call(), "(backend: KeyError)")
        ok = False
    except KeyError:
        print(what, "after delete_study returned -> KeyError, as in the backend")
print("PASS" if ok else "FAIL")
sys.exit(0 if ok else 1)
