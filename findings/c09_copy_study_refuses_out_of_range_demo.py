import sys, os; sys.path.insert(0, os.getcwd())
# Existing defect 2 (unmodified library): copy_study cannot copy a finished study that contains a
# parameter value outside its distribution, although the library itself creates such trials (with
# a warning only): GridSampler with a grid value outside the suggested range, enqueue_trial /
# PartialFixedSampler with an out-of-range fixed value.  Study.add_trial validates every trial
# with FrozenTrial._validate(), which raises ValueError, so the copy aborts half-way (the target
# study exists, holds the trials before the offending one and nothing after it).
import warnings

import optuna
from optuna.storages import InMemoryStorage

optuna.logging.set_verbosity(optuna.logging.CRITICAL)
warnings.simplefilter("ignore")
print("optuna from", optuna.__file__)

ok = True

# (a) GridSampler.
src = InMemoryStorage()
study = optuna.create_study(
    storage=src, study_name="grid", sampler=optuna.samplers.GridSampler({"x": [0, 5, 20]}, seed=0)
)
study.optimize(lambda t: float(t.suggest_int("x", 0, 10) ** 2), n_trials=3)
print("grid study:", [(t.state.name, t.params) for t in study.trials])
dst = InMemoryStorage()
try:
    optuna.copy_study(from_study_name="grid", from_storage=src, to_storage=dst)
    print("copy ok")
except ValueError as e:
    ok = False
    print("copy_study failed:", e)
    print("partial copy holds", len(optuna.load_study(study_name="grid", storage=dst).trials), "of 3 trials")

# (b) enqueue_trial.
src = InMemoryStorage()
study = optuna.create_study(storage=src, study_name="enq", sampler=optuna.samplers.RandomSampler(seed=0))
study.enqueue_trial({"x": 1.5})
study.optimize(lambda t: t.suggest_float("x", 0, 1), n_trials=2)
print("enqueue study:", [(t.state.name, t.params) for t in study.trials])
try:
    optuna.copy_study(from_study_name="enq", from_storage=src, to_storage=InMemoryStorage())
    print("copy ok")
except ValueError as e:
    ok = False
    print("copy_study failed:", e)

print("PASS" if ok else "FAIL")
sys.exit(0 if ok else 1)
