"""GrpcStorageProxy returns a trial's params / distributions in protobuf-map order (hash order), not in suggestion order.

Every other backend keeps the order in which the objective suggested the parameters (dict insertion order; RDB by param_id).
BruteForceSampler rebuilds its search tree by walking trial.params in dict order and raises `ValueError: param_name mismatch` on the
second trial; QMCSampler / any sampler that maps a vector onto `search_space` by dict order samples a different sequence.
Exit 0 / PASS when the proxy preserves the order and the seeded sampler behaves as on the in-memory backend.
"""
import os
import sys

sys.path.insert(0, os.getcwd())
import optuna  # noqa: E402
from optuna.storages import GrpcStorageProxy, InMemoryStorage, run_grpc_proxy_server  # noqa: E402
import threading  # noqa: E402
import socket  # noqa: E402
import time  # noqa: E402

optuna.logging.set_verbosity(optuna.logging.ERROR)
s = socket.socket()
s.bind(("localhost", 0))
port = s.getsockname()[1]
s.close()
backend = InMemoryStorage()
from optuna.storages._grpc.server import make_server  # noqa: E402

server = make_server(backend, "localhost", port)
th = threading.Thread(target=server.start, daemon=True)
th.start()
time.sleep(1.0)
proxy = GrpcStorageProxy(host="localhost", port=port)
proxy.wait_server_ready(timeout=30) if hasattr(proxy, "wait_server_ready") else None
names = ["zeta", "alpha", "m", "b"]


def objective(trial):
    return sum(trial.suggest_int(n, 0, 1) for n in names)


ok = True
study = optuna.create_study(storage=proxy, sampler=optuna.samplers.BruteForceSampler(seed=0))
try:
    study.optimize(objective, n_trials=4)
    order = list(study.trials[0].params)
    print("order of params read back through the proxy:", order)
    ok = order == names
except Exception as e:  # noqa: BLE001
    print("BruteForceSampler over the gRPC proxy raised", type(e).__name__, "-", e)
    print("order of params read back through the proxy:", list(study.trials[0].params), "suggested:", names)
    ok = False
server.stop(0)
print("PASS" if ok else "FAIL")
sys.exit(0 if ok else 1)
