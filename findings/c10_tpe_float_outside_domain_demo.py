"""TPESampler returns a float far outside [low, high] when the history of the parameter name holds values from a far-away range.

trials 0..11: suggest_float("x", 0, 1e6); from trial 12: suggest_float("x", 0, 1)  (TPESampler(seed=1), past start-up).
The kernel centres are all past values of the name; sigma is capped by the new range; _truncnorm.ppf bisects within +-100 sigma
only, so for a truncation interval further away the sample is mu -+ 100 sigma, and plain floats are not clipped afterwards.
Exit 0 / PASS when every value lies in the declared domain.
"""
import os
import sys

sys.path.insert(0, os.getcwd())
import optuna  # noqa: E402

optuna.logging.set_verbosity(optuna.logging.ERROR)
study = optuna.create_study(sampler=optuna.samplers.TPESampler(seed=1))


def objective(trial):
    if trial.number < 12:
        return trial.suggest_float("x", 0.0, 1.0e6)
    return trial.suggest_float("x", 0.0, 1.0)


import warnings  # noqa: E402
warnings.simplefilter("ignore")
study.optimize(objective, n_trials=20)
bad = [(t.number, t.params["x"]) for t in study.trials[12:] if not 0.0 <= t.params["x"] <= 1.0]
print("values outside [0, 1]:", bad[:4], f"({len(bad)} of 8)")
print("PASS" if not bad else "FAIL")
sys.exit(0 if not bad else 1)
