"""K5: Study.best_trial returns an infeasible trial although feasible COMPLETE trials exist, when the best-valued trial has no
recorded constraints (constraints_func raised -> None is stored and the trial still becomes COMPLETE; or the trial was added
without the key).  The library's own feasibility predicate (_get_feasible_trials, used by best_trials and by the fallback itself)
counts such a trial as infeasible.  Exit 0 / PASS when best_trial is feasible, exit 1 / FAIL otherwise.
"""
import os
import sys

sys.path.insert(0, os.getcwd())
import optuna  # noqa: E402
from optuna.study._constrained_optimization import _get_feasible_trials  # noqa: E402

optuna.logging.set_verbosity(optuna.logging.ERROR)


def cons(t):
    if t.params["x"] < 0.1:
        raise RuntimeError("constraint evaluation failed")
    return (0.5 - t.params["x"],)  # feasible iff x >= 0.5


import warnings  # noqa: E402
warnings.simplefilter("ignore")
s = optuna.create_study(sampler=optuna.samplers.NSGAIISampler(constraints_func=cons, seed=0))
for x in (0.05, 0.3, 0.7, 0.9):
    s.enqueue_trial({"x": x})
    t = s.ask()
    v = t.suggest_float("x", 0, 1)
    try:
        s.tell(t, v)
    except RuntimeError:
        pass
for t in s.trials:
    print(t.number, t.state.name, t.value, t.system_attrs.get("constraints"))
best = s.best_trial
feasible = [t.number for t in _get_feasible_trials(s.get_trials(states=[optuna.trial.TrialState.COMPLETE]))]
print("best_trial:", best.number, " feasible trials:", feasible, " best_trials:", [t.number for t in s.best_trials])
ok = best.number in feasible
print("PASS" if ok else "FAIL")
sys.exit(0 if ok else 1)
