import sys, os; sys.path.insert(0, os.getcwd())
import tempfile, threading, time, warnings
import optuna
from optuna.storages import RDBStorage, RetryFailedTrialCallback
from optuna.trial import TrialState
print(optuna.__file__)
warnings.simplefilter("ignore")
optuna.logging.set_verbosity(optuna.logging.ERROR)
d = tempfile.mkdtemp()
url = f"sqlite:///{d}/db.sqlite3"
def mk():
    return RDBStorage(url, heartbeat_interval=1, grace_period=2, failed_trial_callback=RetryFailedTrialCallback())
sA = mk(); sB = mk()
studyA = optuna.create_study(storage=sA, study_name="s")
studyB = optuna.load_study(storage=sB, study_name="s")
t = studyA.ask()
sA.record_heartbeat(t._trial_id)
time.sleep(3.2)
# pause A after its read of the trial row
a_read = threading.Event(); b_done = threading.Event()
orig = sA.check_trial_is_updatable
def paused(trial_id, state):
    orig(trial_id, state)
    a_read.set(); b_done.wait(20)
sA.check_trial_is_updatable = paused
th = threading.Thread(target=lambda: optuna.storages.fail_stale_trials(studyA))
th.start()
a_read.wait(20)
sA.check_trial_is_updatable = orig
optuna.storages.fail_stale_trials(studyB)
b_done.set()
th.join()
trials = studyB.get_trials()
print([(x.number, x.state.name, x.system_attrs) for x in trials])
