"""F27: Study.directions returned the storage's own list (in-memory, journal, cached RDB): the Study caches what
storage.get_study_directions() returned - the backend's list object - and handed it out uncopied, so
`study.directions[0] = MAXIMIZE` flipped the direction for every Study on that storage object, and best_trial followed.
Exit 0 / PASS when modifying the returned list changes nothing.
"""
import os
import sys

sys.path.insert(0, os.getcwd())
import optuna  # noqa: E402
from optuna.study import StudyDirection  # noqa: E402

optuna.logging.set_verbosity(optuna.logging.ERROR)
storage = optuna.storages.InMemoryStorage()
study = optuna.create_study(storage=storage, study_name="s", direction="minimize")
study.optimize(lambda t: t.suggest_float("x", 0, 1), n_trials=5)
best_before = study.best_trial.number
d = study.directions
d[0] = StudyDirection.MAXIMIZE
other = optuna.load_study(storage=storage, study_name="s")
print("direction seen by a second Study object:", other.direction.name, "| storage:", storage.get_study_directions(study._study_id)[0].name)
ok = other.direction == StudyDirection.MINIMIZE and study.directions[0] == StudyDirection.MINIMIZE
print("PASS" if ok else "FAIL")
sys.exit(0 if ok else 1)
