"""F22: Study.metric_names returned the storage's own list (in-memory / journal): modifying the result changed what the study
returned later, unlike its siblings user_attrs / system_attrs, which deep-copy.  Exit 0 / PASS when the study is unaffected.
"""
import os
import sys
import tempfile

sys.path.insert(0, os.getcwd())
import optuna  # noqa: E402
import warnings  # noqa: E402

warnings.simplefilter("ignore")
optuna.logging.set_verbosity(optuna.logging.ERROR)
ok = True
for storage in (None, optuna.storages.JournalStorage(optuna.storages.journal.JournalFileBackend(os.path.join(tempfile.mkdtemp(), "j.log")))):
    study = optuna.create_study(storage=storage)
    study.set_metric_names(["a"])
    names = study.metric_names
    names.append("zzz")
    print(type(study._storage).__name__, "metric_names after modifying an earlier result:", study.metric_names, study.system_attrs)
    ok = ok and study.metric_names == ["a"]
print("PASS" if ok else "FAIL")
sys.exit(0 if ok else 1)
