"""Compare-and-set rule for WAITING->RUNNING and the finished-trial guard, decided by
finite-domain exploration over (requested state, stored state) in TrialState x TrialState."""
from __future__ import annotations

import ast

from sa.cfg import CFG
from sa.enumdom import FINISHED, TRIAL_STATES, explore
from sa.loader import dotted, norm, own_nodes
from sa.util import class_lock_fields, lock_section_of, parent_map, self_attr, where

INMEM = "optuna.storages._in_memory.InMemoryStorage"
RDB = "optuna.storages._rdb.storage.RDBStorage"
REPLAY = "optuna.storages.journal._storage.JournalStorageReplayResult"
JOURNAL = "optuna.storages.journal._storage.JournalStorage"

PRIMARY = [
    (INMEM, "set_trial_state_values", True),
    (RDB, "set_trial_state_values", True),
    (REPLAY, "_apply_set_trial_state_values", False),
]


def model_updatable(call, env):
    """check_trial_is_updatable(id, <cur>) raises iff <cur> is finished;
    _trial_exists_and_updatable(id, log) is True iff the stored state is not finished (the
    trial is assumed to exist; its own body is checked by cas_helper_summary)."""
    if isinstance(call.func, ast.Attribute) and call.func.attr == "check_trial_is_updatable" and len(call.args) >= 2:
        m = env.get(norm(call.args[1]))
        if m is not None:
            return "raise" if m in FINISHED else None
    if isinstance(call.func, ast.Attribute) and call.func.attr == "_trial_exists_and_updatable":
        cur = env.get("__cur__")
        if cur is not None:
            return cur not in FINISHED
    return None


def cas_rule(ctx, rule, label="cas"):
    p = ctx.program
    n_backends = 0
    for clsq, mname, public in PRIMARY:
        cls = p.cls(clsq)
        f = cls.methods.get(mname)
        ctx.require(f is not None, f"{rule}: {clsq}.{mname} vanished")
        n_backends += 1
        g = CFG(f.node, name=f.qualname)
        cur_texts = set()
        for x in own_nodes(f.node):
            if isinstance(x, ast.Attribute) and x.attr == "state" and isinstance(x.ctx, ast.Load):
                b = norm(x.value)
                if b not in ("self", "template_trial") and not b.endswith("TrialState"):
                    cur_texts.add(norm(x))
        writes = [n for n in g.stmt_nodes() if n.kind == "stmt" and isinstance(n.ast, ast.Assign)
                  and any(isinstance(t, ast.Attribute) and t.attr == "state" for t in n.ast.targets)]
        ctx.require(writes, f"{rule}: {cls.name}.{mname}: state write not found")
        # the written value is the requested state
        for w in writes:
            ctx.check(norm(w.ast.value) == "state", rule, f.short, "writes-requested-state",
                      message=f"{cls.name}.{mname} stores `{norm(w.ast.value)}` as the new state, not the requested one",
                      how="trial.state = state", where=where(f, w.ast))
        bad_block, bad_live, bad_ret = [], [], []
        for req in TRIAL_STATES:
            for cur in TRIAL_STATES:
                env = {"state": req, "__cur__": cur}
                for t in cur_texts:
                    env[t] = cur
                reach = explore(g, env, [model_updatable], stop_at=writes)
                reached = any(w in reach for w in writes)
                blocked = cur in FINISHED or (req == "RUNNING" and cur != "WAITING")
                if blocked and reached:
                    bad_block.append((req, cur))
                if req == "RUNNING" and cur == "WAITING" and not reached:
                    bad_live.append((req, cur))
                if public and req == "RUNNING" and cur == "RUNNING":
                    for n in reach:
                        if n.kind == "stmt" and isinstance(n.ast, ast.Return):
                            v = n.ast.value
                            if not (isinstance(v, ast.Constant) and v.value is False):
                                bad_ret.append(norm(n.ast))
        ctx.check(not bad_block, rule, f.short, f"{label}:state-write-blocked",
                  message=f"{cls.name}.{mname}: the state write is reachable for (requested, stored) = {bad_block}: "
                          f"a finished trial can be rewritten or RUNNING can be taken from a non-WAITING trial "
                          f"(two workers could both claim one queued trial)",
                  how="25 (requested, stored) combinations explored on the CFG; write unreachable when stored is finished "
                      "or requested RUNNING from non-WAITING")
        ctx.check(not bad_live, rule, f.short, f"{label}:waiting-can-be-claimed",
                  message=f"{cls.name}.{mname}: a WAITING trial can never be moved to RUNNING", how="write reachable for (RUNNING, WAITING)")
        if public:
            ctx.check(not bad_ret, rule, f.short, f"{label}:loser-returns-False",
                      message=f"{cls.name}.{mname}: a RUNNING request on an already RUNNING trial can return {sorted(set(bad_ret))} "
                              f"instead of False (the loser of the race would believe it owns the trial)",
                      how="every return reachable for (RUNNING, RUNNING) is `return False`")
    ctx.floor(rule, "primary_backends", n_backends, 3, exact=True)
    # the journal reject helper: True only when the stored state is not finished
    cls = p.cls(REPLAY)
    f = cls.methods.get("_trial_exists_and_updatable")
    ctx.require(f is not None, f"{rule}: _trial_exists_and_updatable vanished")
    g = CFG(f.node, name=f.qualname)
    cur_texts = {norm(x) for x in own_nodes(f.node) if isinstance(x, ast.Attribute) and x.attr == "state" and norm(x.value) != "self"}
    bad = []
    for cur in TRIAL_STATES:
        env = {t: cur for t in cur_texts}
        reach = explore(g, env, [])
        for n in reach:
            if n.kind == "stmt" and isinstance(n.ast, ast.Return) and isinstance(n.ast.value, ast.Constant) and n.ast.value.value is True:
                if cur in FINISHED:
                    bad.append(cur)
    ctx.check(not bad and bool(cur_texts), rule, f.short, f"{label}:helper-rejects-finished",
              message=f"_trial_exists_and_updatable returns True for a finished trial ({bad})", how="True unreachable for finished stored states")



def cas_atomic_rule(ctx, rule, label="cas"):
    """In-memory backend: the read of the stored state that the guard tests, the guard itself and the
    publication of the new state all happen inside ONE `with self._lock` section. A guard evaluated
    before the lock is taken (or in an earlier section) is a check-then-act race: two threads both see
    WAITING and both publish RUNNING."""
    p = ctx.program
    cls = p.cls(INMEM)
    f = cls.methods.get("set_trial_state_values")
    ctx.require(f is not None, f"{rule}: InMemoryStorage.set_trial_state_values vanished")
    locks = class_lock_fields(cls)
    ctx.require(locks, f"{rule}: InMemoryStorage has no lock field")
    pm = parent_map(f.node)
    guards, pubs = [], []
    for x in own_nodes(f.node):
        if isinstance(x, ast.Attribute) and x.attr == "state" and isinstance(x.ctx, ast.Load):
            b = norm(x.value)
            if b not in ("self", "template_trial") and not b.endswith("TrialState"):
                guards.append(x)
        if isinstance(x, ast.Call) and self_attr(x.func) in ("_set_trial",):
            pubs.append(x)
        if isinstance(x, ast.Assign) and any(isinstance(t, ast.Subscript) and "trials" in norm(t.value) for t in x.targets):
            pubs.append(x)
    ctx.require(guards and pubs, f"{rule}: stored-state reads / publication not found in InMemoryStorage.set_trial_state_values")
    secs = {id(lock_section_of(x, pm, locks)): lock_section_of(x, pm, locks) for x in guards + pubs}
    unlocked = [x for x in guards + pubs if lock_section_of(x, pm, locks) is None]
    ok = not unlocked and len(secs) == 1
    what = "outside the lock" if unlocked else f"spread over {len(secs)} critical sections"
    ctx.check(ok, rule, f.short, f"{label}:guard-and-publication-in-one-critical-section",
              message=f"InMemoryStorage.set_trial_state_values: the stored-state test and the publication of the new state are {what} "
                      f"(first at line {getattr((unlocked or guards)[0], 'lineno', 0)}): two threads can both see WAITING and both set RUNNING - one queued trial "
                      f"is handed to two workers",
              how="every read of the stored trial's state and every publication (_set_trial) lies in the same `with self._lock` statement")



MODELS = "optuna.storages._rdb.models"


def cas_rdb_atomic_rule(ctx, rule, label="cas"):
    """RDB backend: every read of the stored trial's state in set_trial_state_values is made on the row fetched with for_update=True, inside the
    session region (= transaction) that also writes the new state. A state test on a plain read, or in an earlier transaction, decides on a
    value that another worker may have changed before this worker's write: two workers both pass and both write RUNNING."""
    from sa.util import enclosing_with_items
    p = ctx.program
    cls = p.cls(RDB)
    f = cls.methods.get("set_trial_state_values")
    ctx.require(f is not None, f"{rule}: RDBStorage.set_trial_state_values vanished")
    pm = parent_map(f.node)

    def region(n):
        regs = [it for it in enclosing_with_items(n, pm) if isinstance(it.context_expr, ast.Call) and (dotted(it.context_expr.func) or "").endswith("_create_scoped_session")]
        return regs[-1] if regs else None

    def is_fetch(c):
        return isinstance(c, ast.Call) and isinstance(c.func, ast.Attribute) and c.func.attr == "find_or_raise_by_id" and "TrialModel" in norm(c.func.value)

    def locked(c):
        return any(k.arg == "for_update" and isinstance(k.value, ast.Constant) and k.value.value is True for k in c.keywords) or (
            len(c.args) > 2 and isinstance(c.args[2], ast.Constant) and c.args[2].value is True)
    fetch_of = {}
    for n in own_nodes(f.node):
        if isinstance(n, ast.Assign) and len(n.targets) == 1 and isinstance(n.targets[0], ast.Name) and is_fetch(n.value):
            fetch_of.setdefault(n.targets[0].id, []).append(n.value)
    stores = [n for n in own_nodes(f.node) if isinstance(n, ast.Assign) and any(isinstance(t, ast.Attribute) and t.attr == "state" and isinstance(t.value, ast.Name)
                                                                               and t.value.id in fetch_of for t in n.targets)]
    ctx.require(stores, f"{rule}: RDBStorage.set_trial_state_values no longer assigns <row>.state")
    wreg = {id(region(s)) for s in stores}
    n_reads = 0
    for x in own_nodes(f.node):
        if not (isinstance(x, ast.Attribute) and x.attr == "state" and isinstance(x.ctx, ast.Load)):
            continue
        if isinstance(x.value, ast.Name) and x.value.id in fetch_of:
            fetches = fetch_of[x.value.id]
        elif is_fetch(x.value):
            fetches = [x.value]
        else:
            continue
        n_reads += 1
        ok = all(locked(c) for c in fetches) and region(x) is not None and id(region(x)) in wreg and len(wreg) == 1
        ctx.check(ok, rule, f.short, f"{label}:state-tested-on-the-locked-row-in-the-writing-transaction",
                  message=f"RDBStorage.set_trial_state_values reads the stored state (`{norm(x)[:60]}`, line {x.lineno}) on a row that was not fetched for update in the "
                          f"transaction that writes the new state: the test and the write are not atomic, so two workers racing for one WAITING trial can both pass the "
                          f"test and both set RUNNING (a queued trial runs twice)",
                  how="read on the for_update=True fetch, same _create_scoped_session block as `<row>.state = state`", where=where(f, x))
    ctx.floor(rule, "rdb_stored_state_reads", n_reads, 2)


def cas_dialect_rule(ctx, rule, label="cas"):
    """RDB backend: what makes read-state / test / write-state atomic must work on every SQL dialect the
    storage accepts. Today it is `SELECT ... FOR UPDATE` (find_or_raise_by_id(for_update=True) ->
    Query.with_for_update()). RDBStorage accepts sqlite URLs (it has `engine.name == "sqlite"` branches and
    sqlite is the documented default for file storage), and SQLAlchemy's SQLite dialect drops FOR UPDATE -
    stated in the repository itself next to the call. So either no accepted dialect ignores the row lock,
    or the UPDATE statement itself carries the expected state (UPDATE .. WHERE state = <read state>, row
    count tested)."""
    p = ctx.program
    cls = p.cls(RDB)
    f = cls.methods.get("set_trial_state_values")
    ctx.require(f is not None, f"{rule}: RDBStorage.set_trial_state_values vanished")
    # 1. the row is read with for_update=True (R03.4 checks the session discipline)
    reads = [c for c in own_nodes(f.node) if isinstance(c, ast.Call) and isinstance(c.func, ast.Attribute) and c.func.attr == "find_or_raise_by_id"]
    locked = [c for c in reads if any(k.arg == "for_update" and isinstance(k.value, ast.Constant) and k.value.value is True for k in c.keywords)]
    ctx.check(bool(locked), rule, f.short, f"{label}:row-read-for-update",
              message="RDBStorage.set_trial_state_values reads the trial row without for_update=True: on PostgreSQL/MySQL two workers can both read WAITING and both write RUNNING",
              how="find_or_raise_by_id(..., for_update=True)")
    # 2. does the storage accept a dialect for which the row lock is a no-op?
    sqlite_supported = any(isinstance(x, ast.Compare) and "engine.name" in norm(x.left) and any(isinstance(c, ast.Constant) and c.value == "sqlite" for c in x.comparators)
                           for m in cls.methods.values() for x in own_nodes(m.node))
    mf = p.func(MODELS + ".TrialModel.find_or_raise_by_id")
    uses_for_update = any(isinstance(c, ast.Call) and isinstance(c.func, ast.Attribute) and c.func.attr == "with_for_update" for c in own_nodes(mf.node))
    ctx.require(uses_for_update or not locked, f"{rule}: TrialModel.find_or_raise_by_id no longer applies with_for_update(): row-lock mechanism changed, re-confirm by hand")
    # 3. statement-level guard: a Query.update()/update().where() whose filter mentions the state column and whose row count is used
    stmt_guard = False
    for c in own_nodes(f.node):
        if isinstance(c, ast.Call) and isinstance(c.func, ast.Attribute) and c.func.attr in ("update", "where", "filter", "filter_by"):
            chain = norm(c)
            if ".update(" in chain and ("state ==" in chain or "state=" in chain) and ("filter" in chain or "where" in chain):
                stmt_guard = True
    ok = (not sqlite_supported) or stmt_guard
    ctx.check(ok, rule, f.short, f"{label}:enforced-on-every-dialect",
              message="RDBStorage.set_trial_state_values relies on SELECT ... FOR UPDATE to make `read state, test, write state` atomic, but the storage accepts sqlite URLs and "
                      "SQLite ignores FOR UPDATE (said so next to with_for_update() in _rdb/models.py and in the FAQ); the UPDATE the ORM emits is `WHERE trial_id = ?` only. "
                      "Two workers on one SQLite file can both read WAITING (or RUNNING) and both get True",
              how="no accepted dialect ignores the row lock, or the UPDATE carries `AND state = <state read>` with its row count tested")
