"""Rule functions on optuna/storages/journal/_file.py shared by C05 and C07."""
from __future__ import annotations

import ast

from sa.cfg import CFG, handler_names
from sa.expr import bitor_names, cmp_atom, const_str, edges_where, resolve, single_defs
from sa.loader import Program, dotted, norm, own_nodes
from sa.util import ancestors, enclosing_with_items, kwarg, parent_map, self_attr, where

MOD = "optuna.storages.journal._file"
BACKEND = MOD + ".JournalFileBackend"
LOCKBASE = MOD + ".BaseJournalFileLock"

NORMAL = lambda a, k, b: k not in ("e", "reraise", "match", "nomatch")  # noqa: E731


def _is_call_to(c: ast.Call, dotted_name: str) -> bool:
    return (dotted(c.func) or "") == dotted_name


def lock_classes(p: Program):
    base = p.cls(LOCKBASE)
    out = [c for c in p.subclasses(base) if "acquire" in c.methods or "release" in c.methods]
    return out


def rule_write_under_lock(ctx, rule):
    """Every write to the journal file happens inside `with get_lock_file(self._lock)`."""
    p = ctx.program
    cls = p.cls(BACKEND)
    n = 0
    for mname, f in sorted(cls.methods.items()):
        pm = parent_map(f.node)
        for c in [x for x in own_nodes(f.node) if isinstance(x, ast.Call)]:
            is_write = isinstance(c.func, ast.Attribute) and c.func.attr in ("write", "writelines", "truncate")
            is_wopen = _is_call_to(c, "open") and _open_mode(c) not in ("rb", "r")
            if not (is_write or is_wopen):
                continue
            if mname == "__init__" and is_wopen and not is_write:
                # file creation in the constructor: open(.., "ab").close() writes nothing;
                # decided by R05.2/R07 mode rule (append mode never truncates)
                par = pm.get(id(c))
                if isinstance(par, ast.Attribute) and par.attr == "close":
                    continue
            n += 1
            held = False
            for it in enclosing_with_items(c, pm):
                ce = it.context_expr
                if (isinstance(ce, ast.Call) and (dotted(ce.func) or "").endswith("get_lock_file")
                        and ce.args and norm(resolve(ce.args[0], single_defs(f.node))) == "self._lock"):
                    held = True
            if is_wopen:
                # a raw (unbuffered) file object hands each write() to the OS once and returns the number of bytes it
                # took; the buffered default keeps writing until everything is delivered. With buffering=0 a short write
                # silently drops the tail of a record (and its newline), the next append is glued onto it.
                bufarg = kwarg(c, "buffering", 2)
                raw = isinstance(bufarg, ast.Constant) and bufarg.value == 0
                ctx.check(not raw, rule, f.short, "append-through-buffered-file",
                          message=f"{cls.name}.{mname}: `{norm(c)[:60]}` opens the journal unbuffered and the byte count returned by write() is not "
                                  f"consumed: when the OS accepts only part of the bytes the rest of the record vanishes",
                          how="default buffering (write() delivers all bytes or raises)", where=where(f, c))
            ctx.check(held, rule, f.short, "write-under-file-lock:" + ("write" if is_write else "open"),
                      message=f"{cls.name}.{mname}: `{norm(c)[:60]}` touches the journal file for "
                              f"writing outside `with get_lock_file(self._lock)`",
                      how="lexically inside with get_lock_file(self._lock)", where=where(f, c))
    ctx.floor(rule, "journal_write_sites", n, 2)
    # self._lock is the constructor's lock object and is never rebound
    rebinds = [(m, x) for m, f in cls.methods.items() if m != "__init__" for x in own_nodes(f.node)
               if isinstance(x, (ast.Assign, ast.AugAssign, ast.AnnAssign))
               and any(self_attr(t) == "_lock" for t in (x.targets if isinstance(x, ast.Assign) else [x.target]))]
    ctx.check(not rebinds, rule, cls.methods["__init__"].short, "lock-object-stable",
              message="JournalFileBackend._lock is rebound outside __init__", how="no rebinding of self._lock")


def _open_mode(c: ast.Call) -> str | None:
    m = None
    if len(c.args) >= 2:
        m = const_str(c.args[1])
    for k in c.keywords:
        if k.arg == "mode":
            m = const_str(k.value)
    if m is None and len(c.args) < 2 and not any(k.arg == "mode" for k in c.keywords):
        return "r"
    return m


def rule_exclusive_acquire(ctx, rule):
    """acquire() returns True only on the normal continuation of an exclusive-create call."""
    p = ctx.program
    n = 0
    for cls in lock_classes(p):
        f = cls.methods.get("acquire")
        if f is None:
            continue
        n += 1
        defs = single_defs(f.node)
        g = CFG(f.node, name=f.qualname)
        excl = []
        for node in g.stmt_nodes():
            for c in node.calls():
                d = dotted(c.func) or ""
                if d == "os.symlink" or d == "os.link" or d == "os.mkdir":
                    excl.append(node)
                elif d == "os.open" and len(c.args) >= 2:
                    names = bitor_names(c.args[1], defs)
                    if {"O_CREAT", "O_EXCL"} <= names:
                        excl.append(node)
        rets = [nd for nd in g.stmt_nodes() if nd.kind == "stmt" and isinstance(nd.ast, ast.Return)]
        ctx.require(rets, f"{rule}: {cls.name}.acquire has no return statement")
        for r in rets:
            v = r.ast.value
            is_true = isinstance(v, ast.Constant) and v.value is True
            if not is_true:
                # returning anything else than True must not signal success
                falsy = v is None or (isinstance(v, ast.Constant) and not v.value)
                ctx.check(falsy, rule, f.short, "acquire-return-value",
                          message=f"{cls.name}.acquire returns `{norm(v)}` - not provably tied to an "
                                  f"exclusive create", how="returns a falsy constant", where=where(f, r.ast))
                continue
            # every path to `return True` uses the normal out-edge of an exclusive-create node
            edges = [(x, k, m) for x in excl for k, m in x.succ if k == "n"]
            ok = bool(excl) and g.dominated_by(r, [], edges)
            ctx.check(ok, rule, f.short, "return-True-after-exclusive-create",
                      message=f"{cls.name}.acquire can return True without the exclusive create "
                              f"(os.symlink / os.open with O_CREAT|O_EXCL) having succeeded",
                      how="normal continuation of the exclusive-create call dominates `return True`",
                      witness=g.witness([r], edges=edges), where=where(f, r.ast))
        # falling off the end (implicit None) must be impossible or falsy: acquire's callers
        # ignore the value, so only explicit True matters.
    ctx.floor(rule, "lock_classes", n, 2, exact=True)


def rule_release(ctx, rule):
    """release(): rename to a unique name then unlink it; OSError -> RuntimeError;
    get_lock_file releases in finally; acquire releases and re-raises on BaseException."""
    p = ctx.program
    n = 0
    for cls in lock_classes(p):
        f = cls.methods.get("release")
        if f is None:
            continue
        n += 1
        g = CFG(f.node, name=f.qualname)
        defs = single_defs(f.node)
        ren = [nd for nd in g.stmt_nodes() for c in nd.calls() if _is_call_to(c, "os.rename")]
        unl = [nd for nd in g.stmt_nodes() for c in nd.calls() if _is_call_to(c, "os.unlink") and nd.copy_kind == "normal"]
        ok = bool(ren) and bool(unl)
        wit = None
        if ok:
            # normal exit only through rename then unlink
            if g.exit in g.reachable([g.entry], avoid_nodes=ren, edge_ok=NORMAL):
                ok = False
                wit = g.witness([g.exit], guards=ren, edge_ok=NORMAL)
            for r in ren:
                if g.exit in g.reachable([r], avoid_nodes=[u for u in unl if u is not r], edge_ok=NORMAL) and r not in unl:
                    ok = False
                    wit = g.witness([g.exit], guards=unl, src=r, edge_ok=NORMAL)
        ctx.check(ok, rule, f.short, "rename-then-unlink",
                  message=f"{cls.name}.release can return normally without os.rename followed by os.unlink",
                  how="ordered must-pass-through rename -> unlink on every normal path", witness=wit)
        # release must work for a lock file created by somebody else (grace-period take-over calls
        # self.release() on a foreign lock): nothing may raise or return before the rename attempt
        early = g.reachable([g.entry], avoid_nodes=ren, edge_ok=NORMAL)
        early_exit = [x for x in early if x is g.exit or (x.kind == "stmt" and isinstance(x.ast, (ast.Raise, ast.Return)))]
        ctx.check(not early_exit, rule, f.short, "release-unconditional",
                  message=f"{cls.name}.release can raise/return before attempting os.rename (e.g. an ownership test): the stale-lock "
                          f"take-over in acquire(), which releases a lock file left behind by a dead process, can never succeed",
                  how="os.rename is attempted on every path from entry", witness=g.witness(early_exit, guards=ren, edge_ok=NORMAL) if early_exit else None)
        # the rename target is a fresh unique name and the same name is unlinked
        fresh = False
        same = False
        for nd in ren:
            for c in nd.calls():
                if _is_call_to(c, "os.rename") and len(c.args) == 2:
                    tgt = resolve(c.args[1], defs)
                    fresh = any(isinstance(x, ast.Call) and (dotted(x.func) or "") in ("uuid.uuid4", "uuid.uuid1")
                                for x in ast.walk(tgt))
                    src_is_lock = norm(c.args[0]) == "self._lock_file"
                    fresh = fresh and src_is_lock
                    for u in unl:
                        for c2 in u.calls():
                            if _is_call_to(c2, "os.unlink") and c2.args and norm(c2.args[0]) == norm(c.args[1]):
                                same = True
        ctx.check(fresh and same, rule, f.short, "unique-rename-target",
                  message=f"{cls.name}.release does not rename self._lock_file to a fresh uuid-named "
                          f"file and unlink that same name",
                  how="rename(self._lock_file, <uuid name>); unlink(<same name>)")
        # OSError is converted to RuntimeError
        conv = False
        for h in [x for x in own_nodes(f.node) if isinstance(x, ast.ExceptHandler)]:
            if "OSError" in handler_names(h.type):
                for s in h.body:
                    if isinstance(s, ast.Raise) and s.exc is not None and (dotted(s.exc.func) if isinstance(s.exc, ast.Call) else dotted(s.exc)) == "RuntimeError":
                        conv = True
        ctx.check(conv, rule, f.short, "oserror-to-runtimeerror",
                  message=f"{cls.name}.release does not convert OSError into RuntimeError (acquire's "
                          f"takeover loop relies on it)", how="except OSError: raise RuntimeError")
    ctx.floor(rule, "release_impls", n, 2, exact=True)

    # get_lock_file: acquire, then release on all exits
    f = p.func(MOD + ".get_lock_file")
    ctx.check("contextmanager" in " ".join(f.decorators()), rule, f.short, "is-contextmanager",
              message="get_lock_file is not a @contextmanager generator", how="decorator present")
    g = CFG(f.node, name=f.qualname)
    acq = [nd for nd in g.stmt_nodes() for c in nd.calls() if isinstance(c.func, ast.Attribute) and c.func.attr == "acquire"]
    rel = [nd for nd in g.stmt_nodes() for c in nd.calls() if isinstance(c.func, ast.Attribute) and c.func.attr == "release"]
    yld = [nd for nd in g.stmt_nodes() if any(isinstance(x, ast.Yield) for x in nd.walk())]
    ctx.require(acq and yld, f"{rule}: get_lock_file lost its acquire()/yield")
    ok = True
    wit = None
    for a in acq:
        starts = [m for k, m in a.succ if k == "n"]
        reach = g.reachable(starts, avoid_nodes=rel)
        for ex in (g.exit, g.raise_exit):
            if ex in reach:
                ok = False
                wit = g.witness([ex], guards=rel, src=starts[0])
    ctx.check(ok and bool(rel), rule, f.short, "release-on-all-exits",
              message="get_lock_file can exit (normally or by exception in the with body) without "
                      "calling release()", how="every path from acquire() to any exit passes release()",
              witness=wit)
    # a failed acquire() holds nothing: release() (rename + unlink by path) after it would remove the lock of whoever holds it
    for a in acq:
        exc = [m for k, m in a.succ if k == "e"]
        r = g.reachable(exc) if exc else set()
        hit = [x for x in rel if x in r]
        ctx.check(not hit, rule, f.short, "no-release-after-failed-acquire",
                  message="get_lock_file calls release() when acquire() itself raised (acquire moved inside the try?): release removes <file>.lock by path, "
                          "so a worker whose lock creation failed (ENOSPC, EMFILE, ...) deletes the lock of the worker that holds it - a third worker then "
                          "acquires and writes into the middle of the holder's record",
                  how="no release() reachable from the exceptional edge of the acquire() statement", where=where(f, a.ast))
    # the yield is dominated by acquire
    for y in yld:
        ctx.check(g.dominated_by(y, acq), rule, f.short, "acquire-before-yield",
                  message="get_lock_file yields without having acquired the lock",
                  how="acquire() dominates yield")

    # acquire: BaseException arm releases and re-raises (sibling agreement of both classes)
    rows = {}
    for cls in lock_classes(p):
        f = cls.methods.get("acquire")
        if f is None:
            continue
        facts = acquire_facts(f)
        rows[cls.name] = facts
        ctx.check(facts["baseexception_releases_and_reraises"], rule, f.short, "release-on-baseexception",
                  message=f"{cls.name}.acquire does not release the lock and re-raise on BaseException",
                  how="except BaseException: self.release(); raise")
    names = sorted(rows)
    if len(names) >= 2:
        ref = rows[names[0]]
        for other in names[1:]:
            diff = {k: (ref[k], rows[other][k]) for k in ref if ref[k] != rows[other][k]}
            ctx.check(not diff, rule, f"{p.module(MOD).relpath}::{other}.acquire", "sibling-agreement",
                      message=f"lock classes {names[0]} and {other} disagree on takeover handling: {diff}",
                      how="same grace-period comparison, handler classes and release-retry structure")
    ctx.note("lock_sibling_rows", rows)


def acquire_facts(f) -> dict:
    """Comparable facts of an acquire() implementation (A9 sibling table row)."""
    facts = {"grace_compare": None, "handlers": [], "release_retry": False,
             "baseexception_releases_and_reraises": False, "eexist_test": False,
             "reraises_other_oserror": False}
    for n in own_nodes(f.node):
        if isinstance(n, ast.Compare) and "grace_period" in norm(n) and "monotonic" in norm(n):
            a = cmp_atom(n)
            if a:
                facts["grace_compare"] = f"{a[0]} {a[1].__name__} {a[2]}"
        if isinstance(n, ast.Compare) and "EEXIST" in norm(n):
            facts["eexist_test"] = True
        if isinstance(n, ast.ExceptHandler):
            facts["handlers"].append(",".join(handler_names(n.type)))
            hn = handler_names(n.type)
            if "BaseException" in hn:
                calls_release = any(isinstance(x, ast.Call) and self_attr(x.func) == "release" for s in n.body for x in ast.walk(s))
                reraise = any(isinstance(s, ast.Raise) and s.exc is None for s in n.body)
                facts["baseexception_releases_and_reraises"] = calls_release and reraise
            if "OSError" in hn and n.name:
                for s in ast.walk(n):
                    if isinstance(s, ast.Raise) and s.exc is not None and norm(s.exc) == n.name:
                        facts["reraises_other_oserror"] = True
        if isinstance(n, ast.Try):
            body_calls_release = any(isinstance(x, ast.Call) and self_attr(x.func) == "release" for s in n.body for x in ast.walk(s))
            catches_rt = any("RuntimeError" in handler_names(h.type) for h in n.handlers)
            if body_calls_release and catches_rt:
                facts["release_retry"] = True
    facts["handlers"] = sorted(facts["handlers"])
    return facts


def kwarg_of(call: ast.Call, name: str):
    for k in call.keywords:
        if k.arg == name:
            return k.value
    return None


def rule_takeover(ctx, rule):
    """Forced take-over of a stale lock in acquire():

    (a) a waiter removes somebody's lock only after *it* has watched the same lock, unchanged, for a
        full grace period measured on its own monotonic clock: the removal is dominated by the stale
        edge of `time.monotonic() - T > self.grace_period`, T is only ever assigned time.monotonic(),
        T is restarted whenever the observed st_mtime of the lock differs from the remembered one,
        and the lock is stat-ed again in every iteration before the test;
    (b) the removal is bound to the lock that was judged stale (identity re-validated after the
        rename, or the observed identity handed to the removal routine) - path-based removal lets a
        second waiter delete the fresh lock of the first one.
    """
    p = ctx.program
    n_cls = 0
    for cls in lock_classes(p):
        f = cls.methods.get("acquire")
        if f is None:
            continue
        n_cls += 1
        g = CFG(f.node, name=f.qualname)
        defs = single_defs(f.node)
        pm = parent_map(f.node)
        # removal calls on the take-over path: self.release() (or unlink/rename of the lock file)
        # lexically inside an `except OSError` handler
        takeover = []
        for n in g.stmt_nodes():
            for c in n.calls():
                is_rm = self_attr(c.func) == "release" or (dotted(c.func) in ("os.unlink", "os.remove", "os.rename") and c.args
                                                            and "_lock_file" in norm(c.args[0]))
                if not is_rm:
                    continue
                anc = [a for a in ancestors(c, pm) if isinstance(a, ast.ExceptHandler)]
                if anc and "OSError" in handler_names(anc[0].type) and "BaseException" not in handler_names(anc[0].type):
                    takeover.append((n, c))
        if not takeover:
            # a lock class without forced take-over has nothing to show here
            ctx.ok(rule, f.short, "no-forced-takeover", how="acquire never removes an existing lock", nontrivial=False)
            continue

        def stale_atom(e):
            a = cmp_atom(e)
            if a is None:
                return None
            l, op, r = a
            if r == "self.grace_period" and l.startswith("time.monotonic() - "):
                return True if op in (ast.Gt, ast.GtE) else (False if op in (ast.Lt, ast.LtE) else None)
            if l == "self.grace_period" and r.startswith("time.monotonic() - "):
                return True if op in (ast.Lt, ast.LtE) else (False if op in (ast.Gt, ast.GtE) else None)
            return None
        stale_edges, tvars, stale_tests = [], set(), []
        for t in g.stmt_nodes():
            if t.kind != "test":
                continue
            # resolve named intermediates (`lock_age = time.monotonic() - t0`, `is_stale = lock_age > grace`) but keep the
            # observation-start variable itself, whose definition is the bare clock reading
            e = resolve(t.expr, {k: v for k, v in defs.items() if norm(v) != "time.monotonic()"}, depth=3)
            pol = edges_where(e, stale_atom)
            for k, m in t.succ:
                if pol.get(k) is True:
                    stale_edges.append((t, k, m))
                    stale_tests.append(t)
            for x in ast.walk(e):
                a = cmp_atom(x) if isinstance(x, ast.Compare) else None
                if a:
                    for side in (a[0], a[2]):
                        if side.startswith("time.monotonic() - "):
                            tvars.add(side[len("time.monotonic() - "):])
        for n, c in takeover:
            ok = bool(stale_edges) and g.dominated_by(n, [], stale_edges)
            ctx.check(ok, rule, f.short, "takeover-after-observed-grace-period",
                      message=f"{cls.name}.acquire can remove an existing lock without having found `time.monotonic() - <start of observation> > self.grace_period`: "
                              f"staleness judged from anything else (file age on the wall clock, mtime of the link target) lets a waiter delete a lock that was "
                              f"taken a moment ago - two workers then hold the lock",
                      how="removal dominated by the stale edge of the monotonic elapsed-time test", where=where(f, c))
        if not stale_edges:
            continue
        ctx.check(len(tvars) == 1 and all(v.isidentifier() for v in tvars), rule, f.short, "observation-start-is-a-local",
                  message=f"elapsed time is measured from {sorted(tvars)}", how="one local holds the start of the observation")
        if len(tvars) != 1:
            continue
        T = next(iter(tvars))
        asg = [n for n in g.stmt_nodes() if n.kind == "stmt" and isinstance(n.ast, ast.Assign) and any(isinstance(t, ast.Name) and t.id == T for t in n.ast.targets)]
        ctx.check(bool(asg) and all(norm(n.ast.value) == "time.monotonic()" for n in asg), rule, f.short, "observation-start-from-monotonic-clock",
                  message=f"`{T}` is assigned {sorted({norm(n.ast.value) for n in asg})}: the observation must start at a reading of this process's monotonic clock",
                  how="every assignment is time.monotonic()")
        # restart of the observation when the lock changed
        def is_mtime(e):
            r = resolve(e, defs)
            return any(isinstance(x, ast.Attribute) and x.attr in ("st_mtime", "st_mtime_ns", "st_ino", "st_ctime", "st_ctime_ns") and isinstance(x.value, ast.Call)
                       and dotted(x.value.func) in ("os.stat", "os.lstat") and x.value.args and "_lock_file" in norm(x.value.args[0]) for x in ast.walk(r))
        ne_edges, remembered = [], set()
        for t in g.stmt_nodes():
            if t.kind != "test":
                continue
            def ne_atom(e):
                a = cmp_atom(e)
                if a is None or not isinstance(e, ast.Compare):
                    return None
                l, r = e.left, e.comparators[0]
                if a[1] in (ast.NotEq, ast.Eq) and (is_mtime(l) != is_mtime(r)):
                    other = r if is_mtime(l) else l
                    if isinstance(other, ast.Name):
                        remembered.add(other.id)
                        return a[1] is ast.NotEq
                return None
            pol = edges_where(t.expr, ne_atom)
            for k, m in t.succ:
                if pol.get(k) is True:
                    ne_edges.append((t, k, m))
        heads = [t for t in g.stmt_nodes() if t.kind == "test" and isinstance(t.ast, ast.While)]
        in_loop = [n for n in asg if heads and any(n in g.reachable([m for k, m in h.succ if k == "t"]) for h in heads)]
        ok = bool(ne_edges) and bool(in_loop) and all(g.dominated_by(n, [], ne_edges) for n in in_loop)
        ctx.check(ok, rule, f.short, "observation-restarts-when-lock-changes",
                  message=f"`{T}` is not restarted exactly when the lock's st_mtime differs from the remembered one: a lock that was released and re-taken by "
                          f"others while this worker waited would be counted as one stale lock", how="in-loop assignment dominated by the `mtime != remembered` edge")
        upd = [n for n in g.stmt_nodes() if n.kind == "stmt" and isinstance(n.ast, ast.Assign) and any(isinstance(t, ast.Name) and t.id in remembered for t in n.ast.targets)
               and is_mtime(n.ast.value)]
        ok = bool(upd) and all(g.dominated_by(n, [], ne_edges) for n in upd)
        ctx.check(ok, rule, f.short, "remembered-mtime-updated-with-restart",
                  message="the remembered st_mtime is not updated together with the restart of the observation", how="`remembered = current` under the same edge")
        # the remembered identity is carried from one iteration to the next: an assignment inside the loop that is not the
        # update under the `!=` edge (e.g. `remembered = None` moved into the EEXIST arm) makes every retry look like a
        # changed lock, the observation restarts each time and a dead holder's lock is never taken over
        rem_in_loop = [n for n in g.stmt_nodes() if n.kind == "stmt" and isinstance(n.ast, (ast.Assign, ast.AnnAssign, ast.AugAssign))
                       and any(isinstance(x, ast.Name) and x.id in remembered and isinstance(x.ctx, ast.Store) for x in ast.walk(n.ast))
                       and heads and any(n in g.reachable([m for k, m in h.succ if k == "t"]) for h in heads)]
        resets = [n for n in rem_in_loop if not g.dominated_by(n, [], ne_edges)]
        ctx.check(not resets, rule, f.short, "remembered-mtime-carried-across-iterations",
                  message=f"{cls.name}.acquire re-initialises the remembered st_mtime inside the retry loop outside the `changed` edge "
                          f"({[norm(n.ast)[:40] for n in resets]}): every retry then sees a changed lock and restarts the grace timer, so the lock of a holder "
                          f"that died is never taken over and every survivor blocks forever",
                  how="every in-loop store to the remembered identity is dominated by the `mtime != remembered` edge",
                  where=where(f, resets[0].ast) if resets else None)
        # what is watched is the lock itself: a symlink lock must not be stat-ed through the link (os.stat follows it to
        # the journal file, whose mtime does not change when the lock changes hands - a second waiter's timer would keep
        # running across a take-over and it would remove the first waiter's fresh lock)
        creates_symlink = any(dotted(c.func) == "os.symlink" for n in g.stmt_nodes() for c in n.calls())
        if creates_symlink:
            for n in g.stmt_nodes():
                for c in n.calls():
                    if dotted(c.func) in ("os.stat", "os.lstat") and c.args and "_lock_file" in norm(c.args[0]):
                        fs = kwarg_of(c, "follow_symlinks")
                        own = dotted(c.func) == "os.lstat" or (isinstance(fs, ast.Constant) and fs.value is False)
                        ctx.check(own, rule, f.short, "observes-the-lock-not-its-target",
                                  message=f"{cls.name}.acquire reads the age of its symlink lock with `{norm(c)[:50]}`, which follows the link to the journal file: the "
                                          f"observed mtime is the journal's, so a lock that was taken over by another waiter looks unchanged and is removed again at once "
                                          f"(two holders after any stale-lock take-over with two waiters)",
                                  how="os.lstat(...) / follow_symlinks=False on the lock path", where=where(f, c))
        # the lock is looked at again in every iteration before staleness is judged
        stat_nodes = [n for n in g.stmt_nodes() if any(dotted(c.func) in ("os.stat", "os.lstat") and c.args and "_lock_file" in norm(c.args[0]) for c in n.calls())]
        for h in heads:
            body0 = [m for k, m in h.succ if k == "t"]
            r = g.reachable(body0, avoid_nodes=[h] + stat_nodes)
            ctx.check(bool(stat_nodes) and not any(t in r for t in stale_tests), rule, f.short, "lock-restatted-every-iteration",
                      message="staleness can be judged in an iteration that did not stat the lock again", how="stat of the lock file dominates the elapsed-time test within an iteration")
        # (b) identity binding of the removal
        for n, c in takeover:
            bound = False
            if self_attr(c.func) == "release":
                bound = bool(c.args or c.keywords)  # observed identity handed over
                callee = p.lookup_method(cls, "release")
                if callee is not None and not bound:
                    # or the removal routine re-validates what it renamed before unlinking it
                    for x in own_nodes(callee.node):
                        if isinstance(x, ast.Compare) and any(isinstance(y, ast.Attribute) and y.attr.startswith("st_") for y in ast.walk(x)):
                            bound = True
            else:
                nxt = g.reachable([m for k, m in n.succ if NORMAL(n, k, m)])
                bound = any(isinstance(x, ast.Compare) and any(isinstance(y, ast.Attribute) and y.attr.startswith("st_") for y in ast.walk(x))
                            for m in nxt for x in m.walk())
            ctx.check(bound, rule, f.short, "takeover-removes-by-path",
                      message=f"{cls.name}.acquire removes the lock it judged stale by path ({norm(c)[:40]}): between the staleness test and the rename another waiter can "
                              f"have removed the stale lock and created its own, which is then deleted - both waiters go on to acquire (two holders). "
                              f"Needs: a dead holder, two waiters past the grace period, the second preempted between its test and its rename",
                      how="the removal routine receives / re-validates the identity (st_mtime, st_ino) of the lock that was observed", where=where(f, c))
    ctx.floor(rule, "lock_classes", n_cls, 2, exact=True)


def _protecting_handlers(node, pm):
    """Handlers of every try statement whose *body* contains `node` (innermost first), within the enclosing function."""
    out, child = [], node
    while id(child) in pm:
        par = pm[id(child)]
        if isinstance(par, (ast.FunctionDef, ast.AsyncFunctionDef, ast.Lambda)):
            break
        if isinstance(par, ast.Try) and any(child is b for b in par.body):
            out.extend(par.handlers)
        child = par
    return out


def rule_takeover_lost_race(ctx, rule):
    """A waiter that loses the race for a stale lock keeps waiting.

    After the grace period every waiter tries to remove the dead holder's lock; only one rename can
    succeed. What the removal routine raises in that case (derived from its own `raise` statements,
    and OSError for a bare os.rename/os.unlink) must be caught around the take-over call and must
    not leave acquire(): a survivor's storage call would otherwise fail although nothing is wrong.
    """
    p = ctx.program
    n_sites = 0
    for cls in lock_classes(p):
        f = cls.methods.get("acquire")
        if f is None:
            continue
        pm = parent_map(f.node)
        rel = p.lookup_method(cls, "release")
        raised = set()
        if rel is not None:
            for x in own_nodes(rel.node):
                if isinstance(x, ast.Raise) and x.exc is not None:
                    e = x.exc.func if isinstance(x.exc, ast.Call) else x.exc
                    if dotted(e):
                        raised.add(dotted(e).split(".")[-1])
        for c in own_nodes(f.node):
            if not isinstance(c, ast.Call):
                continue
            if self_attr(c.func) == "release":
                need = set(raised)
            elif dotted(c.func) in ("os.unlink", "os.remove", "os.rename") and c.args and "_lock_file" in norm(c.args[0]):
                need = {"OSError"}
            else:
                continue
            anc = [a for a in ancestors(c, pm) if isinstance(a, ast.ExceptHandler)]
            if not (anc and "OSError" in handler_names(anc[0].type) and "BaseException" not in handler_names(anc[0].type)):
                continue  # the clean-up call of the `except BaseException` arm re-raises by design
            n_sites += 1
            hs = _protecting_handlers(c, pm)
            for E in sorted(need):
                fam = {E, "Exception", "BaseException"} | ({"OSError"} if E in ("FileNotFoundError", "FileExistsError", "PermissionError") else set())
                h = next((h for h in hs if h.type is None or fam & set(handler_names(h.type))), None)
                swallowed = h is not None and not any(isinstance(x, ast.Raise) for s in h.body for x in ast.walk(s))
                ctx.check(swallowed, rule, f.short, f"lost-takeover-race-is-not-an-error:{E}",
                          message=f"{cls.name}.acquire: `{norm(c)[:40]}` on the take-over path can raise {E} (another waiter removed the stale lock first) and "
                                  f"nothing around the call catches it: with two survivors blocked on a dead worker's lock, the loser's storage call fails with {E} "
                                  f"and its write is never recorded",
                          how=f"the call sits in a try body with a non-re-raising `except {E}` arm inside the retry loop", where=where(f, c))
    ctx.floor(rule, "takeover_removal_sites", n_sites, 2)


def rule_release_only_own_lock(ctx, rule):
    """acquire(): outside the grace-period take-over, release() - which removes <file>.lock by path - is reached only after THIS call's
    exclusive create has completed normally. A clean-up arm that is also entered when the create did not happen (an asynchronous exception -
    KeyboardInterrupt, SystemExit - arriving in the try body of a polling round while another worker holds the lock) removes the holder's lock:
    the dying waiter breaks mutual exclusion for the survivors, and the holder's own release then fails with RuntimeError."""
    p = ctx.program
    n_cls = 0
    for cls in lock_classes(p):
        f = cls.methods.get("acquire")
        if f is None:
            continue
        n_cls += 1
        g = CFG(f.node, name=f.qualname)
        pm = parent_map(f.node)
        creates = [n for n in g.stmt_nodes() for c in n.calls() if dotted(c.func) in ("os.symlink", "os.open", "os.link", "os.mkdir")]
        ctx.require(creates, f"{rule}: exclusive create not found in {cls.name}.acquire")
        normal_out = [(n, k, m) for n in creates for k, m in n.succ if k == "n"]
        for n in g.stmt_nodes():
            for c in n.calls():
                if self_attr(c.func) != "release":
                    continue
                anc = [a for a in ancestors(c, pm) if isinstance(a, ast.ExceptHandler)]
                if anc and "OSError" in handler_names(anc[0].type) and "BaseException" not in handler_names(anc[0].type):
                    continue  # the forced take-over of a stale lock (R07.6)
                ok = bool(normal_out) and g.dominated_by(n, [], normal_out)
                if not ok and normal_out:
                    # ownership flag: `created = False` ... create; `created = True` ... `if created: self.release()`
                    for a in ancestors(c, pm):
                        if isinstance(a, ast.If) and isinstance(a.test, ast.Name):
                            v = a.test.id
                            sets = [m for m in g.stmt_nodes() if m.kind == "stmt" and isinstance(m.ast, ast.Assign) and any(isinstance(t, ast.Name) and t.id == v for t in m.ast.targets)]
                            trues = [m for m in sets if isinstance(m.ast.value, ast.Constant) and m.ast.value.value is True]
                            others = [m for m in sets if m not in trues and not (isinstance(m.ast.value, ast.Constant) and m.ast.value.value is False)]
                            in_body = any(c is y for st_ in a.body for y in ast.walk(st_))
                            if in_body and trues and not others and all(g.dominated_by(m, [], normal_out) for m in trues):
                                ok = True
                ctx.check(ok, rule, f.short, "release-only-after-own-create",
                          message=f"{cls.name}.acquire calls self.release() in a clean-up arm that is also entered when this call has not created the lock: a waiter hit by "
                                  f"KeyboardInterrupt / SystemExit inside the try body of a polling round - while another worker holds the lock - removes that holder's "
                                  f"lock file. Mutual exclusion is lost for the survivors and the holder's own storage call fails with RuntimeError('did not possess lock') "
                                  f"although its record was written",
                          how="release() dominated by the normal continuation of the create call (flag set after the create, or try/else)", where=where(f, c))
    ctx.floor(rule, "lock_classes", n_cls, 2, exact=True)


def rule_append_starts_on_record_boundary(ctx, rule):
    """A writer that died in the middle of a write leaves a record without its newline.  The next append (lock held,
    so nobody else is writing) must not start its own record right behind those bytes: before the write, append_logs
    has to look at the end of the file (read the last byte / compare sizes) and terminate or remove the torn tail."""
    p = ctx.program
    f = p.func(BACKEND + ".append_logs")
    g = CFG(f.node, name=f.qualname)
    W = [n for n in g.stmt_nodes() for c in n.calls() if isinstance(c.func, ast.Attribute) and c.func.attr in ("write", "writelines")]
    ctx.require(W, f"{rule}: append_logs no longer writes")
    looks = []
    for n in g.stmt_nodes():
        for c in n.calls():
            d = dotted(c.func) or ""
            if (isinstance(c.func, ast.Attribute) and c.func.attr in ("read", "readline", "readlines", "seek", "tell", "truncate", "peek")) \
                    or d in ("os.truncate", "os.ftruncate", "os.pread", "os.lseek") or (_is_call_to(c, "open") and _open_mode(c) in ("rb", "r", "r+b", "rb+")):
                looks.append(n)
    ok = bool(looks) and all(g.dominated_by(w, looks) for w in W)
    ctx.check(ok, rule, f.short, "append-inspects-the-tail",
              message="JournalFileBackend.append_logs writes its records without ever looking at the end of the file: after a writer died in the middle of a record "
                      "(torn last line, no newline) the next append is glued onto the torn bytes - that call returns normally but its record can never be decoded, and once one "
                      "more record follows every reader, the writer included, raises JSONDecodeError for ever",
              how="a read / seek / truncate of the journal dominates the write inside the lock region", where=where(f, W[0].ast))


def rule_append_ordering(ctx, rule):
    """append_logs: write -> flush -> fsync in order before leaving the `with open` block; one
    write call per append, not in a loop."""
    p = ctx.program
    f = p.func(BACKEND + ".append_logs")
    g = CFG(f.node, name=f.qualname)
    pm = parent_map(f.node)
    opens = [n for n in own_nodes(f.node) if isinstance(n, ast.With)
             and any(isinstance(i.context_expr, ast.Call) and _is_call_to(i.context_expr, "open") for i in n.items)]
    ctx.require(len(opens) >= 1, f"{rule}: append_logs no longer opens the journal file in a with block")
    for w in opens:
        item = [i for i in w.items if isinstance(i.context_expr, ast.Call) and _is_call_to(i.context_expr, "open")][0]
        fv = item.optional_vars.id if isinstance(item.optional_vars, ast.Name) else None
        ctx.require(fv is not None, f"{rule}: the opened journal file is not bound to a name")
        W = [n for n in g.stmt_nodes() for c in n.calls() if isinstance(c.func, ast.Attribute) and c.func.attr == "write" and norm(c.func.value) == fv]
        F = [n for n in g.stmt_nodes() for c in n.calls() if isinstance(c.func, ast.Attribute) and c.func.attr == "flush" and norm(c.func.value) == fv]
        S = [n for n in g.stmt_nodes() for c in n.calls() if _is_call_to(c, "os.fsync") and c.args and fv in norm(c.args[0])]
        exits = [n for n in g.nodes if n.kind == "with_exit" and n.ast is w and n.copy_kind in ("normal", "return", "break", "continue")]
        wcalls = [c for n in W for c in n.calls() if isinstance(c.func, ast.Attribute) and c.func.attr == "write"]
        ctx.check(len(wcalls) == 1, rule, f.short, "single-write-call",
                  message=f"append_logs issues {len(wcalls)} write calls per append (a batch must be one write)",
                  how="exactly one f.write call")
        in_loop = any(isinstance(a, (ast.For, ast.While)) for c in wcalls for a in ancestors(c, pm))
        ctx.check(not in_loop, rule, f.short, "write-not-in-loop",
                  message="append_logs writes records in a loop (records of one batch could interleave "
                          "with a crash in between)", how="write call not inside a loop")
        ok = bool(W) and bool(F) and bool(S)
        wit = None
        if ok:
            for wn in W:
                r = g.reachable([wn], avoid_nodes=F, edge_ok=NORMAL)
                hit = [x for x in exits if x in r]
                if hit:
                    ok = False
                    wit = "no flush: " + (g.witness(hit, guards=F, src=wn, edge_ok=NORMAL) or "")
            for fn in F:
                r = g.reachable([fn], avoid_nodes=S, edge_ok=NORMAL)
                hit = [x for x in exits if x in r]
                if hit:
                    ok = False
                    wit = "no fsync after flush: " + (g.witness(hit, guards=S, src=fn, edge_ok=NORMAL) or "")
            # fsync must not precede the flush it relies on: S dominated by F, F by W
            for sn in S:
                if not g.dominated_by(sn, F):
                    ok = False
                    wit = "fsync not dominated by flush"
            for fn in F:
                if not g.dominated_by(fn, W):
                    ok = False
                    wit = "flush not dominated by write"
        ctx.check(ok, rule, f.short, "write-flush-fsync-order",
                  message="append_logs can leave the `with open` block after f.write without f.flush() "
                          "followed by os.fsync(f.fileno())", witness=wit,
                  how="ordered must-pass-through write -> flush -> fsync before the block exit")
        # the payload ends with a newline terminator: what_to_write = ... + "\n"
        defs = single_defs(f.node)
        payload_ok = False
        for c in wcalls:
            if c.args:
                e = resolve(c.args[0], defs)
                for x in ast.walk(e):
                    if isinstance(x, ast.BinOp) and isinstance(x.op, ast.Add) and const_str(x.right) == "\n":
                        payload_ok = True
        ctx.check(payload_ok, rule, f.short, "record-terminator",
                  message="the appended payload is not terminated by a trailing newline (the reader's "
                          "completeness test relies on it)", how="payload = <joined records> + '\\n'")
        # every newline written terminates a record: either each record carries its own terminator (`"".join(rec + "\n" ...)`), or the
        # separator form (`"\n".join(recs) + "\n"`) is only reached with a non-empty batch - an empty batch must not write a blank line,
        # which is newline-terminated but not a record and makes every later reader raise
        prm = f.params()[1] if len(f.params()) > 1 else "logs"

        def nonempty(e):
            a = cmp_atom(e)
            if isinstance(e, ast.Name) and e.id == prm:
                return True
            if a and a[0] == f"len({prm})" and a[2] == "0":
                return True if a[1] in (ast.Gt, ast.NotEq) else (False if a[1] in (ast.Eq, ast.LtE) else None)
            return None
        ne_edges = [(t, k, m) for t in g.stmt_nodes() if t.kind == "test" for k, m in t.succ if edges_where(t.expr, nonempty).get(k) is True]
        for c in wcalls:
            if not c.args:
                continue
            e = resolve(c.args[0], defs)
            joins = [x for x in ast.walk(e) if isinstance(x, ast.Call) and isinstance(x.func, ast.Attribute) and x.func.attr == "join" and const_str(x.func.value) is not None]
            per_record = False
            for j in joins:
                if const_str(j.func.value) == "" and j.args:
                    elt = j.args[0].elt if isinstance(j.args[0], (ast.ListComp, ast.GeneratorExp)) else None
                    if isinstance(elt, ast.BinOp) and isinstance(elt.op, ast.Add) and const_str(elt.right) == "\n":
                        per_record = True
            wn = [n for n in W if any(cc is c for cc in n.calls())]
            guarded = bool(ne_edges) and all(g.dominated_by(n, [], ne_edges) for n in wn)
            ctx.check(per_record or guarded, rule, f.short, "empty-batch-writes-nothing",
                      message="append_logs builds its payload as `sep.join(records) + newline` without excluding an empty batch: append_logs([]) writes a bare "
                              "newline - a complete line that is not a record - and as soon as a real record follows, every read_logs that passes over it raises "
                              "JSONDecodeError (the Redis backend treats an empty batch as a no-op)",
                      how="per-record terminator (`''.join(rec + '\\n' for rec in logs)`) or a non-empty test dominating the write", where=where(f, c))


def rule_append_only(ctx, rule, program=None, module=MOD, fixture=False):
    """Every open() in the journal file module uses mode 'ab' or 'rb'; no truncate/replace/
    seek-in-writer."""
    p = program or ctx.program
    m = p.module(module)
    bad = []
    n_open = 0
    for f in p.iter_funcs((module,)):
        for c in [x for x in own_nodes(f.node) if isinstance(x, ast.Call)]:
            d = dotted(c.func) or ""
            last = d.split(".")[-1]
            if d == "open" or d == "io.open" or d.endswith(".open") and d != "os.open":
                n_open += 1
                mode = _open_mode(c)
                if mode not in ("ab", "rb"):
                    bad.append((f, c, f"open mode {mode!r}"))
            elif d in ("os.replace", "os.truncate", "os.ftruncate", "shutil.move", "shutil.copyfile"):
                bad.append((f, c, d))
            elif last == "truncate":
                bad.append((f, c, "truncate"))
            elif d == "os.remove" or (d == "os.unlink" and c.args and "_file_path" in norm(c.args[0])):
                bad.append((f, c, d + " of the journal file"))
    if fixture:
        return bad
    for f, c, what in bad:
        ctx.fail(rule, f.short, "append-only:" + what,
                 f"{f.name}: {what} - the journal file must only ever be opened 'ab' or 'rb' and "
                 f"never truncated/replaced", where=where(f, c))
    if not bad:
        ctx.ok(rule, m.relpath, "append-only", how=f"{n_open} open() sites all 'ab'/'rb'; no truncate/replace")
    ctx.floor(rule, "open_sites", n_open, 3)
    # seek only in functions that never write
    for f in p.iter_funcs((module,)):
        calls = [x for x in own_nodes(f.node) if isinstance(x, ast.Call) and isinstance(x.func, ast.Attribute)]
        if any(c.func.attr == "seek" for c in calls):
            ctx.check(not any(c.func.attr in ("write", "writelines") for c in calls), rule, f.short, "seek-in-writer",
                      message=f"{f.name} seeks and writes the journal file", how="seek only in the reader")


FIXTURE_APPEND_ONLY = '''
import os
class JournalFileBackend:
    def __init__(self, p):
        self._file_path = p
    def append_logs(self, logs):
        with open(self._file_path, "wb") as f:
            f.write(b"x")
    def compact(self):
        os.replace(self._file_path + ".tmp", self._file_path)
'''


def fixture_append_only(ctx, rule):
    prog = Program.from_sources({"fx.jfile": FIXTURE_APPEND_ONLY})
    bad = rule_append_only(ctx, rule, program=prog, module="fx.jfile", fixture=True)
    ctx.require(len(bad) == 2, f"{rule}: positive fixture not flagged (rule is blind): {len(bad)}")
    ctx.count(rule, "fixture_flagged", len(bad))


def _loop_scope(g: CFG, head):
    """Start nodes of one iteration of the loop headed by `head`."""
    return [m for k, m in head.succ if k == "loop"]


def rule_reader_guards(ctx, rule_accept, rule_offsets):
    """read_logs: a record is accepted only if newline-terminated, inside the size snapshot and
    with no pending decode error; offset-cache bookkeeping is paired with error marking."""
    p = ctx.program
    f = p.func(BACKEND + ".read_logs")
    g = CFG(f.node, name=f.qualname)
    defs = single_defs(f.node)
    # the returned list
    rets = [n.ast.value for n in g.stmt_nodes() if n.kind == "stmt" and isinstance(n.ast, ast.Return) and n.ast.value is not None]
    ctx.require(rets and all(isinstance(r, ast.Name) for r in rets), f"{rule_accept}: read_logs does not return a named list")
    out = rets[0].id
    # the for loop over the file
    heads = [n for n in g.stmt_nodes() if n.kind == "iter"]
    ctx.require(len(heads) == 1, f"{rule_accept}: expected exactly one loop in read_logs, found {len(heads)}")
    head = heads[0]
    loop: ast.For = head.ast
    # loop variable holding the raw line
    tnames = [x.id for x in ast.walk(loop.target) if isinstance(x, ast.Name)]
    line = tnames[-1]
    iter_txt = norm(loop.iter)
    ctx.require("enumerate" in iter_txt or len(tnames) == 1, f"{rule_accept}: unrecognised loop header `{iter_txt}`")
    body0 = _loop_scope(g, head)
    A = [n for n in g.stmt_nodes() for c in n.calls()
         if isinstance(c.func, ast.Attribute) and c.func.attr in ("append", "extend", "insert") and norm(c.func.value) == out]
    ctx.require(A, f"{rule_accept}: no append to the returned list in read_logs")
    for a in A:
        ctx.check(all(x in g.reachable(body0, avoid_nodes=[head]) for x in [a]), rule_accept, f.short, "append-inside-loop",
                  message="records are appended outside the per-line loop", how="append node inside loop body")

    def guard(desc, detail, atom, must_hold: bool):
        """Every path from the start of an iteration to an append uses an edge on which
        atom == must_hold."""
        tests = [n for n in g.stmt_nodes() if n.kind == "test"]
        acc_edges = []
        rej_found = False
        for t in tests:
            pol = edges_where(resolve(t.expr, defs), atom)
            for k, m in t.succ:
                if k in pol:
                    rej_found = True
                    if pol[k] == must_hold:
                        acc_edges.append((t, k, m))
        ok = rej_found and bool(acc_edges)
        wit = None
        if ok:
            # remove accepting edges: append must become unreachable within one iteration
            reach = g.reachable(body0, avoid_nodes=[head], avoid_edges=acc_edges)
            hit = [a for a in A if a in reach]
            if hit:
                ok = False
                wit = g.witness(hit, guards=[head], edges=acc_edges, src=body0[0])
        ctx.check(ok, rule_accept, f.short, detail, message=desc, witness=wit,
                  how="append unreachable within an iteration once the accepting branch edge is removed")

    def atom_endswith(e):
        if (isinstance(e, ast.Call) and isinstance(e.func, ast.Attribute) and e.func.attr == "endswith"
                and norm(e.func.value) == line and e.args):
            a0 = e.args[0]
            vals = [a0] if not isinstance(a0, ast.Tuple) else list(a0.elts)
            if all(isinstance(v, ast.Constant) and isinstance(v.value, bytes) and v.value.endswith(b"\n") for v in vals):
                return True
        return None

    guard("read_logs can return a record whose line is not newline-terminated (a partly written "
          "record)", "newline-terminated", atom_endswith, True)

    # size snapshot: remaining_log_size decremented by len(line), negative -> stop
    size_vars = []
    for n in own_nodes(f.node):
        if isinstance(n, ast.Assign) and isinstance(n.value, ast.Attribute) and n.value.attr == "st_size":
            size_vars += [t.id for t in n.targets if isinstance(t, ast.Name)]
    ctx.require(len(size_vars) == 1, f"{rule_accept}: file size snapshot variable not found")
    sz = size_vars[0]
    snap = [n for n in g.stmt_nodes() if n.kind == "stmt" and isinstance(n.ast, ast.Assign) and any(isinstance(t, ast.Name) and t.id == sz for t in n.ast.targets)]
    ctx.check(all(g.dominated_by(head, [s]) for s in snap) and bool(snap), rule_accept, f.short, "size-snapshot-before-loop",
              message="the file size snapshot is not taken before the read loop", how="stat() dominates the loop head")

    def atom_neg(e):
        a = cmp_atom(e)
        if a and a[0] == sz and a[2] == "0":
            if a[1] is ast.Lt:
                return True
            if a[1] is ast.GtE:
                return False
        return None

    guard("read_logs can return a record that extends beyond the file size observed at the start "
          "of the read (bytes of an append still in progress)", "within-size-snapshot", atom_neg, False)
    decs = [n for n in g.stmt_nodes() if n.kind == "stmt" and isinstance(n.ast, ast.AugAssign)
            and isinstance(n.ast.op, ast.Sub) and isinstance(n.ast.target, ast.Name) and n.ast.target.id == sz
            and n in g.reachable(body0, avoid_nodes=[head])]
    dec_ok = False
    for d in decs:
        v = norm(resolve(d.ast.value, single_defs_loop(loop)))
        if v == f"len({line})":
            dec_ok = True
    negtests = [t for t in g.stmt_nodes() if t.kind == "test" and edges_where(t.expr, atom_neg)]
    dom_ok = all(t not in g.reachable(body0, avoid_nodes=[head] + decs) for t in negtests)
    ctx.check(dec_ok and dom_ok and bool(negtests), rule_accept, f.short, "size-accounting",
              message="the remaining-size budget is not decremented by len(line) before it is tested",
              how="`remaining -= len(line)` precedes the `< 0` test in each iteration")

    # pending decode error
    none_init = {t.id for n in own_nodes(f.node) if isinstance(n, ast.Assign)
                 and isinstance(n.value, ast.Constant) and n.value.value is None
                 for t in n.targets if isinstance(t, ast.Name)}
    in_loop_set = {t.id for n in ast.walk(loop) if isinstance(n, ast.Assign)
                   and not (isinstance(n.value, ast.Constant) and n.value.value is None)
                   for t in n.targets if isinstance(t, ast.Name)}
    err_vars = none_init & in_loop_set
    ctx.require(len(err_vars) == 1, f"{rule_accept}: pending-decode-error variable not found ({sorted(err_vars)})")
    ev = next(iter(err_vars))

    def atom_err(e):
        a = cmp_atom(e)
        if a and a[0] == ev and a[2] == "None":
            if a[1] is ast.IsNot or a[1] is ast.NotEq:
                return True
            if a[1] is ast.Is or a[1] is ast.Eq:
                return False
        if isinstance(e, ast.Name) and e.id == ev:
            return True
        return None

    guard("read_logs can accept a later line after an undecodable/unterminated one (records would "
          "be silently skipped)", "no-accept-after-decode-error", atom_err, False)
    # on the error branch the pending error is raised
    raises = [n for n in g.stmt_nodes() if n.kind == "stmt" and isinstance(n.ast, ast.Raise) and isinstance(n.ast.exc, ast.Name) and n.ast.exc.id == ev]
    ctx.check(bool(raises), rule_accept, f.short, "pending-error-raised",
              message="a pending decode error is never raised", how="raise of the pending error exists")

    # a line without its newline is the tail of an append in progress (or of a writer that died): it is skipped, and only a FURTHER
    # line inside the size snapshot turns it into an error - raising at once makes every reader fail while (or after) a record is
    # being written
    bad_nl = [(t, k, m) for t in g.stmt_nodes() if t.kind == "test" for k, m in t.succ if edges_where(resolve(t.expr, defs), atom_endswith).get(k) is False]
    all_raises = [n for n in g.stmt_nodes() if n.kind == "stmt" and isinstance(n.ast, ast.Raise)]
    if bad_nl:
        r_ = g.reachable([m for _t, _k, m in bad_nl], avoid_nodes=[head], edge_ok=NORMAL)
        hit = [n for n in all_raises if n in r_]
        ctx.check(not hit, rule_accept, f.short, "unterminated-last-line-is-skipped-not-raised",
                  message="read_logs raises in the very iteration that finds a line without its trailing newline: such a line is always the last one - a record another "
                          "worker is still writing, or the torn tail left by a writer that died - so every reader (and every fresh JournalStorage) fails although the "
                          "journal is intact up to there", how="on the `not line.endswith(newline)` edge no raise is reachable before the next iteration",
                  where=where(f, hit[0].ast) if hit else None)
    acc_sz0 = [(t, k, m) for t in g.stmt_nodes() if t.kind == "test" for k, m in t.succ if edges_where(resolve(t.expr, defs), atom_neg).get(k) is False]
    r_ = g.reachable(body0, avoid_nodes=[head], avoid_edges=acc_sz0, edge_ok=NORMAL)
    hit = [n for n in raises if n in r_]
    ctx.check(bool(acc_sz0) and not hit, rule_accept, f.short, "pending-error-raised-only-for-a-line-inside-the-snapshot",
              message="the deferred error of an unterminated line is raised for a following line that lies beyond the file size observed at the start of the read: that "
                      "'line' is the second chunk of the very record that was unterminated a moment ago (an append in progress), so a read of an intact journal raises",
              how="the raise of the pending error is dominated, within the iteration, by the `remaining size >= 0` edge",
              where=where(f, hit[0].ast) if hit else None)

    # ---- offset cache (R07.5)
    marks = [n for n in g.stmt_nodes() if n.kind == "stmt" and isinstance(n.ast, ast.Assign)
             and any(isinstance(t, ast.Name) and t.id == ev for t in n.ast.targets)
             and not (isinstance(n.ast.value, ast.Constant) and n.ast.value.value is None)]
    ctx.floor(rule_offsets, "error_marks", len(marks), 1)
    dels = [n for n in g.stmt_nodes() if n.kind == "stmt" and isinstance(n.ast, ast.Delete)
            and any(isinstance(t, ast.Subscript) and self_attr(t.value) == "_log_number_offset" for t in n.ast.targets)]
    # loop counter name
    counter = tnames[0] if len(tnames) > 1 else None
    ldefs = single_defs_loop(loop)

    def is_next(sl):
        return norm(resolve(sl, ldefs)) in (f"{counter} + 1", f"1 + {counter}")
    for mk in marks:
        reach = g.reachable([mk], avoid_nodes=dels, edge_ok=NORMAL)
        bad = head in reach or g.exit in reach
        idx_ok = all(is_next(t.slice) for d in dels for t in d.ast.targets if isinstance(t, ast.Subscript))
        ctx.check((not bad) and idx_ok and bool(dels), rule_offsets, f.short, "error-mark-drops-next-offset",
                  message="a line marked as undecodable/unterminated keeps its end offset in the cache: "
                          "the next read would start after a record that was never returned",
                  how="every error mark is followed by `del self._log_number_offset[n + 1]` before the next iteration",
                  witness=g.witness([head, g.exit], guards=dels, src=mk, edge_ok=NORMAL) if bad else None,
                  where=where(f, mk.ast))
    stores = []
    for n in g.stmt_nodes():
        if n.kind == "stmt" and isinstance(n.ast, ast.Assign):
            for t in n.ast.targets:
                if isinstance(t, ast.Subscript) and self_attr(t.value) == "_log_number_offset":
                    stores.append((n, t))
    ctx.floor(rule_offsets, "offset_stores", len(stores), 1)
    for n, t in stores:
        v = resolve(n.ast.value, ldefs)
        shape = False
        if isinstance(v, ast.BinOp) and isinstance(v.op, ast.Add):
            parts = [norm(v.left), norm(v.right)]
            want_prev = f"self._log_number_offset[{counter}]"
            shape = want_prev in parts and f"len({line})" in parts
        idx = is_next(t.slice)
        ctx.check(shape and idx, rule_offsets, f.short, "offset-provenance",
                  message=f"offset cache entry `{norm(t)}` is not computed as offset[n] + len(line) "
                          f"(got `{norm(n.ast.value)}`)",
                  how="offset[n+1] = offset[n] + len(line)", where=where(f, n.ast))
    # an offset that stays in the cache belongs to a line that was seen complete: from the store,
    # every way to the next iteration / the exit either removes the entry again or has taken the
    # "ends with newline" edge - also for lines that are only skipped (number below the requested one)
    nl_edges = []
    for t in g.stmt_nodes():
        if t.kind == "test":
            pol = edges_where(resolve(t.expr, defs), atom_endswith)
            for k, m in t.succ:
                if pol.get(k) is True:
                    nl_edges.append((t, k, m))
    for n, t in stores:
        starts = [m for k, m in n.succ if NORMAL(n, k, m)]
        r = g.reachable(starts, avoid_nodes=dels + [n], avoid_edges=nl_edges, edge_ok=NORMAL)
        bad = head in r or g.exit in r
        ctx.check(bool(nl_edges) and not bad, rule_offsets, f.short, "kept-offset-is-of-complete-line",
                  message="an offset-cache entry survives an iteration although the line it was computed from was never tested for its "
                          "trailing newline (a partly written record that is only skipped leaves an end offset in the middle of the record: "
                          "later reads of this backend object seek there and fail, a fresh reader does not)",
                  how="from the cache store, every path to the next iteration or the exit passes `del offset[n+1]` or the newline-complete edge",
                  witness=g.witness([head, g.exit], guards=dels + [n], edges=nl_edges, src=starts[0], edge_ok=NORMAL) if bad and starts else None,
                  where=where(f, n.ast))
    # only lines inside the size snapshot may be entered into the cache (a line that reaches beyond
    # the snapshot may be the first chunk of an append still in progress: its length is not final)
    acc_sz = []
    for t in g.stmt_nodes():
        if t.kind == "test":
            pol = edges_where(resolve(t.expr, defs), atom_neg)
            for k, m in t.succ:
                if pol.get(k) is False:
                    acc_sz.append((t, k, m))
    for n, t in stores:
        r = g.reachable(body0, avoid_nodes=[head], avoid_edges=acc_sz)
        ctx.check(bool(acc_sz) and n not in r, rule_offsets, f.short, "offset-store-within-size-snapshot",
                  message="an offset-cache entry can be created for a line that extends beyond the file size observed at the start of the read "
                          "(possibly the first chunk of a concurrent append): later reads would seek into the middle of a record",
                  how="the cache store is dominated, within the iteration, by the `remaining size >= 0` edge", where=where(f, n.ast))
    # seek start must come from the cache for exactly the requested record
    seeks = [c for n in g.stmt_nodes() for c in n.calls() if isinstance(c.func, ast.Attribute) and c.func.attr == "seek"]
    for c in seeks:
        ok = bool(c.args) and norm(c.args[0]).startswith("self._log_number_offset[")
        ctx.check(ok, rule_offsets, f.short, "seek-from-cache",
                  message=f"read_logs seeks to `{norm(c.args[0]) if c.args else ''}`, not to a cached record offset",
                  how="seek target is a cache entry")


def single_defs_loop(loop: ast.For) -> dict[str, ast.AST]:
    """name -> value for names assigned exactly once directly in the loop body (per-iteration
    temporaries such as byte_len = len(line))."""
    counts = {}
    vals = {}
    for st in ast.walk(loop):
        if isinstance(st, ast.Assign) and len(st.targets) == 1 and isinstance(st.targets[0], ast.Name):
            counts[st.targets[0].id] = counts.get(st.targets[0].id, 0) + 1
            vals[st.targets[0].id] = st.value
        elif isinstance(st, ast.AugAssign) and isinstance(st.target, ast.Name):
            counts[st.target.id] = counts.get(st.target.id, 0) + 2
    return {k: v for k, v in vals.items() if counts[k] == 1}
