"""RetryFailedTrialCallback: what the retry trial inherits (shared by C04 and C19)."""
from __future__ import annotations

import ast

from sa.loader import dotted, norm, own_nodes
from sa.util import kwarg

CB = "optuna.storages._callbacks.RetryFailedTrialCallback"
BOOKKEEPING = {"failed_trial", "retry_history"}


def retry_keeps_queue_entry(ctx, rule):
    """The retry is a queue entry built from the failed trial: its system attrs are the failed trial's
    (fixed_params of an enqueued trial included) plus the retry bookkeeping keys, and nothing else is
    rewritten; params / distributions / user attrs are passed through unchanged."""
    p = ctx.program
    f = p.cls(CB).methods.get("__call__")
    ctx.require(f is not None, f"{rule}: RetryFailedTrialCallback.__call__ vanished")
    prm = f.params()
    ctx.require(len(prm) >= 3, f"{rule}: __call__(self, study, trial) signature changed")
    tname = prm[2]
    cts = [c for c in own_nodes(f.node) if isinstance(c, ast.Call) and (dotted(c.func) or "").endswith("create_trial")]
    ctx.require(len(cts) == 1, f"{rule}: create_trial call not found")
    sa = kwarg(cts[0], "system_attrs")
    ctx.require(sa is not None, f"{rule}: retry is created without system_attrs")
    if isinstance(sa, ast.Name):
        local = sa.id
        dicts = [n.value for n in own_nodes(f.node) if isinstance(n, (ast.Assign, ast.AnnAssign)) and isinstance(getattr(n, "value", None), ast.Dict)
                 and norm(n.targets[0] if isinstance(n, ast.Assign) else n.target) == local]
    else:
        local = None
        dicts = [sa] if isinstance(sa, ast.Dict) else []
    ok = bool(dicts) and all(any(k is None and norm(v) == f"{tname}.system_attrs" for k, v in zip(d.keys, d.values)) for d in dicts)
    ctx.check(ok, rule, f.short, "retry-inherits-system-attrs",
              message=f"the retry's system attrs are not built from **{tname}.system_attrs: fixed_params of an enqueued trial (and the retry history) are lost",
              how="dict display containing the failed trial's system attrs")
    bad = []
    if local is not None:
        for n in own_nodes(f.node):
            key = None
            if isinstance(n, (ast.Assign, ast.AugAssign, ast.Delete)):
                tg = n.targets if not isinstance(n, ast.AugAssign) else [n.target]
                for t in tg:
                    if isinstance(t, ast.Subscript) and isinstance(t.value, ast.Name) and t.value.id == local:
                        key = t.slice
                        if not (isinstance(key, ast.Constant) and key.value in BOOKKEEPING):
                            bad.append(norm(t))
            if isinstance(n, ast.Call) and isinstance(n.func, ast.Attribute) and isinstance(n.func.value, ast.Name) and n.func.value.id == local \
                    and n.func.attr in ("update", "pop", "popitem", "clear", "setdefault", "__setitem__", "__delitem__"):
                k0 = n.args[0] if n.args else None
                if not (n.func.attr in ("setdefault", "pop") and isinstance(k0, ast.Constant) and k0.value in BOOKKEEPING):
                    bad.append(norm(n)[:60])
    ctx.check(not bad, rule, f.short, "retry-rewrites-only-bookkeeping-keys",
              message=f"the retry callback rewrites {bad} in the inherited system attrs: only {sorted(BOOKKEEPING)} are the callback's to write; "
                      f"rewriting `fixed_params` changes the values the retry worker is handed (an enqueued trial whose worker died after suggesting part of its "
                      f"parameters is retried with the rest taken from the sampler)",
              how="no store / update / pop on the inherited dict except the bookkeeping keys")
    for k in ("params", "distributions", "user_attrs"):
        v = kwarg(cts[0], k)
        ctx.check(v is not None and norm(v) == f"{tname}.{k}", rule, f.short, f"retry-passes-through:{k}",
                  message=f"the retry trial is created with {k}={norm(v) if v is not None else None}", how=f"{k}={tname}.{k}")
