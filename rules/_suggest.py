"""Checks on the branch order of Trial._suggest shared by C04 (fixed parameters win) and C10
(stability, priority)."""
from __future__ import annotations

import ast

from sa.cfg import CFG
from sa.loader import dotted, norm, own_nodes
from sa.expr import cmp_atom, edges_where
from sa.util import self_attr

TRIAL = "optuna.trial._trial.Trial"


def fixed_decider(p):
    """The helper that decides whether a name is among the trial's fixed parameters, by role: the private method of Trial (or helper of
    its module taking the trial) other than _suggest that tests `name in/not in <trial>._fixed_params`. Returns (Func, returns_tuple)."""
    tcls = p.cls(TRIAL)
    cands = []
    sug = tcls.methods.get("_suggest")
    called = {(self_attr(c.func) or (c.func.id if isinstance(c.func, ast.Name) else None)) for c in own_nodes(sug.node) if isinstance(c, ast.Call)} if sug else set()
    for fn in list(tcls.methods.values()) + [f_ for f_ in p.iter_funcs((tcls.module.name,)) if f_.cls is None]:
        if fn.name in ("_suggest", "__init__") or not fn.name.startswith("_") or fn.name not in called:
            continue
        # the helper _suggest consults that reads the table of fixed parameters (whether or not it still tests membership: that is a rule)
        if any(isinstance(x, ast.Attribute) and x.attr == "_fixed_params" and isinstance(x.ctx, ast.Load) for x in own_nodes(fn.node)):
            cands.append(fn)
    if len(cands) != 1:
        return None, False
    fn = cands[0]
    rets = [n.value for n in own_nodes(fn.node) if isinstance(n, ast.Return) and n.value is not None]
    return fn, bool(rets) and all(isinstance(r, ast.Tuple) and len(r.elts) == 2 for r in rets)


def suggest_chain(ctx, rule):
    p = ctx.program
    R = rule
    tcls = p.cls(TRIAL)
    f = tcls.methods.get("_suggest")
    ctx.require(f is not None, "R04.5: Trial._suggest vanished")
    g = CFG(f.node, name=f.qualname)
    dec, dec_tuple = fixed_decider(p)
    ctx.require(dec is not None, f"{R}: the helper deciding `name in self._fixed_params` was not found (or is not unique)")
    DEC = dec.name
    # (flag, value) return convention: the names the call's result is unpacked into
    flag_names, value_names = set(), set()
    if dec_tuple:
        for n_ in own_nodes(f.node):
            if isinstance(n_, ast.Assign) and isinstance(n_.targets[0], ast.Tuple) and len(n_.targets[0].elts) == 2 and isinstance(n_.value, ast.Call) \
                    and (self_attr(n_.value.func) == DEC or (isinstance(n_.value.func, ast.Name) and n_.value.func.id == DEC)) \
                    and all(isinstance(e_, ast.Name) for e_ in n_.targets[0].elts):
                flag_names.add(n_.targets[0].elts[0].id)
                value_names.add(n_.targets[0].elts[1].id)

    def test_of(pred):
        return [t for t in g.stmt_nodes() if t.kind == "test" and pred(t.expr)]
    t_reuse = test_of(lambda e: isinstance(e, ast.Compare) and isinstance(e.ops[0], (ast.In, ast.NotIn)) and norm(e.comparators[0]).endswith(".distributions"))
    def _calls(x, name):
        """`self.<name>(..)` or, when the helper was moved out of the class, `<name>(self, ..)`"""
        return isinstance(x, ast.Call) and (self_attr(x.func) == name or (isinstance(x.func, ast.Name) and x.func.id == name))
    t_fixed = test_of(lambda e: any(_calls(x, DEC) or (isinstance(x, ast.Name) and x.id in flag_names) for x in ast.walk(e)))
    t_single = test_of(lambda e: any(isinstance(x, ast.Call) and isinstance(x.func, ast.Attribute) and x.func.attr == "single" for x in ast.walk(e)))
    t_rel = test_of(lambda e: any(_calls(x, "_is_relative_param") for x in ast.walk(e)))
    if not t_reuse:
        ctx.fail(R, f.short, "reuse-first", "_suggest no longer tests whether the parameter was already suggested in this trial "
                 "(`name in trial.distributions`): asking for the same name again would return a new value")
    ctx.require(t_fixed and t_single and t_rel, f"{R}: a branch of the suggest chain vanished")
    indep = [n for n in g.stmt_nodes() for c in n.calls() if isinstance(c.func, ast.Attribute) and c.func.attr == "sample_independent"]
    rel_read = [n for n in g.stmt_nodes() if n.kind == "stmt" and "self.relative_params[" in norm(n.ast)]
    fixed_read = [n for n in g.stmt_nodes() if n.kind == "stmt" and isinstance(n.ast, ast.Assign)
                  and (norm(n.ast.value) == "self._fixed_params[name]" or (isinstance(n.ast.value, ast.Name) and n.ast.value.id in value_names))]
    if dec_tuple:
        # what the helper hands back as the value is the fixed value itself
        ddefs = {}
        for n_ in own_nodes(dec.node):
            if isinstance(n_, ast.Assign) and len(n_.targets) == 1 and isinstance(n_.targets[0], ast.Name):
                ddefs.setdefault(n_.targets[0].id, []).append(n_.value)
        for r_ in [n_.value for n_ in own_nodes(dec.node) if isinstance(n_, ast.Return) and isinstance(n_.value, ast.Tuple)]:
            flag, val = r_.elts
            if isinstance(flag, ast.Constant) and flag.value is True:
                vals = ddefs.get(val.id, [val]) if isinstance(val, ast.Name) else [val]
                ctx.check(all(norm(v).endswith("._fixed_params[name]") for v in vals), R, dec.short, "decider-hands-back-the-fixed-value",
                          message=f"{dec.name} returns (True, `{norm(val)}`), which is not the enqueued value `self._fixed_params[name]`", how="(True, self._fixed_params[name])")

    single_read = [n for n in g.stmt_nodes() for c in n.calls() if (dotted(c.func) or "").endswith("_get_single_value")]
    ctx.require(indep and rel_read and fixed_read and single_read, f"{R}: a value source of the suggest chain vanished")

    def pos_edges(tests, want):
        out = []
        for t in tests:
            for k, m in t.succ:
                if k == ("t" if want else "f"):
                    out.append((t, k, m))
        return out
    # the fixed test is evaluated before single/relative/independent can be chosen
    ok = all(g.dominated_by(n, [], pos_edges(t_fixed, False)) for n in indep + rel_read + single_read)
    ctx.check(ok, R, f.short, "fixed-before-sampler",
              message="_suggest can take a value from single()/relative/independent sampling without first having found the "
                      "parameter NOT fixed: an enqueued value would be overridden by the sampler",
              how="every sampler/single value source is dominated by the False edge of the fixed-parameter test")
    ok = all(g.dominated_by(n, [], pos_edges(t_fixed, True)) for n in fixed_read)
    ctx.check(ok, R, f.short, "fixed-value-under-fixed-test", message="fixed value used without the fixed test", how="dominated by True edge")
    ok = all(g.dominated_by(n, [], pos_edges(t_rel, True)) and g.dominated_by(n, [], pos_edges(t_single, False)) for n in rel_read)
    ctx.check(ok, R, f.short, "relative-after-single-under-containment",
              message="the relative value is used without _is_relative_param being true (or before the single() test)",
              how="dominated by True edge of _is_relative_param and False edge of single()")
    ok = all(g.dominated_by(n, [], pos_edges(t_rel, False)) and g.dominated_by(n, [], pos_edges(t_single, False)) for n in indep)
    ctx.check(ok, R, f.short, "independent-last", message="independent sampling is not the last resort", how="dominated by the False edges of single() and _is_relative_param")
    # reuse first
    reuse_false = []
    for t in t_reuse:
        neg = isinstance(t.expr.ops[0], ast.NotIn)
        for k, m in t.succ:
            if k == ("t" if neg else "f"):
                reuse_false.append((t, k, m))
    ok = all(g.dominated_by(n, [], reuse_false) for n in indep + rel_read + fixed_read + single_read)
    ctx.check(ok, R, f.short, "reuse-first", message="a new value can be chosen although the parameter was already suggested in this trial",
              how="all value sources dominated by `name not in trial.distributions`")

    # the enqueued value reaches the caller verbatim: the local that receives self._fixed_params[name] is what _suggest returns, and nothing
    # re-assigns it on the way (a round trip through the internal float form turns 2**53 + 1 into 2**53 and 2.0 into the choice 2)
    for fr in fixed_read:
        tg = fr.ast.targets[0]
        if not isinstance(tg, ast.Name):
            ctx.fail(R, f.short, "fixed-value-handed-out-verbatim", f"the fixed value is stored into `{norm(tg)}`, not a local")
            continue
        var = tg.id
        after = g.reachable([m for k, m in fr.succ if k not in ("e", "reraise")])
        re_as = [n for n in after if n is not fr and n.kind == "stmt" and isinstance(n.ast, (ast.Assign, ast.AugAssign, ast.AnnAssign))
                 and any(isinstance(x, ast.Name) and x.id == var for t_ in (n.ast.targets if isinstance(n.ast, ast.Assign) else [n.ast.target]) for x in [t_])
                 and not g.dominated_by(n, [], pos_edges(t_fixed, False))]
        rets_ = [n for n in after if n.kind == "stmt" and isinstance(n.ast, ast.Return)]
        ok = not re_as and bool(rets_) and all(isinstance(n.ast.value, ast.Name) and n.ast.value.id == var for n in rets_)
        ctx.check(ok, R, f.short, "fixed-value-handed-out-verbatim",
                  message=f"the enqueued value read into `{var}` is "
                          + (f"re-assigned (`{norm(re_as[0].ast)[:70]}`) before _suggest returns" if re_as else f"not what _suggest returns ({[norm(n.ast.value) for n in rets_]})")
                          + ": the worker does not receive the enqueued parameter value verbatim (an int above 2**53 is rounded, a value equal but not identical to a choice is replaced)",
                  how=f"`{var}` = self._fixed_params[name] is returned without any further assignment")


def fixed_iff_rule(ctx, rule):
    """Trial._is_fixed_param returns True exactly when the name is among the trial's fixed (enqueued)
    parameters - whatever the value is (None and out-of-range values included: the caller warns)."""
    p = ctx.program
    tcls = p.cls(TRIAL)
    # _is_fixed_param: True whenever the name is fixed
    f, f_tuple = fixed_decider(p)
    ctx.require(f is not None, f"{rule}: the helper deciding `name in self._fixed_params` vanished")
    recv = f.params()[0] if f.params() else "self"  # `self`, or the trial parameter of a module-level helper
    g = CFG(f.node, name=f.qualname)

    def atom_in_fixed(e):
        a = cmp_atom(e)
        if a and a[0] == "name" and a[2] == recv + "._fixed_params":
            return True if a[1] is ast.In else (False if a[1] is ast.NotIn else None)
        return None
    acc_in = []
    for t in g.stmt_nodes():
        if t.kind == "test":
            pol = edges_where(t.expr, atom_in_fixed)
            for k, m in t.succ:
                if pol.get(k) is True:
                    acc_in.append((t, k, m))
    rets = [n for n in g.stmt_nodes() if n.kind == "stmt" and isinstance(n.ast, ast.Return)]
    def _says_true(v):
        v = v.elts[0] if (f_tuple and isinstance(v, ast.Tuple)) else v
        return isinstance(v, ast.Constant) and v.value is True
    okT = all(_says_true(n.ast.value) == g.dominated_by(n, [], acc_in) for n in rets) and bool(acc_in)
    ctx.check(okT, rule, f.short, "fixed-iff-name-in-fixed-params",
              message="_is_fixed_param does not return True exactly when the name is among the fixed parameters (e.g. an out-of-range "
                      "enqueued value is silently replaced by the sampler)",
              how="`return True` <=> dominated by `name in self._fixed_params`")
