"""Rule shared by C01 and C20: what a storage builds from a caller's template trial shares nothing with it."""
from __future__ import annotations

import ast

from sa.loader import dotted, norm, own_nodes
from sa.util import where

COPY_FAMILY = {"copy.copy", "copy.deepcopy", "copy.replace", "dataclasses.replace", "copy", "deepcopy"}


def template_copies_are_deep(ctx, rule, why):
    """In every storage function that receives a template trial, each object derived from the template by a copy-family call is a
    deep copy (and the template itself is never kept or returned): the derived FrozenTrial is what _CachedStorage caches and what
    the in-memory backend stores, while the caller keeps - and may go on editing - the template."""
    p = ctx.program
    n_sites = 0
    seen = set()
    for f in p.iter_funcs(("optuna.storages",)):
        prms = [a for a in f.params() if a == "template_trial"]
        if not prms:
            continue
        t = prms[0]
        for n in own_nodes(f.node):
            if id(n) in seen:
                continue
            seen.add(id(n))
            if isinstance(n, ast.Call) and (dotted(n.func) or "") in COPY_FAMILY and n.args and norm(n.args[0]) == t:
                n_sites += 1
                ctx.check(dotted(n.func) in ("copy.deepcopy", "deepcopy") and len(n.args) == 1 and not n.keywords, rule, f.short, "template-deep-copied",
                          message=f"{f.name} derives a trial from the caller's template with `{norm(n)[:50]}`: the derived object shares the template's params / "
                                  f"attrs / intermediate-value dicts. {why}",
                          how="copy.deepcopy(template_trial)", where=where(f, n))
            if isinstance(n, ast.Return) and n.value is not None and norm(n.value) == t:
                ctx.fail(rule, f.short, "template-returned-as-stored-trial", f"{f.name} returns the caller's template object itself. {why}", where=where(f, n))
    ctx.floor(rule, "template_copy_sites", n_sites, 2)
