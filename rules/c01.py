"""C01 - structural conformance of every storage backend to the one documented contract."""
from __future__ import annotations

import ast
import re

from rules import _cas
from sa import proto as protomod
from sa.cfg import CFG, handler_names
from sa.enumdom import FINISHED, TRIAL_STATES, explore
from sa.expr import cmp_atom, edges_where, resolve, single_defs
from sa.loader import AnalysisError, Program, dotted, norm, own_nodes
from sa.util import (ancestors, call_sites, field_accesses, init_fields, kwarg, parent_map,
                     self_attr, where)

PROPERTY = "C01"
ST = "optuna.storages."
BASE = ST + "_base.BaseStorage"
INMEM = ST + "_in_memory.InMemoryStorage"
RDB = ST + "_rdb.storage.RDBStorage"
CACHED = ST + "_cached_storage._CachedStorage"
JOURNAL = ST + "journal._storage.JournalStorage"
REPLAY = ST + "journal._storage.JournalStorageReplayResult"
GRPC = ST + "_grpc.client.GrpcStorageProxy"
GCACHE = ST + "_grpc.client.GrpcClientCache"
SERVICER = ST + "_grpc.servicer.OptunaStorageProxyService"
SERVMOD = ST + "_grpc.servicer"
MODELS = ST + "_rdb.models"
TRIAL_SETTERS = ["set_trial_param", "set_trial_state_values", "set_trial_intermediate_value", "set_trial_user_attr", "set_trial_system_attr"]
NORMAL = lambda a, k, b: k not in ("e", "reraise", "match", "nomatch")  # noqa: E731


def abstract_methods(cls):
    return [m for m, f in cls.methods.items() if any(d.endswith("abstractmethod") for d in f.decorators())]


def sig(f):
    a = f.node.args
    pos = [x.arg for x in a.posonlyargs + a.args]
    defaults = [norm(d) for d in a.defaults]
    return pos, defaults, [x.arg for x in a.kwonlyargs]


# ------------------------------------------------------------------------------------------------
def r01_1(ctx, p):
    ctx.rule("R01.1", "every concrete BaseStorage subclass defines every abstract method with the base signature")
    base = p.cls(BASE)
    abst = abstract_methods(base)
    ctx.floor("R01.1", "abstract_methods", len(abst), 18, exact=True)
    impls = [c for c in p.subclasses(base) if c.module.name.startswith("optuna.storages") or ctx.tier == "thorough"]
    ctx.floor("R01.1", "concrete_backends", len([c for c in impls if c.module.name.startswith("optuna.storages")]), 5, exact=True)
    for c in impls:
        for m in abst:
            f = None
            for k in p.mro(c):
                if k is base:
                    break
                if m in k.methods:
                    f = k.methods[m]
                    break
            if f is None:
                ctx.fail("R01.1", c.module.relpath + "::" + c.name, f"implements:{m}", f"{c.name} does not implement abstract method {m}")
                continue
            ctx.check(sig(f) == sig(base.methods[m]), "R01.1", f.short, f"signature:{m}",
                      message=f"{c.name}.{m} has signature {sig(f)}; the contract is {sig(base.methods[m])} (callers use keywords state=, values=, key=, deepcopy=, states=, template_trial=)",
                      how="same positional names, order and defaults", where=where(f, f.node))
    return impls


# ------------------------------------------------------------------------------------------------
def r01_2(ctx, p):
    ctx.rule("R01.2", "the finished-trial guard dominates every trial write (primary backends); delegating backends delegate purely")
    n_guard = 0
    # in-memory
    im = p.cls(INMEM)
    for m in TRIAL_SETTERS:
        f = im.methods.get(m)
        ctx.require(f is not None, f"R01.2: InMemoryStorage.{m} vanished")
        g = CFG(f.node, name=f.qualname)
        guards = [n for n in g.stmt_nodes() for c in n.calls() if self_attr(c.func) == "check_trial_is_updatable"]
        writes = [n for n in g.stmt_nodes() for c in n.calls() if self_attr(c.func) == "_set_trial"]
        ctx.require(writes, f"R01.2: InMemoryStorage.{m} no longer publishes through _set_trial")
        n_guard += 1
        ok = bool(guards) and all(g.dominated_by(w, guards) for w in writes)
        ctx.check(ok, "R01.2", f.short, "guard-dominates-write",
                  message=f"InMemoryStorage.{m} can write a trial without check_trial_is_updatable: a finished trial can be modified",
                  how="guard call dominates every _set_trial", witness=g.witness(writes, guards=guards))
        # the guard tests the state of the trial read in this call (under the lock)
        defs = single_defs(f.node)
        for gn in guards:
            for c in gn.calls():
                if self_attr(c.func) == "check_trial_is_updatable":
                    a = c.args[1] if len(c.args) > 1 else None
                    okk = isinstance(a, ast.Attribute) and a.attr == "state" and isinstance(a.value, ast.Name)
                    src_ok = False
                    if okk:
                        # some reaching assignment of that local is the stored trial (possibly copied)
                        for n2 in own_nodes(f.node):
                            if isinstance(n2, ast.Assign) and any(isinstance(t, ast.Name) and t.id == a.value.id for t in n2.targets):
                                if "self._get_trial(trial_id)" in norm(n2.value):
                                    src_ok = True
                    ctx.check(okk and src_ok and norm(c.args[0]) == "trial_id", "R01.2", f.short, "guard-on-current-state",
                              message=f"InMemoryStorage.{m}: the guard does not test the stored state of this trial (`{norm(a) if a is not None else None}`)",
                              how="check_trial_is_updatable(trial_id, <self._get_trial(trial_id)>.state)")
    # RDB
    rdb = p.cls(RDB)
    helpers = [m for m in rdb.methods if m.endswith("_without_commit")] + ["set_trial_state_values"]
    for m in sorted(helpers):
        f = rdb.methods[m]
        g = CFG(f.node, name=f.qualname)
        guards = [n for n in g.stmt_nodes() for c in n.calls() if self_attr(c.func) == "check_trial_is_updatable"]
        model_locals = {t.id for n in own_nodes(f.node) if isinstance(n, ast.Assign) and isinstance(n.value, ast.Call)
                        and (dotted(n.value.func) or "").startswith("models.") or (isinstance(n, ast.Assign) and isinstance(n.value, ast.Call) and norm(n.value.func).startswith("model_cls"))
                        for t in n.targets if isinstance(t, ast.Name)}
        writes = []
        for n in g.stmt_nodes():
            for c in n.calls():
                fn = norm(c.func)
                if fn in ("session.add", "session.execute", "session.delete", "session.merge") or fn.endswith(".check_and_add"):
                    writes.append(n)
                if self_attr(c.func) and self_attr(c.func).endswith("_without_commit"):
                    writes.append(n)
            if n.kind == "stmt" and isinstance(n.ast, ast.Assign):
                for t in n.ast.targets:
                    if isinstance(t, ast.Attribute) and isinstance(t.value, ast.Name) and t.value.id in model_locals:
                        writes.append(n)
        ctx.require(writes, f"R01.2: RDBStorage.{m}: no writer statement recognised")
        n_guard += 1
        ok = bool(guards) and all(g.dominated_by(w, guards) for w in writes)
        ctx.check(ok, "R01.2", f.short, "guard-dominates-write",
                  message=f"RDBStorage.{m} can write rows of a trial without check_trial_is_updatable",
                  how="guard call dominates every session.add/execute/row attribute store", witness=g.witness(writes, guards=guards))
        for gn in guards:
            for c in gn.calls():
                if self_attr(c.func) == "check_trial_is_updatable":
                    a = c.args[1] if len(c.args) > 1 else None
                    okk = isinstance(a, ast.Attribute) and a.attr == "state" and isinstance(a.value, ast.Name)
                    src = None
                    if okk:
                        for n2 in own_nodes(f.node):
                            if isinstance(n2, ast.Assign) and any(isinstance(t, ast.Name) and t.id == a.value.id for t in n2.targets):
                                src = n2.value
                    ok2 = okk and isinstance(src, ast.Call) and norm(src.func) == "models.TrialModel.find_or_raise_by_id" \
                        and norm(src.args[0]) == "trial_id" and norm(src.args[1]) == "session"
                    ctx.check(ok2, "R01.2", f.short, "guard-on-current-state",
                              message=f"RDBStorage.{m}: the guard does not test the row fetched in this transaction", how="row fetched with the same session")
    # public RDB setters run their helper inside one region (C05) - here: they call the helper
    for m, h in (("set_trial_param", "_set_trial_param_without_commit"), ("set_trial_intermediate_value", "_set_trial_intermediate_value_without_commit"),
                 ("set_trial_user_attr", "_set_trial_attr_without_commit"), ("set_trial_system_attr", "_set_trial_attr_without_commit")):
        f = rdb.methods[m]
        ctx.check(any(isinstance(c, ast.Call) and self_attr(c.func) == h for c in own_nodes(f.node)), "R01.2", f.short, f"uses-guarded-helper:{h}",
                  message=f"RDBStorage.{m} no longer goes through the guarded helper {h}", how="helper call present")
    # journal
    rp = p.cls(REPLAY)
    for m in ["_apply_" + x for x in TRIAL_SETTERS]:
        f = rp.methods.get(m)
        ctx.require(f is not None, f"R01.2: {m} vanished")
        g = CFG(f.node, name=f.qualname)

        def atom(e):
            if isinstance(e, ast.Call) and self_attr(e.func) == "_trial_exists_and_updatable":
                return True
            return None
        acc = [(t, k, mm) for t in g.stmt_nodes() if t.kind == "test" for k, mm in t.succ if edges_where(t.expr, atom).get(k) is True]
        writes = [n for n in g.stmt_nodes() if n.kind == "stmt" and isinstance(n.ast, ast.Assign)
                  and any(isinstance(t, ast.Subscript) and self_attr(t.value) == "_trials" for t in n.ast.targets)]
        ctx.require(writes, f"R01.2: {m} no longer publishes into self._trials")
        n_guard += 1
        ok = bool(acc) and all(g.dominated_by(w, [], acc) for w in writes)
        ctx.check(ok, "R01.2", f.short, "guard-dominates-write",
                  message=f"{m} can replace a trial without _trial_exists_and_updatable having returned True",
                  how="True edge of the reject helper dominates the publish", witness=g.witness(writes, edges=acc))
        for t, k, mm in acc:
            for c in ast.walk(t.expr):
                if isinstance(c, ast.Call) and self_attr(c.func) == "_trial_exists_and_updatable":
                    ctx.check([norm(a) for a in c.args] == ["trial_id", "log"] and any(
                        isinstance(n2, ast.Assign) and norm(n2.targets[0]) == "trial_id" and norm(n2.value) == "log['trial_id']" for n2 in own_nodes(f.node)),
                        "R01.2", f.short, "guard-on-current-state", message="the guard is not evaluated for this record's trial", how="(log['trial_id'], log)")
    ctx.floor("R01.2", "guarded_writers", n_guard, 15)
    # delegating backends
    cs = p.cls(CACHED)
    n_del = 0
    for m in TRIAL_SETTERS:
        f = cs.methods.get(m)
        ctx.require(f is not None, f"R01.2: _CachedStorage.{m} vanished")
        body = [s for s in f.node.body if not (isinstance(s, ast.Expr) and isinstance(s.value, ast.Constant))]
        ok = len(body) == 1 and isinstance(body[0], (ast.Expr, ast.Return)) and isinstance(body[0].value, ast.Call) \
            and norm(body[0].value.func) == f"self._backend.{m}"
        if ok:
            c = body[0].value
            passed = [norm(a) for a in c.args] + [norm(k.value) for k in c.keywords]
            ok = passed == f.params()[1:]
        n_del += 1
        ctx.check(ok, "R01.2", f.short, "pure-delegation",
                  message=f"_CachedStorage.{m} is not a pure delegation of all its arguments to self._backend.{m}", how="single call forwarding every parameter")
    gp = p.cls(GRPC)
    sv = p.cls(SERVICER)
    rpc_of = {}
    for m, f in gp.methods.items():
        for c in own_nodes(f.node):
            if isinstance(c, ast.Call) and norm(c.func).startswith("self._stub."):
                rpc_of[m] = norm(c.func).split(".")[-1]
    for m in TRIAL_SETTERS:
        n_del += 1
        rpc = rpc_of.get(m)
        h = sv.methods.get(rpc) if rpc else None
        ok = h is not None and any(isinstance(c, ast.Call) and norm(c.func) == f"self._backend.{m}" for c in own_nodes(h.node))
        ctx.check(ok, "R01.2", gp.methods[m].short, "delegates-to-same-backend-method",
                  message=f"GrpcStorageProxy.{m} -> RPC {rpc} -> servicer does not call self._backend.{m}", how="client RPC and servicer handler resolve to the same-named backend method")
    ctx.floor("R01.2", "delegations", n_del, 10)
    return rpc_of


# ------------------------------------------------------------------------------------------------
def r01_4(ctx, p):
    ctx.rule("R01.4", "delete completeness: every container a create path inserts into is cleaned on delete, or its readers are gated by a liveness test; RDB children cascade")
    im = p.cls(INMEM)
    ins = set()
    for m in ("create_new_study", "create_new_trial"):
        for a in field_accesses(im.methods[m].node):
            if a.kind == "mutate":
                ins.add(a.field)
    dl = im.methods["delete_study"]
    removed = {a.field for a in field_accesses(dl.node) if a.kind == "mutate"}
    ctx.floor("R01.4", "inmem_containers", len(ins), 4, exact=True)
    for c in sorted(ins):
        ctx.check(c in removed, "R01.4", dl.short, f"removes:{c}", message=f"InMemoryStorage.delete_study leaves entries in {c}", how="del statement on the container")
    # the per-trial map is cleaned for every trial of the study
    loops = [n for n in own_nodes(dl.node) if isinstance(n, ast.For) and norm(n.iter).endswith(".trials")]
    ctx.check(any(any(isinstance(s, ast.Delete) and "_trial_id_to_study_id_and_number" in norm(s) for s in ast.walk(lp)) for lp in loops), "R01.4", dl.short,
              "removes-each-trial", message="trial id map is not cleaned for every trial of the deleted study", how="loop over the study's trials")
    # journal replay result
    rp = p.cls(REPLAY)
    ins = set()
    for m in ("_apply_create_study", "_apply_create_trial"):
        for a in field_accesses(rp.methods[m].node):
            if a.kind == "mutate":
                ins.add(a.field)
    ins -= {"_worker_id_to_owned_trial_id"}
    dl = rp.methods["_apply_delete_study"]
    removed = {a.field for a in field_accesses(dl.node) if a.kind == "mutate"}
    residual = sorted(ins - removed)
    ctx.note("journal_residual_containers", residual)
    js = p.cls(JOURNAL)
    readers = []
    for cls_ in (rp, js):
        for mname, f in sorted(cls_.methods.items()):
            if mname in ("__init__", "_apply_delete_study", "restore_replay_result"):
                continue
            creating = mname in ("_apply_create_trial", "_apply_create_study")
            pmf = parent_map(f.node) if creating else None
            g = None
            for x in own_nodes(f.node):
                if isinstance(x, ast.Attribute) and x.attr in residual and isinstance(x.ctx, ast.Load) and \
                        norm(x.value) in ("self", "self._replay_result"):
                    if creating:
                        # the create handlers allocate ids from the size of a container that is never cleaned (ids are
                        # never re-used) and insert into it; any other read - a membership test above all - would see
                        # entries of deleted studies
                        par = pmf.get(id(x))
                        gp = pmf.get(id(par)) if par is not None else None
                        is_len = isinstance(par, ast.Call) and dotted(par.func) == "len"
                        is_insert = (isinstance(par, ast.Subscript) and isinstance(par.ctx, (ast.Store, ast.Del))) or \
                            (isinstance(par, ast.Attribute) and par.attr in ("append", "add", "setdefault", "update", "extend") and isinstance(gp, ast.Call) and gp.func is par) or \
                            (isinstance(par, ast.Subscript) and isinstance(gp, ast.Attribute) and gp.attr in ("append", "add", "extend"))
                        if is_len or is_insert:
                            continue
                    if g is None:
                        g = CFG(f.node, name=f.qualname)
                    readers.append((cls_, f, x, g))
    seen = set()
    for cls_, f, x, g in readers:
        key = (f.qualname, x.attr)
        if key in seen:
            continue
        seen.add(key)
        nodes = [n for n in g.stmt_nodes() if any(y is x for y in n.walk())]
        # liveness gates: `study_id in self._studies` true edge, _study_exists true edge, get_study call
        def atom(e):
            a = cmp_atom(e)
            if a and a[1] in (ast.In, ast.NotIn) and any(a[2].endswith("." + r_) for r_ in removed):
                return a[1] is ast.In  # membership in a container that delete does clean
            if isinstance(e, ast.Call) and self_attr(e.func) == "_study_exists":
                return True
            # handlers delegate the liveness decision to the reject helper (which is itself a reader
            # that must be gated - reported there, once)
            if isinstance(e, ast.Call) and self_attr(e.func) == "_trial_exists_and_updatable" and f.name != "_trial_exists_and_updatable":
                return True
            return None
        acc = [(t, k, m) for t in g.stmt_nodes() if t.kind == "test" for k, m in t.succ if edges_where(t.expr, atom).get(k) is True]
        gates = [n for n in g.stmt_nodes() for c in n.calls() if isinstance(c.func, ast.Attribute) and c.func.attr in ("get_study",)]
        gated = bool(nodes) and all(g.dominated_by(n, gates, acc) for n in nodes) and (bool(acc) or bool(gates))
        if gated:
            ctx.ok("R01.4", f.short, f"residual:{x.attr}:gated", how="reader dominated by a study-liveness test")
        else:
            ctx.fail("R01.4", f.short, f"residual:{x.attr}",
                     f"{cls_.name}.{f.name} reads {x.attr}, which _apply_delete_study does not clean, without testing that the owning "
                     f"study still exists: trials of a deleted study stay readable/writable",
                     where=where(f, x))
    # caches (shared with C08 R08.7)
    cs = p.cls(CACHED)
    # every method that inserts into the cache: the two creators, the refresh and whatever private helper they share (if any)
    inserters = [m for m in cs.methods if m in ("create_new_study", "create_new_trial", "_read_trials_from_remote_storage") or (m.startswith("_add_") and "cache" in m)]
    ins = {a.field for m in inserters for a in field_accesses(cs.methods[m].node) if a.kind == "mutate"}
    removed = {a.field for a in field_accesses(cs.methods["delete_study"].node) if a.kind == "mutate"}
    for c in sorted(ins):
        ctx.check(c in removed, "R01.4", cs.methods["delete_study"].short, f"removes:{c}", message=f"_CachedStorage.delete_study leaves entries in {c}", how="del statement")
    # RDB cascades
    n_child = 0
    for c in sorted(p.classes.values(), key=lambda c: c.qualname):
        if c.module.name != MODELS:
            continue
        fks = []
        rels = []
        for st in c.node.body:
            if isinstance(st, ast.Assign) and isinstance(st.value, ast.Call):
                for x in ast.walk(st.value):
                    if isinstance(x, ast.Call) and dotted(x.func) == "ForeignKey" and x.args and isinstance(x.args[0], ast.Constant):
                        fks.append(x.args[0].value)
                if (dotted(st.value.func) or "").endswith("relationship"):
                    rels.append(st.value)
        for fk in fks:
            if fk not in ("studies.study_id", "trials.trial_id"):
                continue
            n_child += 1
            parent = "StudyModel" if fk.startswith("studies") else "TrialModel"
            ok = False
            for r in rels:
                if r.args and norm(r.args[0]) == parent:
                    br = kwarg(r, "backref")
                    if isinstance(br, ast.Call):
                        cas = kwarg(br, "cascade")
                        if isinstance(cas, ast.Constant) and isinstance(cas.value, str) and ("delete" in cas.value or "all" in cas.value):
                            ok = True
            ctx.check(ok, "R01.4", c.module.relpath + "::" + c.name, f"cascade:{fk}",
                      message=f"{c.name} references {fk} but its relationship to {parent} has no delete cascade: rows survive delete_study", how="backref(cascade='all, delete-orphan')")
    ctx.floor("R01.4", "rdb_child_models", n_child, 10, exact=True)


# ------------------------------------------------------------------------------------------------
def frozen_fields(p):
    f = p.func("optuna.trial._frozen.FrozenTrial.__init__")
    params = [x for x in f.params()[1:]]
    return params


def r01_5(ctx, p):
    ctx.rule("R01.5", "template field coverage: every create-with-template path reads all 9 FrozenTrial fields; every reader reconstructs all constructor parameters")
    params = frozen_fields(p)
    ctx.require(len(params) == 12, f"R01.5: FrozenTrial.__init__ parameter list changed ({params}); update the field table")
    fields = [x for x in params if x not in ("number", "trial_id", "value", "values")] + ["value|values"]

    def reads(func, var):
        out = set()
        for x in own_nodes(func.node):
            if isinstance(x, ast.Attribute) and isinstance(x.value, ast.Name) and x.value.id == var:
                out.add(x.attr)
        return out
    for q, var in ((RDB + "._get_prepared_new_trial", "template_trial"), (JOURNAL + ".create_new_trial", "template_trial"), (SERVMOD + "._to_proto_trial", "trial")):
        f = p.func(q)
        r = reads(f, var)
        for fld in fields:
            ok = (("value" in r or "values" in r) if fld == "value|values" else fld in r)
            ctx.check(ok, "R01.5", f.short, f"template-field:{fld}",
                      message=f"{f.name} never reads {var}.{fld}: a template trial's {fld} is dropped by this backend", how=f"reads {var}.{fld}")
    im = p.func(INMEM + ".create_new_trial")
    ok = any(isinstance(n, ast.Assign) and norm(n.value) == "copy.deepcopy(template_trial)" for n in own_nodes(im.node))
    ctx.check(ok, "R01.5", im.short, "template-field:all", message="in-memory create_new_trial does not deep-copy the whole template", how="copy.deepcopy(template_trial)")
    for q in (REPLAY + "._apply_create_trial", SERVMOD + "._from_proto_trial", RDB + "._build_frozen_trial_from_trial_model"):
        f = p.func(q)
        ctors = [c for c in own_nodes(f.node) if isinstance(c, ast.Call) and dotted(c.func) == "FrozenTrial"]
        ctx.require(len(ctors) == 1, f"R01.5: {q} must construct exactly one FrozenTrial")
        kws = {k.arg for k in ctors[0].keywords}
        need = set(params) - {"value", "values"}
        ctx.check(need <= kws and ("value" in kws or "values" in kws) and not ctors[0].args, "R01.5", f.short, "reconstructs-all-fields",
                  message=f"{f.name} builds FrozenTrial with {sorted(kws)}; missing {sorted(need - kws)}", how="keyword set = constructor parameter set")
    from rules._template import template_copies_are_deep
    template_copies_are_deep(ctx, "R01.5", "The cached-RDB wrapper serves this object for a finished template trial, so a later in-place edit of the object the "
                             "caller added (t.params['x'] = ...; study.add_trial(t)) changes what get_trial returns while every other backend - and the "
                             "database itself - keeps the values that were stored")
    # in-memory sets number and id after the copy
    asg = {norm(t) for n in own_nodes(im.node) if isinstance(n, ast.Assign) for t in n.targets}
    ctx.check({"trial.number", "trial._trial_id"} <= asg, "R01.5", im.short, "assigns-number-and-id", message="in-memory create does not assign number/_trial_id", how="assignments present")


def r01_16(ctx, p):
    """The in-memory backend answers get_all_trials(states=(WAITING,)) by scanning from a per-study cursor. The other backends
    filter every trial, so the answers agree only while no WAITING trial stands below the cursor: every storage call that can
    make an existing trial WAITING has to pull the cursor back to it."""
    ctx.rule("R01.16", "in-memory WAITING listing = the other backends' filter: a trial that set_trial_state_values turns (back) to WAITING is never left "
             "below the scan cursor of get_all_trials(states=(WAITING,))")
    im = p.cls(INMEM)
    ga = im.methods["get_all_trials"]
    cursors = set()
    for x in own_nodes(ga.node):
        if isinstance(x, ast.Subscript) and isinstance(x.slice, ast.Slice) and x.slice.lower is not None and x.slice.upper is None:
            lo = resolve(x.slice.lower, single_defs(ga.node))
            for y in ast.walk(lo):
                if isinstance(y, ast.Attribute) and isinstance(y.value, ast.Name) and y.value.id == "self":
                    cursors.add(y.attr)
    if not cursors:
        ctx.ok("R01.16", ga.short, "no-scan-cursor", how="get_all_trials filters every trial (no cursor to keep consistent)", nontrivial=False)
        return
    f = im.methods["set_trial_state_values"]
    g = CFG(f.node, name=f.qualname)
    defs = single_defs(f.node)

    def touches_cursor(e):
        return any(isinstance(y, ast.Attribute) and y.attr in cursors and isinstance(y.value, ast.Name) and y.value.id == "self" for y in ast.walk(e))
    lowering = []
    for n in g.stmt_nodes():
        if n.kind == "stmt" and isinstance(n.ast, ast.Assign) and any(isinstance(t, ast.Subscript) and touches_cursor(t.value) for t in n.ast.targets):
            v = resolve(n.ast.value, defs)
            if isinstance(v, ast.Call) and dotted(v.func) == "min" and any(touches_cursor(a) for a in v.args):
                lowering.append(n)
        if n.kind == "test" and isinstance(n.expr, ast.Compare) and touches_cursor(n.expr) and any(isinstance(o, (ast.Lt, ast.LtE, ast.Gt, ast.GtE)) for o in n.expr.ops):
            lowering.append(n)
    pub = [n for n in g.stmt_nodes() for c in n.calls() if self_attr(c.func) == "_set_trial"]
    ctx.require(pub, "R01.16: in-memory set_trial_state_values no longer publishes through _set_trial")
    cur = {norm(x) for x in own_nodes(f.node) if isinstance(x, ast.Attribute) and x.attr == "state" and norm(x.value) not in ("self",) and not norm(x.value).endswith("TrialState")}
    bad = None
    for curst in ("RUNNING", "WAITING"):
        env = {"state": "WAITING"}
        for c in cur:
            env[c] = curst
        nodes, edges = explore(g, env, [], return_edges=True)
        ok_edge = lambda a, k, b, edges=edges: (a, k, b) in edges and k not in ("e", "reraise", "match", "nomatch")  # noqa: E731
        for pn in pub:
            if pn not in nodes:
                continue
            before = g.reachable([g.entry], avoid_nodes=lowering, edge_ok=ok_edge)
            if pn in before and g.exit in g.reachable([pn], avoid_nodes=lowering, edge_ok=ok_edge):
                bad = g.witness([g.exit], guards=lowering, edge_ok=ok_edge)
    ctx.check(bad is None, "R01.16", f.short, "requeued-trial-not-below-cursor",
              message=f"InMemoryStorage.set_trial_state_values(t, WAITING) publishes the trial without pulling self.{sorted(cursors)[0]} back to its number: after a WAITING "
                      f"listing has moved the cursor past t, get_all_trials(states=(WAITING,)) never returns t again, while RDB, journal and the in-memory list form "
                      f"(states=[WAITING]) do - Study.ask would never run the re-queued trial on this backend only",
              how="explored with state=WAITING: every path that publishes passes `cursor = min(cursor, number)` (or a guarded lowering)", witness=bad)


def r01_17(ctx, p):
    ctx.rule("R01.17", "get_best_trial agrees across backends: the in-memory backend answers from an incrementally kept best-trial id, so every path of "
             "set_trial_state_values on which a trial becomes COMPLETE - with or without values in that call - has to pass the cache update (journal "
             "uses the base scan, RDB a query: both see every COMPLETE trial)")
    from rules.c12 import complete_updates_cache
    im = p.cls(INMEM)
    writers = [m for m, f in im.methods.items() if m != "__init__" and any(
        isinstance(n, ast.Assign) and any(isinstance(t, ast.Attribute) and t.attr == "best_trial_id" for t in n.targets) for n in own_nodes(f.node))]
    ctx.require(len(writers) == 1, f"R01.17: expected one in-memory method that maintains best_trial_id, found {writers}")
    complete_updates_cache(ctx, "R01.17", writers[0])


# ------------------------------------------------------------------------------------------------
def must_may_keys(func, call):
    """(must, may) key sets of the dict passed as 2nd argument of _write_log at `call`."""
    arg = call.args[1] if len(call.args) > 1 else None
    if isinstance(arg, ast.Dict):
        ks = {k.value for k in arg.keys if isinstance(k, ast.Constant)}
        return ks, ks
    if not isinstance(arg, ast.Name):
        raise AnalysisError(f"R01.6: unrecognised record argument `{norm(arg)}` in {func.short}")
    var = arg.id
    g = CFG(func.node, name=func.qualname)
    target = [n for n in g.stmt_nodes() if any(c is call for c in n.calls())]
    state = {g.entry: (frozenset(), frozenset())}
    work = [g.entry]
    while work:
        n = work.pop()
        must, may = state[n]
        if n.kind == "stmt" and isinstance(n.ast, (ast.Assign, ast.AnnAssign)):
            tg = n.ast.targets if isinstance(n.ast, ast.Assign) else [n.ast.target]
            for t in tg:
                if isinstance(t, ast.Name) and t.id == var and isinstance(n.ast.value, ast.Dict):
                    ks = frozenset(k.value for k in n.ast.value.keys if isinstance(k, ast.Constant))
                    must, may = ks, ks
                if isinstance(t, ast.Subscript) and isinstance(t.value, ast.Name) and t.value.id == var and isinstance(t.slice, ast.Constant):
                    must, may = must | {t.slice.value}, may | {t.slice.value}
        for k, m in n.succ:
            if m not in state:
                state[m] = (must, may)
                work.append(m)
            else:
                om, oy = state[m]
                nm, ny = om & must, oy | may
                if (nm, ny) != (om, oy):
                    state[m] = (nm, ny)
                    work.append(m)
    if not target or target[0] not in state:
        raise AnalysisError(f"R01.6: _write_log call unreachable in {func.short}")
    must, may = state[target[0]]
    return set(must), set(may)


def handler_reads(func):
    """(unconditional, all) keys of `log` read by a replay handler."""
    g = CFG(func.node, name=func.qualname)
    pm = parent_map(func.node)
    uncond, allk = set(), set()
    for n in g.stmt_nodes():
        for x in n.walk():
            if isinstance(x, ast.Subscript) and isinstance(x.value, ast.Name) and x.value.id == "log" and isinstance(x.slice, ast.Constant) \
                    and isinstance(x.ctx, ast.Load):
                k = x.slice.value
                allk.add(k)

                def atom(e, k=k):
                    a = cmp_atom(e)
                    if a and a[2] == "log" and a[0] == repr(k):
                        return a[1] is ast.In if a[1] in (ast.In, ast.NotIn) else None
                    return None
                acc = [(t, kk, m) for t in g.stmt_nodes() if t.kind == "test" for kk, m in t.succ if edges_where(t.expr, atom).get(kk) is True]
                hdefs = {k_: v_ for k_, v_ in single_defs(func.node).items() if k_ != "state"}
                state_cond = any(isinstance(a_, ast.If) and any(isinstance(y, ast.Name) and y.id == "state" for y in ast.walk(resolve(a_.test, hdefs)))
                                 for a_ in ancestors(x, pm))
                if not (acc and g.dominated_by(n, [], acc)) and not state_cond:
                    uncond.add(k)
            if isinstance(x, ast.Call) and isinstance(x.func, ast.Attribute) and x.func.attr == "get" and isinstance(x.func.value, ast.Name) \
                    and x.func.value.id == "log" and x.args and isinstance(x.args[0], ast.Constant):
                allk.add(x.args[0].value)
            if isinstance(x, ast.Compare) and len(x.ops) == 1 and isinstance(x.ops[0], (ast.In, ast.NotIn)) and norm(x.comparators[0]) == "log" \
                    and isinstance(x.left, ast.Constant):
                allk.add(x.left.value)
    return uncond, allk


def r01_6(ctx, p):
    ctx.rule("R01.6", "journal op-codes: one producer and one dispatch arm each; handler's unconditional keys within the producer's must-keys; "
             "producer's keys all consumed; state-conditional keys agree for every TrialState")
    mod = p.module(ST + "journal._storage")
    opcls = mod.classes.get("JournalOperation")
    ctx.require(opcls is not None, "R01.6: JournalOperation vanished")
    members = [t.id for n in opcls.node.body if isinstance(n, ast.Assign) for t in n.targets if isinstance(t, ast.Name)]
    ctx.floor("R01.6", "op_codes", len(members), 10, exact=True)
    js, rp = p.cls(JOURNAL), p.cls(REPLAY)
    producers = {}
    for m, f in js.methods.items():
        for c in own_nodes(f.node):
            if isinstance(c, ast.Call) and self_attr(c.func) == "_write_log" and c.args:
                op = (dotted(c.args[0]) or "").split(".")[-1]
                producers.setdefault(op, []).append((f, c))
    al = rp.methods["apply_logs"]
    arms = {}
    for n in own_nodes(al.node):
        if isinstance(n, ast.If):
            a = cmp_atom(n.test)
            if a and a[0] == "op" and a[2].startswith("JournalOperation."):
                callee = [self_attr(c.func) for s in n.body for c in ast.walk(s) if isinstance(c, ast.Call) and self_attr(c.func)]
                arms.setdefault(a[2].split(".")[-1], []).extend(callee)
    for op in members:
        pr = producers.get(op, [])
        ar = arms.get(op, [])
        ctx.check(len(pr) == 1, "R01.6", js.module.relpath + "::JournalStorage", f"one-producer:{op}", message=f"op-code {op} has {len(pr)} producers", how="exactly one _write_log site")
        ctx.check(len(ar) == 1, "R01.6", al.short, f"one-dispatch-arm:{op}", message=f"op-code {op} has {len(ar)} dispatch arms in apply_logs: records of this kind would hit `assert False`", how="exactly one arm")
        if len(pr) != 1 or len(ar) != 1:
            continue
        f, c = pr[0]
        h = rp.methods.get(ar[0])
        ctx.require(h is not None, f"R01.6: handler {ar[0]} vanished")
        must, may = must_may_keys(f, c)
        unc, allk = handler_reads(h)
        # helper handlers read keys too (e.g. worker_id in the issuer test)
        ctx.check(unc <= must | {"op_code", "worker_id"}, "R01.6", h.short, f"reads-within-written:{op}",
                  message=f"{h.name} unconditionally reads {sorted(unc - must)} which {f.name} does not write on every path: replay raises KeyError on such records",
                  how=f"unconditional reads {sorted(unc)} within must-keys {sorted(must)}")
        ctx.check(may <= allk | {"op_code", "worker_id"}, "R01.6", f.short, f"written-are-read:{op}",
                  message=f"{f.name} writes {sorted(may - allk)} which {h.name} never reads: that part of the call is lost on replay",
                  how=f"written keys {sorted(may)} all consumed")
    extra = set(producers) - set(members)
    ctx.check(not extra, "R01.6", js.module.relpath + "::JournalStorage", "producers-are-members", message=f"producers for unknown op-codes {extra}", how="all producer op-codes are enum members")
    # state-conditional keys of SET_TRIAL_STATE_VALUES agree for every TrialState
    f = js.methods["set_trial_state_values"]
    h = rp.methods["_apply_set_trial_state_values"]
    gp_, gh = CFG(f.node, name=f.qualname), CFG(h.node, name=h.qualname)
    bad = []
    for s in TRIAL_STATES:
        cur = "WAITING" if s == "RUNNING" else "RUNNING"
        envp = {"state": s}
        rp_nodes = explore(gp_, envp, [])
        written = {t.slice.value for n in rp_nodes if n.kind == "stmt" and isinstance(n.ast, ast.Assign) for t in n.ast.targets
                   if isinstance(t, ast.Subscript) and norm(t.value) == "log" and isinstance(t.slice, ast.Constant)}
        envh = {"state": s, "__cur__": cur, "self._trials[trial_id].state": cur}
        rh_nodes = explore(gh, envh, [_cas.model_updatable])
        read = {x.slice.value for n in rh_nodes for x in n.walk() if isinstance(x, ast.Subscript) and norm(x.value) == "log" and isinstance(x.slice, ast.Constant)}
        cond_read = read - {"trial_id", "state", "values"}
        if not cond_read <= written:
            bad.append((s, sorted(cond_read - written)))
    ctx.check(not bad, "R01.6", h.short, "conditional-keys-agree",
              message=f"for requested state(s) {bad} the handler reads timestamp keys the producer does not write", how="for each of the 5 states: keys read by the handler were written by the producer")


# ------------------------------------------------------------------------------------------------
def documented_raises(func) -> set[str]:
    doc = ast.get_docstring(func.node) or ""
    if "Raises:" not in doc:
        return set()
    tail = doc.split("Raises:", 1)[1]
    return {m.split(".")[-1] for m in re.findall(r":exc:`~?([\w.]+)`", tail)}


def r01_7(ctx, p, rpc_of):
    ctx.rule("R01.7", "gRPC: documented exceptions of each method are mapped to a status code by the servicer and mapped back to the same class by the client; "
             "TrialState round trip is exhaustive and inverse")
    base, gp, sv, gc = p.cls(BASE), p.cls(GRPC), p.cls(SERVICER), p.cls(GCACHE)
    pr = protomod.load(p.repo)
    ctx.floor("R01.7", "rpcs", len(pr.rpcs), 19, exact=True)
    # rpc -> backend method (from the servicer), client method -> rpc
    n = 0
    for rpc in sorted(pr.rpcs):
        h = sv.methods.get(rpc)
        if h is None:
            ctx.fail("R01.7", sv.module.relpath + "::" + sv.name, f"handler:{rpc}", f"RPC {rpc} of api.proto has no servicer handler")
            continue
        backs = [norm(c.func).split(".")[-1] for c in own_nodes(h.node) if isinstance(c, ast.Call) and norm(c.func).startswith("self._backend.")]
        ctx.require(len(backs) == 1, f"R01.7: servicer handler {rpc} must call exactly one backend method ({backs})")
        bm = backs[0]
        doc = documented_raises(base.methods[bm]) if bm in base.methods else set()
        doc -= {"RuntimeError"}
        # servicer arms
        arms = {}
        for eh in [x for x in own_nodes(h.node) if isinstance(x, ast.ExceptHandler)]:
            for c in ast.walk(eh):
                if isinstance(c, ast.Call) and norm(c.func) == "context.abort":
                    code = kwarg(c, "code", 0)
                    for nm in handler_names(eh.type):
                        arms[nm] = norm(code).split(".")[-1] if code is not None else None
        n += 1
        ctx.check(doc <= set(arms), "R01.7", h.short, "documented-errors-mapped",
                  message=f"servicer {rpc}: documented {sorted(doc)} of {bm} but only {sorted(arms)} are mapped to a status code: the client would see StatusCode.UNKNOWN instead of the contract's error class",
                  how=f"{sorted(doc)} within {sorted(arms)}")
        # the backend call is inside the try
        # client side
        cm = [m for m, r in rpc_of.items() if r == rpc]
        cf = gp.methods.get(cm[0]) if cm else None
        if cf is None:
            for m, f in gc.methods.items():
                if any(isinstance(c, ast.Call) and norm(c.func).endswith("." + rpc) for c in own_nodes(f.node)):
                    cf = f
        ctx.require(cf is not None, f"R01.7: no client code calls RPC {rpc}")
        back = {}
        for x in own_nodes(cf.node):
            if isinstance(x, ast.If):
                a = cmp_atom(x.test)
                if a and a[0] == "e.code()" and a[1] is ast.Eq:
                    for s in x.body:
                        if isinstance(s, ast.Raise) and s.exc is not None:
                            back[a[2].split(".")[-1]] = (dotted(s.exc.func) if isinstance(s.exc, ast.Call) else dotted(s.exc) or "").split(".")[-1]
        for cls_, code in sorted(arms.items()):
            ctx.check(back.get(code) == cls_, "R01.7", cf.short, f"status-roundtrip:{rpc}:{cls_}",
                      message=f"{rpc}: servicer maps {cls_} to {code} but client {cf.name} maps {code} to {back.get(code)}: the caller gets a different error class than the contract documents",
                      how=f"{cls_} -> {code} -> {cls_}")
    ctx.count("R01.7", "rpcs_checked", n)
    # enum tables
    tsmod = p.module("optuna.trial._state")
    tcls = tsmod.classes["TrialState"]
    members = [t.id for s in tcls.node.body if isinstance(s, ast.Assign) for t in s.targets if isinstance(t, ast.Name)]
    to_t, from_t = {}, {}
    for q, table, keyside in ((SERVMOD + "._to_proto_trial_state", to_t, "TrialState"), (SERVMOD + "._from_proto_trial_state", from_t, "api_pb2")):
        f = p.func(q)
        for x in own_nodes(f.node):
            if isinstance(x, ast.If):
                a = cmp_atom(x.test)
                ret = [s for s in x.body if isinstance(s, ast.Return)]
                if a and ret and a[1] is ast.Eq:
                    table[a[2].split(".")[-1]] = norm(ret[0].value).split(".")[-1]
        ctx.check(any(isinstance(s, ast.Raise) for s in f.node.body), "R01.7", f.short, "raises-on-unknown", message=f"{f.name} has no raising default", how="final raise")
    ctx.check(set(to_t) == set(members) and set(pr.enums.get("TrialState", [])) == set(members), "R01.7", SERVMOD.replace(".", "/") + ".py::_to_proto_trial_state", "state-table-exhaustive",
              message=f"_to_proto_trial_state covers {sorted(to_t)}; TrialState has {sorted(members)}; proto enum {pr.enums.get('TrialState')}", how="all five members in code and proto")
    ctx.check(all(from_t.get(v) == k for k, v in to_t.items()) and len(from_t) == len(to_t) and all(k == v for k, v in to_t.items()), "R01.7", SERVMOD.replace(".", "/") + ".py::_from_proto_trial_state",
              "state-tables-inverse", message=f"state tables are not mutually inverse: to={to_t} from={from_t}", how="from(to(s)) == s and names agree")


# ------------------------------------------------------------------------------------------------
SANITISERS = {"list", "set", "tuple", "dict", "sorted", "frozenset", "json.loads", "_from_proto_trial", "_from_proto_trial_state", "json_to_distribution", "float", "int", "str", "bool", "len"}


def unsanitised_container_reads(expr, containers):
    """request.<container field> reads in value position not wrapped by a sanitiser."""
    out = []

    def walk(e, clean):
        if isinstance(e, ast.Call):
            d = dotted(e.func) or ""
            c2 = clean or d in SANITISERS or d.split(".")[-1] in SANITISERS
            for a in e.args:
                walk(a, c2)
            for k in e.keywords:
                walk(k.value, c2)
            if isinstance(e.func, ast.Attribute):
                walk(e.func.value, clean)
            return
        if isinstance(e, (ast.ListComp, ast.SetComp, ast.DictComp, ast.GeneratorExp)):
            return  # builds a new container
        if isinstance(e, ast.IfExp):
            walk(e.body, clean)
            walk(e.orelse, clean)
            return  # the test is not a value position
        if isinstance(e, ast.Attribute) and isinstance(e.value, ast.Name) and e.value.id == "request" and e.attr in containers:
            if not clean:
                out.append(e)
            return
        for ch in ast.iter_child_nodes(e):
            walk(ch, clean)
    walk(expr, False)
    return out


def r01_8(ctx, p, fixture=False):
    ctx.rule("R01.8", "servicer: protobuf repeated/map containers of the request never reach a backend argument unsanitised")
    sv = p.cls(SERVICER)
    pr = protomod.load(p.repo)
    n_src = 0
    for m, f in sorted(sv.methods.items()):
        ann = None
        for a in f.node.args.args:
            if a.arg == "request" and a.annotation is not None:
                ann = (dotted(a.annotation) or "").split(".")[-1]
        if ann is None or ann not in pr.messages:
            continue
        containers = pr.container_fields(ann)
        if not containers:
            continue
        defs = single_defs(f.node)
        for c in own_nodes(f.node):
            if isinstance(c, ast.Call) and norm(c.func).startswith("self._backend."):
                for a in list(c.args) + [k.value for k in c.keywords]:
                    r = resolve(a, defs, depth=3)
                    n_src += sum(1 for x in ast.walk(r) if isinstance(x, ast.Attribute) and isinstance(x.value, ast.Name) and x.value.id == "request" and x.attr in containers)
                    bad = unsanitised_container_reads(r, containers)
                    ctx.check(not bad, "R01.8", f.short, f"container-arg:{norm(a)[:30]}",
                              message=f"servicer {m} passes protobuf container `request.{bad[0].attr if bad else ''}` (via `{norm(a)}`) to {norm(c.func)}: journal backends cannot serialise it "
                                      f"and an empty container is not None", how="wrapped by list()/set()/comprehension/_from_proto_* or not a container", where=where(f, c))
    ctx.floor("R01.8", "container_reads_reaching_backend_args", n_src, 2)


# ------------------------------------------------------------------------------------------------
def r01_9(ctx, p):
    ctx.rule("R01.9", "trial number = size of the per-study sequence the trial is appended to, in the same critical section")
    f = p.func(INMEM + ".create_new_trial")
    g = CFG(f.node, name=f.qualname)
    num = [n for n in g.stmt_nodes() if n.kind == "stmt" and isinstance(n.ast, ast.Assign) and norm(n.ast.targets[0]).endswith(".number")]
    ctx.require(len(num) == 1, "R01.9: in-memory number assignment not found")
    v = num[0].ast.value
    ok = isinstance(v, ast.Call) and dotted(v.func) == "len" and norm(v.args[0]) == "self._studies[study_id].trials"
    app = [n for n in g.stmt_nodes() for c in n.calls() if isinstance(c.func, ast.Attribute) and c.func.attr == "append" and norm(c.func.value) == "self._studies[study_id].trials"]
    ok = ok and bool(app) and g.exit not in g.reachable([num[0]], avoid_nodes=app, edge_ok=NORMAL)
    ctx.check(ok, "R01.9", f.short, "number-is-list-length", message="in-memory trial number is not len(trials) of the list the trial is then appended to", how="len(E) ... E.append(trial) on every path")
    f = p.func(REPLAY + "._apply_create_trial")
    g = CFG(f.node, name=f.qualname)
    ctor = [c for c in own_nodes(f.node) if isinstance(c, ast.Call) and dotted(c.func) == "FrozenTrial"]
    nv = kwarg(ctor[0], "number") if ctor else None
    tid = kwarg(ctor[0], "trial_id") if ctor else None
    ok = nv is not None and norm(nv) == "len(self._study_id_to_trial_ids[study_id])"
    pubn = [n for n in g.stmt_nodes() if any(c is ctor[0] for c in n.calls())] if ctor else []
    app = [n for n in g.stmt_nodes() for c in n.calls() if isinstance(c.func, ast.Attribute) and c.func.attr == "append" and norm(c.func.value) == "self._study_id_to_trial_ids[study_id]"]
    ok = ok and bool(app) and bool(pubn) and g.exit not in g.reachable(pubn, avoid_nodes=app, edge_ok=NORMAL)
    ctx.check(ok, "R01.9", f.short, "number-is-list-length", message="journal trial number is not the length of the study's id list that the id is then appended to", how="len(E) ... E.append(trial_id)")
    defs = single_defs(f.node)
    ctx.check(tid is not None and norm(resolve(tid, defs)) == "len(self._trials)", "R01.9", f.short, "id-is-dict-size",
              message="journal trial id is not len(self._trials)", how="trial_id = len(self._trials)")
    f = p.func(RDB + "._get_prepared_new_trial")
    num = [n for n in own_nodes(f.node) if isinstance(n, ast.Assign) and norm(n.targets[0]) == "trial.number"]
    ctx.check(len(num) == 1 and norm(num[0].value) == "trial.count_past_trials(session)", "R01.9", f.short, "number-is-count-of-earlier",
              message="RDB trial number is not count_past_trials(session)", how="count of earlier trials of the study under the study row lock (C03)")
    cp = p.func(MODELS + ".TrialModel.count_past_trials")
    t = norm(cp.node)
    ctx.check("TrialModel.study_id == self.study_id" in t and "TrialModel.trial_id < self.trial_id" in t and "count(" in t, "R01.9", cp.short, "count-predicate",
              message="count_past_trials does not count trials of the same study with a smaller id", how="study_id == self.study_id and trial_id < self.trial_id")


# ------------------------------------------------------------------------------------------------
def r01_10(ctx, p):
    ctx.rule("R01.10", "timestamps: datetime_start set exactly for RUNNING requests, datetime_complete exactly for finished ones, in all three primary backends")
    rows = {}
    for clsq, mname, cur_texts in ((INMEM, "set_trial_state_values", None), (RDB, "set_trial_state_values", None), (REPLAY, "_apply_set_trial_state_values", None),
                                   (JOURNAL, "set_trial_state_values", None)):
        f = p.cls(clsq).methods[mname]
        g = CFG(f.node, name=f.qualname)
        curs = {norm(x) for x in own_nodes(f.node) if isinstance(x, ast.Attribute) and x.attr == "state" and norm(x.value) not in ("self",) and not norm(x.value).endswith("TrialState")}
        row = {}
        bad = []
        for s in TRIAL_STATES:
            cur = "WAITING" if s == "RUNNING" else "RUNNING"
            env = {"state": s, "__cur__": cur}
            for c in curs:
                env[c] = cur
            nodes, edges = explore(g, env, [_cas.model_updatable], return_edges=True)
            for key in ("datetime_start", "datetime_complete"):
                stamps = [n for n in nodes if n.kind == "stmt" and isinstance(n.ast, ast.Assign) and any(
                    (isinstance(t, ast.Attribute) and t.attr == key) or (isinstance(t, ast.Subscript) and isinstance(t.slice, ast.Constant) and t.slice.value == key)
                    for t in n.ast.targets)]
                hit = bool(stamps)
                want = (s == "RUNNING") if key == "datetime_start" else (s in FINISHED)
                row[(s, key)] = hit
                if hit != want:
                    bad.append((s, key, hit))
                elif want:
                    # ... and on *every* path of a successful transition, whatever else is stored in the trial
                    ok_edge = lambda a, k, b, edges=edges: (a, k, b) in edges and k not in ("e", "reraise")  # noqa: E731
                    if g.exit in g.reachable([g.entry], avoid_nodes=stamps, edge_ok=ok_edge):
                        bad.append((s, key, "only on some paths"))
        rows[f.short] = {f"{s}:{k}": v for (s, k), v in row.items()}
        ctx.check(not bad, "R01.10", f.short, "timestamps-by-state",
                  message=f"{f.name}: timestamp assignment disagrees with the contract for {bad} (state, field, assigned?)",
                  how="explored for each of the 5 requested states: start iff RUNNING, complete iff finished")
    ctx.note("timestamp_rows", rows)


# ------------------------------------------------------------------------------------------------
def r01_11(ctx, p):
    ctx.rule("R01.11", "distribution JSON: _asdict() key set = constructor parameter names for every class in DISTRIBUTION_CLASSES; every concrete subclass is listed")
    mod = p.module("optuna.distributions")
    listed = []
    for n in mod.tree.body:
        if isinstance(n, ast.Assign) and any(isinstance(t, ast.Name) and t.id == "DISTRIBUTION_CLASSES" for t in n.targets):
            listed = [x.id for x in n.value.elts]
    base = mod.classes["BaseDistribution"]
    concrete = [c.name for c in p.subclasses(base) if c.module is mod]
    ctx.check(set(concrete) == set(listed), "R01.11", mod.relpath, "all-classes-listed",
              message=f"DISTRIBUTION_CLASSES {sorted(listed)} != concrete subclasses {sorted(concrete)}: json_to_distribution cannot parse what distribution_to_json writes",
              how="sets equal")

    def init_attr_keys(c):
        """attribute names assigned as self.X / self._X in the __init__ chain."""
        keys = []
        for k in p.mro(c):
            init = k.methods.get("__init__")
            if init is None:
                continue
            own = [self_attr(t) for n in own_nodes(init.node) if isinstance(n, (ast.Assign, ast.AnnAssign)) for t in (n.targets if isinstance(n, ast.Assign) else [n.target]) if self_attr(t)]
            keys += own
            if not any(isinstance(x, ast.Call) and isinstance(x.func, ast.Attribute) and x.func.attr == "__init__" for x in own_nodes(init.node)):
                break
        return set(keys)
    for name in listed:
        c = mod.classes[name]
        keys = init_attr_keys(c)
        f = p.lookup_method(c, "_asdict")
        popped, added = set(), set()
        if f is not None and f.cls is not base:
            for x in own_nodes(f.node):
                if isinstance(x, ast.Call) and isinstance(x.func, ast.Attribute) and x.func.attr == "pop" and x.args and isinstance(x.args[0], ast.Constant):
                    popped.add(x.args[0].value)
                if isinstance(x, ast.Assign):
                    for t in x.targets:
                        if isinstance(t, ast.Subscript) and isinstance(t.slice, ast.Constant):
                            added.add(t.slice.value)
        out = (keys - popped) | added
        init = p.lookup_method(c, "__init__")
        params = set(init.params()[1:])
        ctx.check(out == params, "R01.11", c.module.relpath + "::" + c.name, "asdict-keys-equal-ctor-params",
                  message=f"{name}: _asdict() yields keys {sorted(out)} but the constructor takes {sorted(params)}: json_to_distribution(cls(**attributes)) fails or drops a field",
                  how=f"{sorted(out)} == {sorted(params)}")
    ctx.floor("R01.11", "distribution_classes", len(listed), 8, exact=True)


# ------------------------------------------------------------------------------------------------
def r01_13(ctx, p):
    ctx.rule("R01.13", "every primary backend checks distribution compatibility on the parameter-write path before the write, for every "
             "caller/replayer (an incompatible set_trial_param is rejected with the same error class everywhere)")
    sites = [
        (INMEM + ".set_trial_param", lambda c: (dotted(c.func) or "").endswith("check_distribution_compatibility"),
         lambda n: any(self_attr(c.func) == "_set_trial" for c in n.calls())),
        (REPLAY + "._apply_set_trial_param", lambda c: (dotted(c.func) or "").endswith("check_distribution_compatibility"),
         lambda n: n.kind == "stmt" and isinstance(n.ast, ast.Assign) and any(isinstance(t, ast.Subscript) and self_attr(t.value) == "_trials" for t in n.ast.targets)),
        (MODELS + ".TrialParamModel.check_and_add", lambda c: isinstance(c.func, ast.Attribute) and c.func.attr == "_check_compatibility_with_previous_trial_param_distributions",
         lambda n: any(norm(c.func) == "session.add" for c in n.calls())),
        (MODELS + ".TrialParamModel._check_compatibility_with_previous_trial_param_distributions",
         lambda c: (dotted(c.func) or "").endswith("check_distribution_compatibility"), None),
    ]
    for q, is_check, is_write in sites:
        f = p.func(q)
        g = CFG(f.node, name=f.qualname)
        checks = [n for n in g.stmt_nodes() if any(is_check(c) for c in n.calls())]
        ctx.check(bool(checks), "R01.13", f.short, "compatibility-check-present",
                  message=f"{f.name} no longer checks distribution compatibility with earlier trials of the study", how="check call present")
        if not checks:
            continue
        # reachable for a replayer that did not issue the record / for any caller
        def atom_issuer(e):
            if isinstance(e, ast.Call) and self_attr(e.func) == "_is_issued_by_this_worker":
                return True
            return None
        issuer_true = [(t, k, m) for t in g.stmt_nodes() if t.kind == "test" for k, m in t.succ if edges_where(t.expr, atom_issuer).get(k) is True]
        r = g.reachable([g.entry], avoid_edges=issuer_true)
        ctx.check(any(c in r for c in checks), "R01.13", f.short, "check-not-issuer-only",
                  message=f"{f.name} runs the compatibility check only for the worker that issued the record: every other worker applies an incompatible "
                          f"parameter that the issuer (and every other backend) rejects with ValueError", how="check reachable without taking an issuer-true edge")
        if is_write is not None:
            writes = [n for n in g.stmt_nodes() if is_write(n)]
            ctx.require(writes, f"R01.13: write statement of {q} not found")
            # the write is not reachable from entry on a path that bypasses the region containing the check when a previous
            # parameter of that name exists: approximated by 'some check can reach every write'
            ok = all(any(w in g.reachable([c]) for c in checks) for w in writes)
            ctx.check(ok, "R01.13", f.short, "check-precedes-write", message=f"{f.name}: the compatibility check does not precede the parameter write", how="check reaches the write")
    # what the check compares against covers the parameters of template trials too: RDB compares with the rows of every earlier trial, the
    # journal loops over all earlier trials of the study; the in-memory backend keeps a per-study table that only set_trial_param filled -
    # so every field of InMemoryStorage that the check in set_trial_param reads must also be written on the template path of create_new_trial
    imset = p.func(INMEM + ".set_trial_param")
    checked_tables = set()
    for c in own_nodes(imset.node):
        if isinstance(c, ast.Call) and (dotted(c.func) or "").endswith("check_distribution_compatibility"):
            for a in c.args:
                for x in ast.walk(a):
                    if isinstance(x, ast.Attribute) and isinstance(x.ctx, ast.Load) and x.attr not in ("_studies",) and "self._studies" in norm(x.value):
                        checked_tables.add(x.attr)
    ctx.require(checked_tables, "R01.13: what in-memory set_trial_param checks a distribution against was not recognised")
    imc = p.func(INMEM + ".create_new_trial")
    written = set()
    for x in own_nodes(imc.node):
        if isinstance(x, ast.Call) and isinstance(x.func, ast.Attribute) and x.func.attr in ("setdefault", "update") and isinstance(x.func.value, ast.Attribute):
            written.add(x.func.value.attr)
        if isinstance(x, ast.Subscript) and isinstance(x.ctx, ast.Store) and isinstance(x.value, ast.Attribute):
            written.add(x.value.attr)
    for tbl in sorted(checked_tables):
        ctx.check(tbl in written, "R01.13", imc.short, f"template-distributions-enter-the-check-table:{tbl}",
                  message=f"InMemoryStorage.set_trial_param checks a new distribution against self._studies[..].{tbl}, which create_new_trial never fills for a trial "
                          f"created from a template: after add_trial / copy_study of a trial with x ~ Float(0, 1), set_trial_param('x', .., Float(0.1, 1, log=True)) is "
                          f"accepted in memory and raises ValueError on RDB and journal", how=f"create_new_trial enters the template's distributions into {tbl}")
    rdbf = p.func(RDB + "._set_trial_param_without_commit")
    ctx.check(any(isinstance(c, ast.Call) and isinstance(c.func, ast.Attribute) and c.func.attr == "check_and_add" for c in own_nodes(rdbf.node)), "R01.13", rdbf.short,
              "uses-check_and_add", message="RDB parameter write bypasses TrialParamModel.check_and_add", how="check_and_add call")


# ------------------------------------------------------------------------------------------------
def r01_14(ctx, p):
    ctx.rule("R01.14", "set_trial_state_values keeps the stored values when the call carries none: every write of values is dominated by `values is not None`")
    sites = [(INMEM + ".set_trial_state_values", "values"), (RDB + ".set_trial_state_values", "values"), (REPLAY + "._apply_set_trial_state_values", "log['values']")]
    for q, vexpr in sites:
        f = p.func(q)
        g = CFG(f.node, name=f.qualname)

        def atom(e, vexpr=vexpr):
            a = cmp_atom(e)
            if a and a[0] == vexpr and a[2] == "None":
                return True if a[1] in (ast.IsNot, ast.NotEq) else (False if a[1] in (ast.Is, ast.Eq) else None)
            return None
        acc = [(t, k, m) for t in g.stmt_nodes() if t.kind == "test" for k, m in t.succ if edges_where(t.expr, atom).get(k) is True]
        writes = []
        for n in g.stmt_nodes():
            if n.kind == "stmt" and isinstance(n.ast, ast.Assign) and any(isinstance(t, ast.Attribute) and t.attr == "values" for t in n.ast.targets):
                writes.append(n)
            for c in n.calls():
                if self_attr(c.func) == "_set_trial_value_without_commit":
                    writes.append(n)
        ctx.require(writes, f"R01.14: value write not found in {q}")
        ok = bool(acc) and all(g.dominated_by(w, [], acc) for w in writes)
        ctx.check(ok, "R01.14", f.short, "values-kept-when-none-given",
                  message=f"{f.name} overwrites the stored objective values even when the call carries values=None: a later state-only update "
                          f"(e.g. RUNNING -> COMPLETE for a trial that already has values) erases them in this backend only",
                  how="value write dominated by the `values is not None` edge", witness=g.witness(writes, edges=acc))


def r01_15(ctx, p):
    ctx.rule("R01.15", "a rejected set_trial_state_values (returns False) has written nothing: no `return False` is reachable from a write of the trial")
    sites = [(INMEM + ".set_trial_state_values",), (RDB + ".set_trial_state_values",), (REPLAY + "._apply_set_trial_state_values",)]
    for (q,) in sites:
        f = p.func(q)
        g = CFG(f.node, name=f.qualname)
        writes = []
        for n in g.stmt_nodes():
            if n.kind == "stmt" and isinstance(n.ast, (ast.Assign, ast.AugAssign)):
                tg = n.ast.targets if isinstance(n.ast, ast.Assign) else [n.ast.target]
                if any(isinstance(t, ast.Attribute) and t.attr in ("state", "values", "datetime_start", "datetime_complete") and not isinstance(t.value, ast.Name) is False
                       and norm(t.value) != "self" for t in tg):
                    writes.append(n)
            for c in n.calls():
                if self_attr(c.func) in ("_set_trial_value_without_commit", "_set_trial"):
                    writes.append(n)
        ctx.require(writes, f"R01.15: trial write not found in {q}")
        after = g.reachable([m for w in writes for k, m in w.succ if k not in ("e", "reraise")], edge_ok=lambda a, k, b: k not in ("e", "reraise"))
        rej = [n for n in g.stmt_nodes() if n.kind == "stmt" and isinstance(n.ast, ast.Return) and isinstance(n.ast.value, ast.Constant) and n.ast.value.value is False]
        # the journal handler returns None; its rejection is the early `return` on the RUNNING->RUNNING branch
        if not rej:
            rej = [n for n in g.stmt_nodes() if n.kind == "stmt" and isinstance(n.ast, ast.Return) and n.ast.value is None]
        bad = [n for n in rej if n in after]
        ctx.check(not bad, "R01.15", f.short, "rejected-request-writes-nothing",
                  message=f"{f.name}: a rejecting return (line {bad[0].ast.lineno if bad else 0}) is reachable after the trial was written "
                          f"(`{norm(writes[0].ast)[:50] if writes[0].kind == 'stmt' else ''}` ...): the caller is told nothing changed while this backend has stored the values",
                  how="no write node reaches `return False`", witness=g.witness(bad, src=writes[0]) if bad else None)


# ------------------------------------------------------------------------------------------------
KEY_COLUMNS = {"trial_id", "study_id", "key", "step", "objective", "param_name"}
UPSERT_EXEMPT = {"record_heartbeat": "a new heartbeat row takes the column's server-side default timestamp; only the update writes it explicitly"}


def r01_12(ctx, p):
    ctx.rule("R01.12", "RDB upserts: the insert arm and the update arm write the same value columns with the same expressions (writes overwrite by key)")
    rdb = p.cls(RDB)
    n = 0
    for mname, f in sorted(rdb.methods.items()):
        g = None
        for t_ast in [x for x in own_nodes(f.node) if isinstance(x, ast.If)]:
            a = cmp_atom(t_ast.test)
            if not (a and a[2] == "None" and a[1] in (ast.Is, ast.IsNot)):
                continue
            var = a[0]
            ctor = [s for s in ast.walk(t_ast) if isinstance(s, ast.Assign) and norm(s.targets[0]) == var and isinstance(s.value, ast.Call)
                    and ((dotted(s.value.func) or "").startswith("models.") or norm(s.value.func) == "model_cls")]
            if not ctor:
                continue
            if mname in UPSERT_EXEMPT:
                ctx.ok("R01.12", f.short, f"upsert-exempt:{var}", how=UPSERT_EXEMPT[mname], nontrivial=False)
                continue
            if g is None:
                g = CFG(f.node, name=f.qualname)
            tn = [x for x in g.nodes_of(t_ast) if x.kind == "test"]
            if not tn:
                continue
            tnode = tn[0]
            none_edge = "t" if a[1] is ast.Is else "f"
            cols = {}
            for kind, label in ((none_edge, "insert"), ("f" if none_edge == "t" else "t", "update")):
                starts = [m for k, m in tnode.succ if k == kind]
                reach = g.reachable(starts, edge_ok=NORMAL)
                d = {}
                for nd in reach:
                    if nd.kind == "stmt" and isinstance(nd.ast, ast.Assign):
                        if label == "insert" and nd.ast in ctor:
                            for kw in nd.ast.value.keywords:
                                if kw.arg and kw.arg not in KEY_COLUMNS:
                                    d[kw.arg] = norm(kw.value)
                        for tg in nd.ast.targets:
                            if isinstance(tg, ast.Attribute) and norm(tg.value) == var and tg.attr not in KEY_COLUMNS:
                                d[tg.attr] = norm(nd.ast.value)
                cols[label] = d
            n += 1
            ctx.check(cols["insert"] == cols["update"] and bool(cols["insert"]), "R01.12", f.short, f"upsert-arms-agree:{var}",
                      message=f"RDBStorage.{mname}: a new `{var}` row gets {cols['insert']} but an existing one is updated with {cols['update']}: "
                              f"overwriting a key leaves part of the old value behind (read back differs from the last write)",
                      how=f"both arms write {sorted(cols['insert'])}", where=where(f, t_ast))
    ctx.floor("R01.12", "upsert_sites", n, 5)
    # every row of a table with a (owner, key) uniqueness constraint that a setter inserts sits in the `existing row is None` arm of a
    # look-up of the same table: a bare insert makes the second write of a key fail on the constraint (and the failure is swallowed as a
    # "timing issue"), i.e. the first value stays while every other backend returns the last one
    mmod = p.module("optuna.storages._rdb.models")
    keyed = set()
    for c in mmod.classes.values():
        for st in c.node.body:
            tg = st.targets[0] if isinstance(st, ast.Assign) else (st.target if isinstance(st, ast.AnnAssign) else None)
            if tg is not None and norm(tg) == "__table_args__" and st.value is not None and "UniqueConstraint" in norm(st.value):
                keyed.add(c.name)
    ctx.require(len(keyed) >= 8, f"R01.12: unique-keyed model classes not recognised ({sorted(keyed)})")
    n_ins = 0
    for mname, f in sorted(rdb.methods.items()):
        pm = parent_map(f.node)
        fresh_owner = any(isinstance(c, ast.Call) and (dotted(c.func) or "") in ("models.StudyModel", "models.TrialModel") for c in own_nodes(f.node))
        for c in own_nodes(f.node):
            if not (isinstance(c, ast.Call) and (dotted(c.func) or "").startswith("models.") and (dotted(c.func) or "").split(".")[-1] in keyed):
                continue
            n_ins += 1
            if fresh_owner:
                ctx.ok("R01.12", f.short, f"keyed-insert:{dotted(c.func)}", how="rows of an owner created in the same call: no earlier row can exist", nontrivial=False)
                continue
            model = dotted(c.func).split(".")[-1]
            guarded = False
            for a in ancestors(c, pm):
                if isinstance(a, ast.If):
                    at = cmp_atom(a.test)
                    if at and at[2] == "None" and at[1] in (ast.Is, ast.IsNot):
                        arm = a.body if at[1] is ast.Is else a.orelse
                        in_arm = any(c is y for s_ in arm for y in ast.walk(s_))
                        looked_up = any(isinstance(s_, ast.Assign) and norm(s_.targets[0]) == at[0] and isinstance(s_.value, ast.Call) and model in norm(s_.value.func)
                                        for s_ in own_nodes(f.node))
                        if in_arm and looked_up:
                            guarded = True
            ctx.check(guarded, "R01.12", f.short, f"keyed-insert-has-update-arm:{model}",
                      message=f"RDBStorage.{mname} inserts a {model} row without first looking the key up: the second write of the same key violates the table's "
                              f"UniqueConstraint, the IntegrityError is swallowed by the session scope, and the first value stays - in-memory and journal return "
                              f"the last one (writes do not overwrite by key)",
                      how="constructor inside the `<looked-up row> is None` arm; the other arm updates the row", where=where(f, c))
    ctx.floor("R01.12", "keyed_insert_sites", n_ins, 6)


# ------------------------------------------------------------------------------------------------
def run(ctx):
    p: Program = ctx.program
    ctx.explanation = (
        "Behavioural equivalence of five storage implementations over all call histories is not "
        "statically decidable; what is decided is that each backend carries the mechanisms the "
        "documented contract names, on every path, and that sibling implementations and "
        "writer/reader pairs agree: interface completeness and signatures; the finished-trial guard "
        "dominating every trial write (pure delegation in the wrappers); WAITING->RUNNING "
        "compare-and-set (25 state pairs per backend); delete completeness of every container / SQL "
        "cascade; template field coverage in every writer and reader; journal op-code producer/"
        "handler/key agreement; gRPC status-code round trips against the documented Raises "
        "sections and enum tables; protobuf container hygiene at the servicer; trial-number "
        "allocation; timestamp assignment per requested state; distribution JSON key agreement. "
        "Does not decide equality of returned values across backends for arbitrary histories, "
        "NaN/inf fidelity of the encodings, or insert-vs-upsert differences.")
    ctx.assume("the docstrings of BaseStorage are the documented contract (Raises sections parsed)")
    r01_1(ctx, p)
    rpc_of = r01_2(ctx, p)
    ctx.rule("R01.3", "WAITING->RUNNING compare-and-set and finished guard in the three primary backends (finite-domain exploration)")
    _cas.cas_rule(ctx, "R01.3")
    r01_4(ctx, p)
    r01_5(ctx, p)
    r01_6(ctx, p)
    r01_7(ctx, p, rpc_of)
    r01_8(ctx, p)
    r01_9(ctx, p)
    r01_10(ctx, p)
    r01_11(ctx, p)
    r01_12(ctx, p)
    r01_13(ctx, p)
    r01_14(ctx, p)
    r01_15(ctx, p)
    r01_16(ctx, p)
    r01_17(ctx, p)
    r01_20(ctx, p)
    ctx.rule("R01.19", "get_all_trials hands the trials back in trial-number order on every backend: the two dict-backed caches sort by number, the RDB query orders by trial id")
    from rules.c08 import sorted_by_number
    for q in ("optuna.storages._cached_storage._CachedStorage", "optuna.storages._grpc.client.GrpcClientCache"):
        sorted_by_number(ctx, "R01.19", p.cls(q))
    gt = p.func(RDB + "._get_trials")
    runs_ = [c for c in own_nodes(gt.node) if isinstance(c, ast.Call) and isinstance(c.func, ast.Attribute) and c.func.attr == "all" and "TrialModel" in norm(c)]
    ctx.require(runs_, "R01.19: RDBStorage._get_trials no longer runs a TrialModel query")
    for c in runs_:
        ctx.check(".order_by(models.TrialModel.trial_id)" in norm(c) or ".order_by(models.TrialModel.number)" in norm(c), "R01.19", gt.short, "rdb-query-ordered",
                  message=f"RDBStorage._get_trials runs `{norm(c)[:70]}` without ordering by trial id: the database may return rows in any order, the other backends "
                          f"return number order", how=".order_by(models.TrialModel.trial_id)", where=where(gt, c))
    ctx.rule("R01.18", "an id names exactly one object: JournalStorage.create_new_study returns the id of the study found by the name its own record carried")
    from rules.c03 import create_study_returns_named
    create_study_returns_named(ctx, "R01.18")


def r01_20(ctx, p):
    """Journal replay of SET_TRIAL_STATE_VALUES stores what was written for every accepted request.

    The public method answers True for every request on an unfinished trial except a RUNNING request that
    finds the trial RUNNING (the failed claim).  For each other (requested, stored) pair the handler must
    reach the store into the trial table: a widened "state unchanged - nothing to do" early return drops
    the values of set_trial_state_values(t, WAITING, values) on a WAITING trial, which the in-memory and
    RDB backends store."""
    ctx.rule("R01.20", "journal replay stores every accepted state/values write: for each (requested, stored) pair other than the failed claim "
             "(RUNNING on RUNNING) and a finished stored state, every path of _apply_set_trial_state_values to the exit passes the store into the "
             "trial table (finite-domain exploration)")
    rcls = p.cls(REPLAY)
    f = rcls.methods.get("_apply_set_trial_state_values")
    ctx.require(f is not None, "R01.20: JournalStorageReplayResult._apply_set_trial_state_values vanished")
    g = CFG(f.node, name=f.qualname)
    stores = [n for n in g.stmt_nodes() if n.kind == "stmt" and isinstance(n.ast, ast.Assign)
              and any(isinstance(t, ast.Subscript) and self_attr(t.value) == "_trials" for t in n.ast.targets)]
    ctx.floor("R01.20", "trial_table_stores", len(stores), 1)
    cur_texts = {norm(x) for x in own_nodes(f.node) if isinstance(x, ast.Attribute) and x.attr == "state"
                 and norm(x.value) not in ("self",) and not norm(x.value).endswith("TrialState")}
    n_pairs = 0
    for cur in TRIAL_STATES:
        if cur in FINISHED:
            continue
        for req in TRIAL_STATES:
            if req == "RUNNING" and cur == "RUNNING":
                continue
            n_pairs += 1
            env = {"state": req, "__cur__": cur}
            for ct in cur_texts:
                env[ct] = cur
            nodes, edges = explore(g, env, [_cas.model_updatable], return_edges=True)
            ok_edge = lambda a, k, b: (a, k, b) in edges and k not in ("e", "reraise")  # noqa: E731
            r = g.reachable([g.entry], avoid_nodes=stores, edge_ok=ok_edge)
            ctx.check(g.exit not in r, "R01.20", f.short, f"accepted-write-is-stored:{req}-on-{cur}",
                      message=f"replaying set_trial_state_values(state={req}) on a trial that is {cur} can return without storing the trial: the public method "
                              f"answered True, the in-memory and RDB backends store the state and the values, every journal reader sees the old trial",
                      how="explored with the requested and the stored state fixed: the exit is reachable only through `self._trials[trial_id] = trial`")
    ctx.count("R01.20", "state_pairs", n_pairs)
