"""C02 - every trial run by optimize/tell ends in a well-formed terminal state."""
from __future__ import annotations

import ast

from sa import absint as AI
from sa.absint import Interp, NONE, RAW, TRIALOBJ, INTV, LIST_FLOAT, VALIDATED, TRUE, FALSE, enum_av, is_enum
from sa.cfg import CFG, handler_names
from sa.expr import cmp_atom, edges_where, resolve, single_defs
from sa.loader import Program, dotted, norm, own_nodes
from sa.util import kwarg, parent_map, self_attr, where, ancestors

PROPERTY = "C02"
OPT = "optuna.study._optimize"
TELL = "optuna.study._tell"
NORMAL = lambda a, k, b: k not in ("e", "reraise", "match", "nomatch")  # noqa: E731
UNTRUSTED_ANY = {"Exception", "KeyboardInterrupt"}


class C02Interp(Interp):
    def untrusted_call(self, call, env):
        f = call.func
        if isinstance(f, ast.Name) and f.id == "func":
            return {"TrialPruned", "Exception", "KeyboardInterrupt"}
        if isinstance(f, ast.Attribute) and f.attr in ("after_trial",):
            return set(UNTRUSTED_ANY)
        if isinstance(f, ast.Name) and "callback" in f.id:
            return set(UNTRUSTED_ANY)
        return None

    def is_store(self, call):
        f = call.func
        return isinstance(f, ast.Attribute) and f.attr == "set_trial_state_values" and (dotted(f.value) or "").endswith("_storage")

    def edge_effect(self, node, kind, stored):
        # a trial that `ask` handed out is RUNNING; if the storage now says otherwise somebody
        # (the objective itself via study.tell, or a stale-trial sweep) already stored a terminal
        # state for it.  WAITING cannot recur (no writer assigns WAITING, C04 R04.3).
        t = norm(node.expr) if node.kind == "test" else ""
        if t == "frozen_trial.state != TrialState.RUNNING" and kind == "t":
            return True
        if t.startswith("frozen_trial.state.is_finished()") and kind == "t":
            return True
        return stored

    def post_call(self, callee_name, call, outcome, env):
        # sanitiser: `_check_values_are_feasible(study, X)` returning None means every element of X
        # is float-convertible, not NaN, and there is one per objective (proved structurally by the
        # three "None-means-..." obligations of R02.1)
        if callee_name == "_check_values_are_feasible" and outcome.value == NONE and len(call.args) > 1 and isinstance(call.args[1], ast.Name):
            env = dict(env)
            env[call.args[1].id] = VALIDATED
        return env

    def ev(self, e, env, calls):
        if isinstance(e, ast.List) and len(e.elts) == 1 and id(e) in getattr(self, "_validated_lists", ()):
            return VALIDATED
        # the objective's return value
        if isinstance(e, ast.Call) and isinstance(e.func, ast.Name) and e.func.id == "func":
            return RAW
        return super().ev(e, env, calls)


def run(ctx):
    p: Program = ctx.program
    ctx.explanation = (
        "Finalisation-path obligation decided by abstract interpretation of _run_trial with "
        "_tell_with_warning, _check_state_and_values, _check_values_are_feasible and "
        "_get_frozen_trial inlined: from the statement after `trial = study.ask()` every exit of "
        "_run_trial (return or propagating exception) is preceded by a call of "
        "<storage>.set_trial_state_values, under an explicit may-raise model - the objective, the "
        "sampler's after_trial and callbacks may raise any Exception/KeyboardInterrupt; "
        "float/int/math.isnan/len/arithmetic/comparison/subscript on a value that derives from the "
        "objective's return value raise their documented exception classes; trusted internals do "
        "not raise. Values are tracked structurally (None / raw / sequence of raw / validated / "
        "floats / TrialState member). Also decided: the (state, values) pairs that can reach the "
        "store for every combination of tell() arguments, that tell never stores for a finished "
        "trial, that the non-caught exception is re-raised after the store, and the loop "
        "accounting of _optimize_sequential. Does not decide numeric equality of stored floats, "
        "user Sequence subclasses whose __len__/__iter__ raise, or sampler failures inside ask().")
    ctx.assume("storage calls, logging and copy do not raise (storage failures are out of C02's scope)")
    ctx.assume("is / is None / isinstance / repr / f-string formatting of an arbitrary object do not raise; len() and iteration of an "
               "object that passed isinstance(.., Sequence) do not raise")
    ctx.assume("a trial handed out by ask() whose stored state is no longer RUNNING has already been given a terminal state "
               "(nothing writes WAITING: C04 R04.3)")

    run_trial = p.func(OPT + "._run_trial")
    inline = {n: p.func(TELL + "." + n) for n in ("_tell_with_warning", "_check_state_and_values", "_check_values_are_feasible", "_get_frozen_trial")}
    # every other module-level helper of the tell module is explored in place as well, so that splitting
    # _tell_with_warning into helpers does not hide a path from the exploration
    for q, fn in p.funcs.items():
        if q.startswith(TELL + ".") and q.count(".") == TELL.count(".") + 1 and fn.name not in inline:
            inline[fn.name] = fn

    # ------------------------------------------------------------ R02.1
    ctx.rule("R02.1", "store on every path: abstract exploration of _run_trial (callees inlined) from after ask() to every exit")
    it = C02Interp(p, inline)
    g = it.cfg_of(run_trial)
    asks = [n for n in g.stmt_nodes() if n.kind == "stmt" and isinstance(n.ast, ast.Assign) and isinstance(n.ast.value, ast.Call) and norm(n.ast.value.func) == "study.ask"]
    ctx.require(len(asks) == 1, "R02.1: `trial = study.ask()` not found in _run_trial")
    tvar = asks[0].ast.targets[0].id
    start = [m for k, m in asks[0].succ if k == "n"]
    ctx.require(len(start) == 1, "R02.1: region entry not found")
    outs = it.explore(run_trial, {tvar: TRIALOBJ}, False, start[0])
    ctx.floor("R02.1", "explored_states", it.n_states, 300)
    ctx.floor("R02.1", "distinct_exit_outcomes", len(outs), 4)
    bad = [o for o in outs if not o.stored]
    seen = set()
    for o in bad:
        # the construct: the deepest frame where the escaping operation sits = last trace entry
        # outside _optimize.py if any
        inner = [t for t in o.trace if not t.startswith("optuna/study/_optimize.py")]
        site = inner[-1] if inner else (o.trace[-1] if o.trace else "?")
        key = (o.kind, o.exc, site.split(":")[0])
        if key in seen:
            continue
        seen.add(key)
        fn = _func_at(p, site)
        ctx.fail("R02.1", fn, f"exit-without-store:{o.kind}:{o.exc or ''}",
                 f"_run_trial can {'raise ' + str(o.exc) if o.kind == 'raise' else 'return'} without any set_trial_state_values call "
                 f"after the objective received the trial: the trial is left RUNNING",
                 witness=" -> ".join(o.trace[-14:]), where=site)
    if not bad:
        ctx.ok("R02.1", run_trial.short, "every-exit-after-store", how=f"{len(outs)} exit outcomes over {it.n_states} abstract states, all with the store executed")
    ctx.note("exit_outcomes", sorted({f"{o.kind}:{o.exc or o.value}:stored={o.stored}" for o in outs}))
    ctx.note("operations_assumed_total", sorted(it.total_assumed))
    # the sanitiser really is total on arbitrary input and means what the caller assumes
    chk = inline["_check_values_are_feasible"]
    for arg in (AI.SEQ_RAW, AI.LIST_RAW):
        it2 = C02Interp(p, inline)
        res = it2.explore(chk, {"values": arg}, False)
        esc = sorted({o.exc for o in res if o.kind == "raise"})
        ctx.check(not esc, "R02.1", chk.short, f"sanitiser-total:{arg}",
                  message=f"_check_values_are_feasible can raise {esc} on an arbitrary objective value ({arg}) instead of returning a message: "
                          f"optimize dies before the trial is failed", how="no exception escapes for a sequence of arbitrary objects",
                  witness=" -> ".join(next(o.trace for o in res if o.kind == "raise")[-8:]) if esc else None)
        vals = {o.value for o in res if o.kind == "return"}
        ctx.check(vals <= {NONE, AI.STR} and NONE in vals, "R02.1", chk.short, f"sanitiser-returns-message-or-None:{arg}",
                  message=f"_check_values_are_feasible returns {sorted(vals)}", how="str message or None")
    # meaning of `None`: every element went through float() and the nan test, and the count matches
    gc = CFG(chk.node, name=chk.qualname)
    heads = [n for n in gc.stmt_nodes() if n.kind == "iter" and norm(n.expr[0]) == "values"]
    if len(heads) != 1:
        ctx.fail("R02.1", chk.short, "None-means-every-element-floatable",
                 "_check_values_are_feasible does not iterate over all of `values` (loops: "
                 + ", ".join(norm(n.expr[0]) for n in gc.stmt_nodes() if n.kind == "iter") + "): unchecked elements could be stored as COMPLETE")
        heads = [n for n in gc.stmt_nodes() if n.kind == "iter"]
        ctx.require(heads, "R02.1: element loop of _check_values_are_feasible not found")
    h = heads[0]
    lv = h.expr[1].id if isinstance(h.expr[1], ast.Name) else None
    body0 = [m for k, m in h.succ if k == "loop"]
    defs_loop = {}
    for st_ in ast.walk(h.ast):
        if isinstance(st_, ast.Assign) and len(st_.targets) == 1 and isinstance(st_.targets[0], ast.Name):
            defs_loop[st_.targets[0].id] = st_.value
    conv = [n for n in gc.stmt_nodes() for c in n.calls() if dotted(c.func) == "float" and c.args and norm(c.args[0]) == lv]
    h_out = [(h, k, m) for k, m in h.succ]
    conv_ok = [(n, k, m) for n in conv for k, m in n.succ if k != "e"]  # float() succeeded
    r = gc.reachable(body0, avoid_edges=conv_ok + h_out)
    ctx.check(bool(conv) and h not in r, "R02.1", chk.short, "None-means-every-element-floatable",
              message="an element can pass the loop of _check_values_are_feasible without float() having succeeded on it: COMPLETE could be stored "
                      "with values that are not float-convertible", how="every normal path through the loop body passes float(<element>)")

    def atom_nan(e):
        if isinstance(e, ast.Call) and dotted(e.func) == "math.isnan" and e.args:
            a = norm(resolve(e.args[0], defs_loop))
            if a in (f"float({lv})", lv):
                return True
        return None
    nan_rej = []
    for t in gc.stmt_nodes():
        if t.kind == "test":
            pol = edges_where(resolve(t.expr, defs_loop), atom_nan)
            for k, m in t.succ:
                if pol.get(k) is False:
                    nan_rej.append((t, k, m))
    r = gc.reachable(body0, avoid_edges=nan_rej + h_out)
    ctx.check(bool(nan_rej) and h not in r, "R02.1", chk.short, "None-means-no-NaN",
              message="an element can pass the loop without the NaN test: a NaN value could be stored as COMPLETE", how="every normal path through the loop body takes the not-NaN edge")

    def atom_len(e):
        a = cmp_atom(e)
        if a and {a[0], a[2]} == {"len(study.directions)", "len(values)"}:
            return True if a[1] is ast.NotEq else (False if a[1] is ast.Eq else None)
        return None
    acc = [(t, k, m) for t in gc.stmt_nodes() if t.kind == "test" for k, m in t.succ if edges_where(t.expr, atom_len).get(k) is False]
    none_rets = [n for n in gc.stmt_nodes() if n.kind == "stmt" and isinstance(n.ast, ast.Return) and isinstance(n.ast.value, ast.Constant) and n.ast.value.value is None]
    ctx.check(bool(acc) and bool(none_rets) and all(gc.dominated_by(n, [], acc) for n in none_rets), "R02.1", chk.short, "None-means-one-value-per-objective",
              message="_check_values_are_feasible can return None although the number of values differs from the number of objectives",
              how="`return None` dominated by len(study.directions) == len(values)")

    # ------------------------------------------------------------ R02.2 state/values coherence at the store
    ctx.rule("R02.2", "(state, values) pairs reaching the store, for every combination of tell() arguments: COMPLETE only with validated floats, "
             "FAIL with None, PRUNED with None or a validated intermediate value")
    tell = inline["_tell_with_warning"]
    combos = 0
    pairs = set()
    for st_arg in (NONE, enum_av("COMPLETE"), enum_av("PRUNED"), enum_av("FAIL"), enum_av("RUNNING"), enum_av("WAITING")):
        for val in (NONE, RAW):
            for tr in (TRIALOBJ, INTV):
                for skip in (TRUE, FALSE):
                    it3 = C02Interp(p, inline)
                    env = {"trial": tr, "value_or_values": val, "state": st_arg, "skip_if_finished": skip, "suppress_warning": FALSE}
                    env = {k: v for k, v in env.items() if v != AI.OTHER}
                    res = it3.explore(tell, env, False)
                    combos += 1
                    for (fn, s_av, v_av, wh) in it3.store_args:
                        pairs.add((s_av, v_av, wh))
                    # a normal return always comes after the store (or a skip of a finished trial)
                    for o in res:
                        if o.kind == "return" and not o.stored:
                            ctx.fail("R02.2", tell.short, "returns-without-store",
                                     f"tell(state={st_arg}, values={val}) can return without storing a terminal state", witness=" -> ".join(o.trace[-8:]))
    ctx.count("R02.2", "tell_argument_combinations", combos)
    ctx.floor("R02.2", "store_pairs", len(pairs), 3)
    okp = 0
    for s_av, v_av, wh in sorted(pairs):
        good = (s_av == enum_av("COMPLETE") and v_av == LIST_FLOAT) or (s_av == enum_av("FAIL") and v_av == NONE) or \
               (s_av == enum_av("PRUNED") and v_av in (NONE, LIST_FLOAT))
        okp += good
        ctx.check(good, "R02.2", tell.short, f"store-pair:{s_av}:{v_av}",
                  message=f"_tell_with_warning can store state={s_av} with values={v_av}: COMPLETE requires validated floats, FAIL carries no values, "
                          f"only terminal states may be stored", how="pair allowed by the contract", where=wh)
    ctx.note("store_pairs", sorted(f"{a} / {b}" for a, b, _ in pairs))
    # FAIL assignment in _run_trial happens where value_or_values is still its initial None
    grt = CFG(run_trial.node, name=run_trial.qualname)
    fails = [n for n in grt.stmt_nodes() if n.kind == "stmt" and isinstance(n.ast, ast.Assign) and norm(n.ast.targets[0]) == "state"
             and norm(n.ast.value) in ("TrialState.FAIL", "TrialState.PRUNED")]
    vassign = [n for n in grt.stmt_nodes() if n.kind == "stmt" and isinstance(n.ast, ast.Assign) and norm(n.ast.targets[0]) == "value_or_values"
               and not (isinstance(n.ast.value, ast.Constant) and n.ast.value.value is None)]
    for fnode in fails:
        r = grt.reachable([grt.entry], avoid_nodes=[])
        # reachable from a successful objective return? (normal out-edge of the func call)
        normal_succ = [m for v in vassign for k, m in v.succ if k == "n"]
        reach = grt.reachable(normal_succ)
        ctx.check(fnode not in reach, "R02.2", run_trial.short, f"state-{norm(fnode.ast.value).split('.')[-1]}-only-when-objective-raised",
                  message="_run_trial can set FAIL/PRUNED after the objective returned a value (values would be told together with a failure state)",
                  how="assignment only reachable through the exception edge of func(trial)")

    # ------------------------------------------------------------ R02.3
    ctx.rule("R02.3", "tell never alters a finished trial: the store is dominated by `frozen_trial.state == RUNNING`")
    gt = CFG(tell.node, name=tell.qualname)
    stores = [n for n in gt.stmt_nodes() for c in n.calls() if isinstance(c.func, ast.Attribute) and c.func.attr == "set_trial_state_values"]
    ctx.require(stores, "R02.3: store call vanished from _tell_with_warning")

    def atom_running(e):
        a = cmp_atom(e)
        if a and a[0] == "frozen_trial.state" and a[2] == "TrialState.RUNNING":
            return True if a[1] in (ast.Eq, ast.Is) else (False if a[1] in (ast.NotEq, ast.IsNot) else None)
        return None
    acc = [(t, k, m) for t in gt.stmt_nodes() if t.kind == "test" for k, m in t.succ if edges_where(t.expr, atom_running).get(k) is True]
    ctx.check(bool(acc) and all(gt.dominated_by(s, [], acc) for s in stores), "R02.3", tell.short, "store-only-for-running-trial",
              message="_tell_with_warning can overwrite the state/values of a trial that is not RUNNING (already finished)", how="store dominated by the RUNNING edge")
    for s in stores:
        for c in s.calls():
            if isinstance(c.func, ast.Attribute) and c.func.attr == "set_trial_state_values":
                ctx.check([norm(a) for a in c.args] == ["frozen_trial._trial_id", "state", "values"], "R02.3", tell.short, "store-arguments",
                          message=f"store called with {[norm(a) for a in c.args]}", how="(frozen_trial._trial_id, state, values)")
    ft = [n for n in own_nodes(tell.node) if isinstance(n, ast.Assign) and norm(n.targets[0]) == "frozen_trial" and "_get_frozen_trial" in norm(n.value)]
    ctx.check(len(ft) == 1, "R02.3", tell.short, "tested-trial-is-told-trial", message="the RUNNING test is not on the trial being told", how="frozen_trial = _get_frozen_trial(study, trial)")

    # ------------------------------------------------------------ R02.4
    ctx.rule("R02.4", "a non-caught objective exception is re-raised after the store; caught ones are not")
    rr = [n for n in grt.stmt_nodes() if n.kind == "stmt" and isinstance(n.ast, ast.Raise) and n.ast.exc is not None and norm(n.ast.exc) == "func_err"]
    tells = [n for n in grt.stmt_nodes() for c in n.calls() if dotted(c.func) == "_tell_with_warning"]
    ctx.check(bool(rr) and bool(tells) and all(grt.dominated_by(x, tells) for x in rr), "R02.4", run_trial.short, "reraise-after-tell",
              message="the objective's exception is not re-raised after _tell_with_warning", how="raise func_err dominated by the tell call")

    def atom_catch(e):
        if isinstance(e, ast.Call) and dotted(e.func) == "isinstance" and [norm(a) for a in e.args] == ["func_err", "catch"]:
            return True
        return None
    acc = [(t, k, m) for t in grt.stmt_nodes() if t.kind == "test" for k, m in t.succ if edges_where(t.expr, atom_catch).get(k) is False]
    ctx.check(bool(acc) and all(grt.dominated_by(x, [], acc) for x in rr), "R02.4", run_trial.short, "reraise-only-if-not-caught",
              message="an exception listed in `catch` is re-raised (or the catch test vanished)", how="raise dominated by `not isinstance(func_err, catch)`")
    # and when not caught & FAIL & func_err present the normal return is not reached
    # objective exception handlers cover Exception and KeyboardInterrupt
    hs = [h for h in own_nodes(run_trial.node) if isinstance(h, ast.ExceptHandler)]
    caught = {nm for h in hs for nm in handler_names(h.type)}
    ctx.check({"TrialPruned", "Exception", "KeyboardInterrupt"} <= caught, "R02.4", run_trial.short, "objective-exceptions-captured",
              message=f"_run_trial captures {sorted(caught)} around the objective; KeyboardInterrupt/Exception/TrialPruned must all be captured so that the trial is told",
              how="handlers present", nontrivial=False)

    # ------------------------------------------------------------ R02.6 ask(): a trial that exists is never abandoned RUNNING
    ctx.rule("R02.6", "Study.ask: once the trial exists in the storage, every exceptional exit (sampler hooks, relative sampling, fixed "
             "distributions raising) first stores a terminal state for it")
    ask = p.func("optuna.study.study.Study.ask")
    gask = CFG(ask.node, name=ask.qualname)
    ctor = [n for n in gask.stmt_nodes() for c in n.calls() if (dotted(c.func) or "").split(".")[-1] == "Trial"]
    ctx.require(ctor, "R02.6: Study.ask no longer constructs the Trial")
    stores6 = [n for n in gask.stmt_nodes() for c in n.calls() if isinstance(c.func, ast.Attribute) and c.func.attr == "set_trial_state_values"]
    # the store itself may fail (storage error): that is the storage's exception, not an abandoned trial
    # (the property speaks of Exception and KeyboardInterrupt: an arm catching both lets nothing of that kind through)
    def _ok6(a, k, b):
        if a.kind == "except" and k == "nomatch":
            hn = set(handler_names(a.ast.type))
            if "BaseException" in hn or {"Exception", "KeyboardInterrupt"} <= hn:
                return False
        return True
    r6 = gask.reachable(ctor, avoid_nodes=stores6, edge_ok=_ok6)
    ctx.check(gask.raise_exit not in r6, "R02.6", ask.short, "no-running-trial-left-by-ask",
              message="Study.ask can raise after the trial was created / claimed in the storage without storing a terminal state: when the sampler's before_trial, "
                      "infer_relative_search_space or sample_relative raises (or a fixed distribution is invalid) the trial stays RUNNING for ever - optimize() raises "
                      "with a RUNNING trial left behind",
              how="from the Trial construction on, every path to an exceptional exit passes set_trial_state_values(trial_id, FAIL)",
              witness=gask.witness([gask.raise_exit], guards=stores6, src=ctor[0], edge_ok=_ok6) if gask.raise_exit in r6 else None)
    for n in stores6:
        for c in n.calls():
            if isinstance(c.func, ast.Attribute) and c.func.attr == "set_trial_state_values":
                st6 = kwarg(c, "state", 1)
                ctx.check(st6 is not None and norm(st6).endswith("TrialState.FAIL") and c.args and norm(c.args[0]) == "trial_id", "R02.6", ask.short, "abandoned-trial-is-failed",
                          message=f"ask() stores `{norm(st6) if st6 is not None else None}` for `{norm(c.args[0]) if c.args else None}`", how="set_trial_state_values(trial_id, state=TrialState.FAIL)")

    # ------------------------------------------------------------ R02.5 loop accounting
    ctx.rule("R02.5", "_optimize_sequential: one _run_trial and one round of callbacks per iteration, callbacks on the normal continuation; "
             "i_trial incremented once before the run; n_jobs branch submits n_trials=1 per submission")
    seq = p.func(OPT + "._optimize_sequential")
    gs = CFG(seq.node, name=seq.qualname)
    heads = [n for n in gs.stmt_nodes() if n.kind == "test" and isinstance(n.ast, ast.While)]
    ctx.require(len(heads) == 1, "R02.5: main loop of _optimize_sequential not found")
    hd = heads[0]
    body0 = [m for k, m in hd.succ if k == "t"]
    runs = [n for n in gs.stmt_nodes() for c in n.calls() if dotted(c.func) == "_run_trial"]
    cbs = [n for n in gs.stmt_nodes() for c in n.calls() if isinstance(c.func, ast.Name) and c.func.id == "callback"]
    incs = [n for n in gs.stmt_nodes() if n.kind == "stmt" and isinstance(n.ast, ast.AugAssign) and norm(n.ast.target) == "i_trial"]
    ctx.require(runs and cbs and incs, "R02.5: _run_trial call / callback call / i_trial increment not found")
    # exactly one run per iteration
    for rn in runs:
        after = gs.reachable([m for k, m in rn.succ if k == "n"], avoid_nodes=[hd])
        ctx.check(not any(x in after for x in runs), "R02.5", seq.short, "one-trial-per-iteration", message="two trials can run in one loop iteration", how="no second _run_trial reachable before the loop head")
    # callbacks: dominated by the normal out-edge of _run_trial, in the same iteration, not in a handler/finally-exc copy
    run_norm = [(rn, k, m) for rn in runs for k, m in rn.succ if k == "n"]
    ok = all(gs.dominated_by(c, [], run_norm) and c.copy_kind == "normal" for c in cbs)
    r = gs.reachable(body0, avoid_nodes=[hd] + runs)
    ok = ok and not any(c in r for c in cbs)
    ctx.check(ok, "R02.5", seq.short, "callbacks-after-successful-run",
              message="callbacks can run without a completed _run_trial in that iteration (or on the exceptional path): callbacks would fire for a trial whose exception propagates, or twice",
              how="callback call dominated by the normal continuation of _run_trial within the iteration")
    pm = parent_map(seq.node)
    for c in cbs:
        in_handler = any(isinstance(a, ast.ExceptHandler) or (isinstance(a, ast.Try) and any(c.ast is s or any(x is c.ast for x in ast.walk(s)) for s in a.finalbody)) for a in ancestors(c.ast, pm))
        ctx.check(not in_handler, "R02.5", seq.short, "callbacks-not-in-handler", message="callback loop sits in an except/finally block", how="plain statement of the loop body")
    cb_loops = [n for n in gs.stmt_nodes() if n.kind == "iter" and norm(n.expr[0]) == "callbacks"]
    ctx.check(len(cb_loops) == 1, "R02.5", seq.short, "each-callback-once", message=f"callbacks iterated {len(cb_loops)} times per trial", how="single loop over callbacks")
    # ... and they DO run for every trial that _run_trial returned normally: the only way past the callback loop is
    # `callbacks is None`
    def atom_nocb(e):
        a = cmp_atom(e)
        if a and a[0] == "callbacks" and a[2] == "None":
            return True if a[1] in (ast.Is, ast.Eq) else (False if a[1] in (ast.IsNot, ast.NotEq) else None)
        return None
    none_edges = [(t, k, m) for t in gs.stmt_nodes() if t.kind == "test" for k, m in t.succ if edges_where(t.expr, atom_nocb).get(k) is True]
    starts = [m for rn in runs for k, m in rn.succ if k == "n"]
    r_skip = gs.reachable(starts, avoid_nodes=cb_loops, avoid_edges=none_edges, edge_ok=lambda a, k, b: k not in ("e", "reraise"))
    ctx.check(bool(cb_loops) and hd not in r_skip and gs.exit not in r_skip, "R02.5", seq.short, "callbacks-run-for-every-finished-trial",
              message="after _run_trial returned normally the loop can go on (or end) without running the callbacks although callbacks were given: they are skipped under "
                      "some other condition (e.g. a stop request), so a stored trial is never reported to them",
              how="from the normal continuation of _run_trial, the loop head / exit is unreachable without passing the callback loop or the `callbacks is None` edge",
              witness=gs.witness([hd, gs.exit], guards=cb_loops, edges=none_edges, src=starts[0]) if starts and (hd in r_skip or gs.exit in r_skip) else None)
    for c in cbs:
        for cc in c.calls():
            if isinstance(cc.func, ast.Name) and cc.func.id == "callback":
                ctx.check([norm(a) for a in cc.args] == ["study", "frozen_trial"], "R02.5", seq.short, "callback-arguments", message="callback not called with (study, frozen_trial)", how="(study, frozen_trial)")
    # i_trial: incremented once per iteration, before the run, under n_trials is not None, with the bound test before it
    for inc in incs:
        ctx.check(isinstance(inc.ast.op, ast.Add) and norm(inc.ast.value) == "1", "R02.5", seq.short, "counter-step", message="i_trial not incremented by 1", how="+= 1")
        r = gs.reachable([m for k, m in inc.succ if k == "n"], avoid_nodes=[hd])
        ctx.check(not any(x in r for x in incs) and any(x in r for x in runs), "R02.5", seq.short, "counter-once-before-run",
                  message="i_trial is not incremented exactly once before _run_trial in each iteration", how="increment precedes the run; no second increment")

    def atom_bound(e):
        a = cmp_atom(e)
        if a and a[0] == "i_trial" and a[2] == "n_trials":
            return True if a[1] is ast.GtE else (False if a[1] is ast.Lt else None)
        if a and a[0] == "n_trials" and a[2] == "i_trial":
            return True if a[1] is ast.LtE else (False if a[1] is ast.Gt else None)
        return None
    bt = [(t, k, m) for t in gs.stmt_nodes() if t.kind == "test" for k, m in t.succ if edges_where(t.expr, atom_bound).get(k) is False]
    brk = [(t, k, m) for t in gs.stmt_nodes() if t.kind == "test" for k, m in t.succ if edges_where(t.expr, atom_bound).get(k) is True]
    ok = bool(bt) and all(gs.dominated_by(inc, [], bt) for inc in incs)
    ok = ok and all(m.kind == "stmt" and isinstance(m.ast, ast.Break) for _, _, m in brk)
    ctx.check(ok, "R02.5", seq.short, "bound-test-strict",
              message="the n_trials bound is not `i_trial >= n_trials -> break` checked before the increment: the loop would run n_trials+1 (or n_trials-1) trials",
              how="increment dominated by the i_trial < n_trials edge; the other edge breaks")
    # n_jobs branch
    opt = p.func(OPT + "._optimize")
    subs = [c for c in own_nodes(opt.node) if isinstance(c, ast.Call) and isinstance(c.func, ast.Attribute) and c.func.attr == "submit"]
    ctx.require(len(subs) == 1, "R02.5: executor.submit call not found")
    a = [norm(x) for x in subs[0].args]
    # what is submitted is the sequential loop itself, or a sibling that runs the very same statements plus loop-free extras
    # (a specialised variant that e.g. reseeds the sampler first), with the argument bound to `n_trials` being the constant 1
    sub_ok = False
    gname = a[0] if a else ""
    if p.has_func(OPT + "." + gname):
        G = p.func(OPT + "." + gname)
        strip = lambda body: [norm(x) for x in body if not (isinstance(x, ast.Expr) and isinstance(x.value, ast.Constant))]  # noqa: E731
        sb, gb = strip(seq.node.body), strip(G.node.body)
        rest = list(gb)
        missing = []
        for x in sb:
            if x in rest:
                rest.remove(x)
            else:
                missing.append(x)
        extras_plain = all(not any(isinstance(y, (ast.While, ast.For)) or (isinstance(y, ast.Call) and dotted(y.func) == "_run_trial") for y in ast.walk(st))
                           for st in G.node.body if norm(st) in rest)
        same_loop = G is seq or (not missing and extras_plain)
        gp = G.params()
        idx = gp.index("n_trials") + 1 if "n_trials" in gp else None
        one = idx is not None and idx < len(a) and a[idx] == "1" and a[1:3] == ["study", "func"]
        sub_ok = same_loop and one
    ctx.check(sub_ok, "R02.5", opt.short, "one-trial-per-submission",
              message=f"n_jobs branch submits {a[:4]}: each submission must run exactly one trial of the sequential loop", how="executor.submit(<the sequential loop>, study, func, 1, ...)")
    go = CFG(opt.node, name=opt.qualname)

    def atom_sub(e):
        if isinstance(e, ast.BoolOp) and isinstance(e.op, ast.And):
            # `n_trials is not None and n_submitted_trials >= n_trials`: with a bound given, the
            # first conjunct is true, so the conjunction is the comparison
            rest = [v for v in e.values if norm(v) != "n_trials is not None"]
            if len(rest) == 1:
                return atom_sub(rest[0])
        a2 = cmp_atom(e)
        if a2 and a2[0] == "n_submitted_trials" and a2[2] == "n_trials":
            return True if a2[1] is ast.GtE else (False if a2[1] is ast.Lt else None)
        return None
    subn = [n for n in go.stmt_nodes() if any(c is subs[0] for c in n.calls())]
    acc = [(t, k, m) for t in go.stmt_nodes() if t.kind == "test" for k, m in t.succ if edges_where(t.expr, atom_sub).get(k) is False]
    heads2 = [n for n in go.stmt_nodes() if n.kind == "iter" and "itertools.count" in norm(n.expr[0])]
    ok = bool(acc) and bool(heads2)
    if ok:
        b0 = [m for k, m in heads2[0].succ if k == "loop"]
        r = go.reachable(b0, avoid_nodes=heads2, avoid_edges=acc)
        ok = not any(s in r for s in subn)
    ctx.check(ok, "R02.5", opt.short, "submission-bound", message="the n_jobs branch can submit more than n_trials trials", how="submit dominated (per iteration) by n_submitted_trials < n_trials")
    # an exception that a worker's trial did not catch reaches the caller of optimize(): every submitted future's
    # result() is taken - inside the submission loop for those that finish early, and after it for the rest
    from sa.util import parent_map as _pm2, ancestors as _anc2
    pm_o = _pm2(opt.node)
    withs = [a for a in _anc2(subs[0], pm_o) if isinstance(a, ast.With)]
    count_loops = [a for a in _anc2(subs[0], pm_o) if isinstance(a, ast.For) and "itertools.count" in norm(a.iter)]
    # the worker threads are joined before optimize() returns or raises: the pool is a `with` item (its exit waits for the running trials) -
    # a pool shut down with wait=False lets optimize() raise while a sibling trial is still inside its objective (left RUNNING for the caller)
    pools = [c for c in own_nodes(opt.node) if isinstance(c, ast.Call) and (dotted(c.func) or "").endswith("ThreadPoolExecutor")]
    ctx.require(pools, "R02.5: the n_jobs branch no longer creates a ThreadPoolExecutor")
    pool_is_with_item = any(isinstance(a, ast.With) and any(it.context_expr is pools[0] for it in a.items) for a in ast.walk(opt.node))
    no_wait = [c for c in own_nodes(opt.node) if isinstance(c, ast.Call) and isinstance(c.func, ast.Attribute) and c.func.attr == "shutdown"
               and any(k.arg == "wait" and isinstance(k.value, ast.Constant) and k.value.value is False for k in c.keywords)]
    ctx.check(pool_is_with_item and not no_wait, "R02.5", opt.short, "workers-joined-before-optimize-leaves",
              message="the n_jobs branch does not wait for its worker threads on every way out (the pool is not a `with` item, or is shut down with wait=False): when one "
                      "trial raises an exception that is not caught - or the main thread is interrupted - optimize() raises while sibling trials are still running, so "
                      "the caller finds trials in state RUNNING",
              how="`with ThreadPoolExecutor(...) as executor:` around the submission loop (exit joins the workers)",
              where=where(opt, (no_wait or pools)[0]))
    if not withs:
        withs = [a for a in _anc2(subs[0], pm_o) if isinstance(a, ast.Try)]
    ctx.require(withs and count_loops, "R02.5: executor block / submission loop not found")
    w, cl = withs[0], count_loops[0]
    fut_names = {norm(c.func.value) for c in own_nodes(opt.node) if isinstance(c, ast.Call) and isinstance(c.func, ast.Attribute) and c.func.attr == "add"
                 and any(x is subs[0] for x in ast.walk(c))}
    odefs = single_defs(opt.node)

    def drains(loop):
        if not isinstance(loop.target, ast.Name):
            return False
        it = norm(loop.iter)
        src_ok = it in fut_names or any(fn_ in norm(resolve(loop.iter, odefs)) for fn_ in fut_names) or \
            any(isinstance(n, (ast.Assign,)) and any(loop.iter is not None and isinstance(t, (ast.Tuple, ast.Name)) and it in norm(t) for t in n.targets)
                and isinstance(n.value, ast.Call) and dotted(n.value.func) in ("wait", "concurrent.futures.wait", "as_completed") for n in own_nodes(opt.node))
        calls_result = any(isinstance(c, ast.Call) and isinstance(c.func, ast.Attribute) and c.func.attr == "result" and norm(c.func.value) == loop.target.id for c in ast.walk(loop))
        return src_ok and calls_result
    tail = w.body[w.body.index(cl) + 1:] if cl in w.body else []
    after = [n for st in tail for n in ast.walk(st) if isinstance(n, ast.For) and drains(n)]
    ctx.check(bool(after), "R02.5", opt.short, "remaining-futures-drained",
              message="the n_jobs branch takes result() only of futures that finish while more trials are being submitted: the last (up to n_jobs) futures are never asked, "
                      "so an exception that their trial did not catch is swallowed - optimize(lambda t: 1/0, n_trials=2, n_jobs=2) returns normally",
              how="after the submission loop, inside the executor block, a loop over the remaining futures calls result()")
    # sequential call forwards n_trials and callbacks unchanged
    sc = [c for c in own_nodes(opt.node) if isinstance(c, ast.Call) and dotted(c.func) == "_optimize_sequential"]
    ok = len(sc) == 1 and [norm(x) for x in sc[0].args][:6] == ["study", "func", "n_trials", "timeout", "catch", "callbacks"]
    ctx.check(ok, "R02.5", opt.short, "sequential-forwards-arguments", message="_optimize does not forward n_trials/catch/callbacks unchanged", how="positional arguments")


    # the callbacks are iterated once per trial (and by every worker thread): the Iterable the caller gave has to be materialised once,
    # before it reaches the per-trial loop - an iterator / generator is exhausted by the first trial
    go = CFG(opt.node, name=opt.qualname)
    mats = [n for n in go.stmt_nodes() if n.kind == "stmt" and isinstance(n.ast, ast.Assign) and any(isinstance(t, ast.Name) and t.id == "callbacks" for t in n.ast.targets)
            and isinstance(n.ast.value, ast.Call) and dotted(n.ast.value.func) in ("list", "tuple") and n.ast.value.args and norm(n.ast.value.args[0]) == "callbacks"]

    def atom_nocb2(e):
        a = cmp_atom(e)
        if a and a[0] == "callbacks" and a[2] == "None":
            return True if a[1] in (ast.Is, ast.Eq) else (False if a[1] in (ast.IsNot, ast.NotEq) else None)
        return None
    none_e = [(t, k, m) for t in go.stmt_nodes() if t.kind == "test" for k, m in t.succ if edges_where(t.expr, atom_nocb2).get(k) is True]
    users = [n for n in go.stmt_nodes() if any(isinstance(c, ast.Call) and (dotted(c.func) in ("_optimize_sequential",) or (isinstance(c.func, ast.Attribute) and c.func.attr == "submit"))
                                               and any(isinstance(a, ast.Name) and a.id == "callbacks" for a in c.args) for c in n.calls())]
    ctx.require(users, "R02.5: _optimize no longer hands callbacks to the per-trial loop")
    local_mat = any(isinstance(n.expr[0], ast.Call) and dotted(n.expr[0].func) in ("list", "tuple") for n in gs.stmt_nodes() if n.kind == "iter" and "callbacks" in norm(n.expr[0]))
    r_ = go.reachable([go.entry], avoid_nodes=mats, avoid_edges=none_e, edge_ok=lambda a, k, b: k not in ("e", "reraise"))
    hitu = [u for u in users if u in r_]
    ctx.check(local_mat or not hitu, "R02.5", opt.short, "callbacks-iterable-materialised-once",
              message="_optimize hands the caller's `callbacks` Iterable to the per-trial loop as it is: the loop iterates it after every trial, so a one-shot iterable "
                      "(iter([...]), a generator) runs the callbacks for the first trial only - optimize(f, n_trials=4, callbacks=iter([cb])) calls cb once",
              how="`callbacks = list(callbacks)` (not None) dominates every hand-over to _optimize_sequential / executor.submit",
              where=where(opt, hitu[0].ast) if hitu else None)

    # the stop request of an earlier invocation (the flag is part of the Study's state, pickled with it) does not reach this one: the flag
    # is cleared before the loops start, not only when the previous call ended
    resets = [n for n in go.stmt_nodes() if n.kind == "stmt" and isinstance(n.ast, ast.Assign) and any(norm(t) == "study._stop_flag" for t in n.ast.targets)
              and isinstance(n.ast.value, ast.Constant) and n.ast.value.value is False]
    ctx.check(bool(resets) and all(go.dominated_by(u, resets) for u in users), "R02.5", opt.short, "stop-flag-cleared-before-the-loop",
              message="_optimize hands over to the trial loop without having cleared study._stop_flag in this invocation: a Study restored from a pickle / deepcopy taken "
                      "while a stop was requested (checkpoint callback next to MaxTrialsCallback) runs 0 of its n_trials trials and returns normally",
              how="`study._stop_flag = False` dominates every hand-over to _optimize_sequential / executor.submit")

    # what runs after the trial was stored (the finally block of _run_trial) must not raise what its callees document: Study.best_trial
    # raises ValueError when no feasible trial is complete yet, so the 'finished' log line has to expect that
    lf = p.func("optuna.study.study.Study._log_completed_trial")
    from rules._jfile import _protecting_handlers
    lpm = parent_map(lf.node)
    bt = p.func("optuna.study.study.Study.best_trial")
    raised = set()
    for x in own_nodes(bt.node):
        if isinstance(x, ast.Raise) and x.exc is not None:
            e_ = x.exc.func if isinstance(x.exc, ast.Call) else x.exc
            raised.add((dotted(e_) or "").split(".")[-1])
    n_bt = 0
    for x in own_nodes(lf.node):
        if isinstance(x, ast.Attribute) and x.attr in ("best_trial", "best_value", "best_params") and isinstance(x.value, ast.Name) and x.value.id == "self":
            n_bt += 1
            hs = _protecting_handlers(x, lpm)
            caught = {nm for h in hs for nm in (handler_names(h.type) if h.type is not None else ["BaseException"])
                      if not any(isinstance(y, ast.Raise) for st in h.body for y in ast.walk(st))}
            need = "ValueError" in raised
            ctx.check((not need) or bool(caught & {"ValueError", "Exception", "BaseException"}), "R02.5", lf.short, "post-store-log-expects-no-best-trial",
                      message="Study._log_completed_trial reads self.best_trial outside a try/except ValueError: best_trial raises ValueError while no feasible trial is complete "
                              "(constrained study whose first trials are infeasible), and this method runs in the finally block of _run_trial after the trial was stored - "
                              "optimize() raises regardless of `catch`, skips the callbacks and the remaining trials",
                      how="the read sits in a try body with a non-re-raising `except ValueError`", where=where(lf, x))
    ctx.floor("R02.5", "best_trial_reads_in_completion_log", n_bt, 1)

    # "tell never alters a finished trial" rests on the storages' finished-trial guard being atomic with the write: two threads telling one
    # RUNNING trial must not both pass the guard (in-memory: guard, state test and publication in one `with self._lock`; RDB: locked row)
    ctx.rule("R02.7", "the finished-trial guard of set_trial_state_values is atomic with the write it protects (in-memory: one critical section; RDB: "
             "tested on the for-update row inside the writing transaction)")
    from rules import _cas as _cas2
    _cas2.cas_atomic_rule(ctx, "R02.7", label="finished-guard")
    _cas2.cas_rdb_atomic_rule(ctx, "R02.7", label="finished-guard")

    # what is stored are the validated floats "whatever the sampler does": the list object handed to sampler.after_trial is not the object
    # that is passed to set_trial_state_values afterwards (an after_trial that edits its argument in place would change the stored values)
    twf = p.func("optuna.study._tell._tell_with_warning")
    at_calls = [c for c in own_nodes(twf.node) if isinstance(c, ast.Call) and isinstance(c.func, ast.Attribute) and c.func.attr == "after_trial"]
    st_calls = [c for c in own_nodes(twf.node) if isinstance(c, ast.Call) and isinstance(c.func, ast.Attribute) and c.func.attr == "set_trial_state_values"]
    ctx.require(at_calls and st_calls, "R02.3: after_trial / set_trial_state_values call vanished from _tell_with_warning")
    for ac in at_calls:
        av = ac.args[3] if len(ac.args) > 3 else next((k.value for k in ac.keywords if k.arg == "values"), None)
        for sc_ in st_calls:
            sv = sc_.args[2] if len(sc_.args) > 2 else next((k.value for k in sc_.keywords if k.arg == "values"), None)
            same = isinstance(av, ast.Name) and isinstance(sv, ast.Name) and av.id == sv.id
            ctx.check(not same, "R02.3", twf.short, "sampler-gets-its-own-values-list",
                      message=f"_tell_with_warning passes the list `{norm(av) if av is not None else None}` to sampler.after_trial and then the same object to "
                              f"set_trial_state_values: a sampler that edits its `values` argument in place (negate, append, NaN) changes what is stored after the values "
                              f"were validated - COMPLETE with [-3.0] / [3.0, 7.0] / [nan] for an objective that returned 3.0",
                      how="after_trial receives a copy (list(values)) or the store receives one", where=where(twf, ac))

    # public wrappers forward their arguments unchanged
    tf = p.func("optuna.study.study.Study.tell")
    tc = [c for c in own_nodes(tf.node) if isinstance(c, ast.Call) and dotted(c.func) == "_tell_with_warning"]
    want = {"study": "self", "trial": "trial", "value_or_values": "values", "state": "state", "skip_if_finished": "skip_if_finished"}
    ok = len(tc) == 1 and {k.arg: norm(k.value) for k in tc[0].keywords} == want and not tc[0].args
    ctx.check(ok, "R02.5", tf.short, "tell-forwards-arguments", message="Study.tell does not forward (trial, values, state, skip_if_finished) unchanged to _tell_with_warning",
              how="keyword provenance")
    of = p.func("optuna.study.study.Study.optimize")
    oc = [c for c in own_nodes(of.node) if isinstance(c, ast.Call) and dotted(c.func) == "_optimize"]
    ok = len(oc) == 1
    if ok:
        kw = {k.arg: norm(k.value) for k in oc[0].keywords}
        ok = kw.get("n_trials") == "n_trials" and kw.get("callbacks") == "callbacks" and kw.get("func") == "func" and kw.get("study") == "self" \
            and kw.get("n_jobs") == "n_jobs" and "catch" in kw.get("catch", "")
    ctx.check(ok, "R02.5", of.short, "optimize-forwards-arguments", message="Study.optimize does not forward n_trials/n_jobs/catch/callbacks to _optimize", how="keyword provenance")


def _func_at(p: Program, site: str) -> str:
    rel, _, ln = site.rpartition(":")
    try:
        ln = int(ln)
    except ValueError:
        return site
    best = None
    for f in p.funcs.values():
        if f.module.relpath == rel and f.node.lineno <= ln <= (f.node.end_lineno or f.node.lineno):
            if best is None or f.node.lineno > best.node.lineno:
                best = f
    return best.short if best else rel
