"""C03 - lock / transaction discipline of the storages (structural part of linearizability)."""
from __future__ import annotations

import ast

from sa.cfg import CFG
from sa.expr import cmp_atom, edges_where, resolve, single_defs
from sa.loader import AnalysisError, Program, dotted, norm, own_nodes
from sa.locks import ClassLockInfo, EXEMPT
from sa.util import (call_sites, kwarg, parent_map, self_attr, stmt_of, where, ancestors,
                     enclosing_with_items)

PROPERTY = "C03"

INMEM = "optuna.storages._in_memory.InMemoryStorage"
JOURNAL = "optuna.storages.journal._storage.JournalStorage"
CACHED = "optuna.storages._cached_storage._CachedStorage"
GRPC_CACHE = "optuna.storages._grpc.client.GrpcClientCache"
RDB = "optuna.storages._rdb.storage.RDBStorage"


def check_guarded_class(ctx, rule, info: ClassLockInfo, min_fields: int, min_accesses: int,
                        label: str):
    """Every access to a guarded field outside the exempt methods holds the lock."""
    cls = info.cls
    ctx.require(info.lock_ctor is not None,
                f"{rule}: {cls.qualname}.{info.lock} is not created by threading.Lock()/RLock() "
                f"in __init__")
    ctx.floor(rule, f"guarded_fields[{label}]", len(info.guarded), min_fields)
    n_acc = 0
    for mname, accs in sorted(info.accesses.items()):
        if mname in info.exempt:
            continue
        f = info.methods[mname]
        for a in accs:
            if a.field not in info.guarded:
                continue
            n_acc += 1
            held = info.is_held(mname, a.node)
            how = ("lexical with self.%s" % info.lock
                   if info.lock in info.regions[mname].at(a.node) else "helper held-on-entry")
            ctx.check(held, rule, f.short, f"{a.kind}:{a.field}" + (f"(via {a.via_alias})" if a.via_alias else ""),
                      message=(f"{a.kind} of shared field self.{a.field} in {cls.name}.{mname} "
                               f"without holding self.{info.lock}"),
                      how=how, where=where(f, a.node))
    ctx.floor(rule, f"field_accesses[{label}]", n_acc, min_accesses)
    return n_acc


def check_no_self_deadlock(ctx, rule, info: ClassLockInfo):
    """Non-reentrant lock: no call, inside a held region, to a method that acquires it."""
    if info.lock_ctor != "Lock":
        ctx.ok(rule, info.cls.module.relpath + "::" + info.cls.name, "lock-kind:" + str(info.lock_ctor),
               how="reentrant lock: nested acquisition legal", nontrivial=False)
        return
    acq = info.acquires()
    for callee, sites in sorted(info.calls.items()):
        for caller, call in sites:
            f = info.methods[caller]
            held = info.is_held(caller, call)
            if not held:
                continue
            ctx.check(not acq[callee], rule, f.short, f"call:{callee}",
                      message=(f"{info.cls.name}.{caller} calls self.{callee}() while holding the "
                               f"non-reentrant self.{info.lock}, and {callee} acquires it again "
                               f"(self-deadlock)"),
                      how="callee never acquires the lock", where=where(f, call))


def mirrored_write_in_one_section(ctx, rule, info):
    """_CachedStorage: a storage *write* that the cache mirrors (create_new_study, delete_study, create_new_trial) calls the backend and
    updates the cache in ONE critical section. With the backend call outside the lock another thread of the same client acts on the
    backend's new state first (finds the new study by name and fills its entry; re-fills the cache of a study that is being deleted) and
    the late cache update then replaces / misses that (shared by C03 R03.10 and C08 R08.7)."""
    n_w = 0
    for mname, f in sorted(info.methods.items()):
        if mname.startswith("_") or not (mname.startswith("create_") or mname.startswith("delete_") or mname.startswith("set_")):
            continue
        pm = parent_map(f.node)
        bcalls = [c for c in own_nodes(f.node) if isinstance(c, ast.Call) and isinstance(c.func, ast.Attribute) and norm(c.func.value) == "self._backend"
                  and c.func.attr.lstrip("_") == mname]
        muts = [a.node for a in info.accesses.get(mname, []) if a.kind in ("write", "mutate") and a.field in info.guarded]
        if not bcalls or not muts:
            continue
        n_w += 1

        def section(n):
            for a in ancestors(n, pm):
                if isinstance(a, ast.With) and any(self_attr(i.context_expr) == info.lock for i in a.items):
                    return a
            return None
        secs = {id(section(n)) for n in bcalls + muts}
        ok = len(secs) == 1 and all(section(n) is not None for n in bcalls + muts)
        ctx.check(ok, rule, f.short, "backend-write-and-cache-update-in-one-section",
                  message=f"{info.cls.name}.{mname} calls self._backend.{bcalls[0].func.attr}() and updates its cache in different critical sections (the backend call "
                          f"runs without the cache lock): another thread of the same client can act on the backend's new state in between - fill the entry of a study "
                          f"that was just created (then replaced by an empty one: get_trial raises KeyError for a RUNNING trial) or re-fill the cache of a study that is "
                          f"being deleted (get_trial keeps answering after delete_study returned)",
                  how="the backend call sits in the same `with <lock>` block as the cache updates", where=where(f, bcalls[0]))
    ctx.floor(rule, "mirrored_writes", n_w, 3)


def create_study_returns_named(ctx, rule):
    """JournalStorage.create_new_study hands back the id of the study that carries *its* name (the unique key its own record carried),
    found after the sync - not a counter or the newest entry, which another worker's CREATE_STUDY replayed in the same sync may have
    moved (shared by C03 R03.9 and C01 R01.18)."""
    p = ctx.program
    f = p.func(JOURNAL + ".create_new_study")
    g = CFG(f.node, name=f.qualname)
    fdefs = single_defs(f.node)
    rets = [n for n in g.stmt_nodes() if n.kind == "stmt" and isinstance(n.ast, ast.Return) and n.ast.value is not None
            and not (isinstance(n.ast.value, ast.Constant) and n.ast.value.value is None)]
    ctx.require(rets, f"{rule}: JournalStorage.create_new_study returns nothing")
    loops = [n for n in own_nodes(f.node) if isinstance(n, ast.For) and isinstance(n.target, ast.Name) and "_replay_result" in norm(n.iter)]
    for r in rets:
        e = resolve(r.ast.value, fdefs)
        lv = e.value.id if isinstance(e, ast.Attribute) and e.attr in ("_study_id", "study_id") and isinstance(e.value, ast.Name) else None
        ok = lv is not None and any(lp.target.id == lv for lp in loops)
        if ok:
            def _named(x, lv=lv):
                a = cmp_atom(x)
                if a and {a[0], a[2]} == {f"{lv}.study_name", "study_name"}:
                    return True if a[1] in (ast.Eq,) else (False if a[1] in (ast.NotEq,) else None)
                return None
            acc = [(t, k, m) for t in g.stmt_nodes() if t.kind == "test" for k, m in t.succ if edges_where(t.expr, _named).get(k) is True]
            ok = bool(acc) and g.dominated_by(r, [], acc)
        ctx.check(ok, rule, f.short, "returns-id-of-the-study-with-its-name",
                  message=f"JournalStorage.create_new_study returns `{norm(e)[:60]}`, not the id of the replayed study whose name equals the name this call appended: when "
                          f"another worker's CREATE_STUDY lands between this call's append and its read-back, the caller gets the other worker's id - its attributes and "
                          f"trials go into somebody else's study and its own study stays empty",
                  how="return <study>._study_id for the study found by `study.study_name == study_name` after the sync", where=where(f, r.ast))


def run(ctx):
    p: Program = ctx.program
    ctx.explanation = (
        "Static lock/transaction discipline behind linearizability: every access to mutable "
        "shared state of a storage object happens while its lock is held (lexically or in a "
        "helper all of whose call sites hold it), journal append+replay+result-read form one "
        "critical section, RDB work happens inside one scoped-session transaction with row locks "
        "at the compare-and-set sites, and non-reentrant locks are never re-acquired. Decides "
        "the discipline, not that the critical sections compose to a linearizable history.")
    ctx.assume("threading.Lock/RLock context managers provide mutual exclusion; SQLAlchemy "
               "with_for_update() takes a row lock (not on SQLite)")
    ctx.assume("objects are not shared before __init__ returns; __getstate__/__setstate__ run on "
               "unshared objects")

    # ---------------------------------------------------------------- R03.1 in-memory
    ctx.rule("R03.1", "InMemoryStorage: every access to a guarded field (derived: __init__ fields "
             "mutated outside __init__) holds self._lock")
    inm = ClassLockInfo(p, p.cls(INMEM), "_lock")
    check_guarded_class(ctx, "R03.1", inm, 6, 55, "InMemoryStorage")
    pub = [m for m in inm.methods if not m.startswith("_")]
    ctx.floor("R03.1", "public_methods", len(pub), 22)

    # ---------------------------------------------------------------- R03.2 journal
    ctx.rule("R03.2", "JournalStorage: _write_log/_sync_with_backend/_replay_result/_backend only "
             "under _thread_lock; append, replay and result read in one region")
    jcls = p.cls(JOURNAL)
    jr = ClassLockInfo(p, jcls, "_thread_lock", extra_guarded={"_backend", "_replay_result"},
                       helper_public={"restore_replay_result"})
    check_guarded_class(ctx, "R03.2", jr, 2, 25, "JournalStorage")
    for h in ("_write_log", "_sync_with_backend", "restore_replay_result"):
        ctx.require(h in jr.methods, f"R03.2: JournalStorage.{h} vanished")
        ctx.check(h in jr.held_on_entry, "R03.2", jr.methods[h].short, "held-on-entry",
                  message=f"JournalStorage.{h} has a call site that does not hold _thread_lock",
                  how="all self-call sites hold _thread_lock")
    # restore_replay_result has a public name: its only call sites in the package must be the
    # ones analysed above (inside JournalStorage)
    ext = [(f, c) for f, c in call_sites(p, "restore_replay_result")
           if not (f.cls is jcls)]
    ctx.check(not ext, "R03.2", jr.methods["restore_replay_result"].short, "external-callers",
              message="restore_replay_result is called from outside JournalStorage: "
                      + ", ".join(f.short for f, _ in ext),
              how="call-site census: only JournalStorage calls it")
    n_mut = 0
    for mname, f in sorted(jr.methods.items()):
        if mname in EXEMPT or mname in ("_write_log", "_sync_with_backend"):
            continue
        pm = parent_map(f.node)
        wl = [n for n in own_nodes(f.node) if isinstance(n, ast.Call) and self_attr(n.func) == "_write_log"]
        if not wl:
            continue
        n_mut += 1
        ctx.check(len(wl) == 1, "R03.2", f.short, "single-append",
                  message=f"{mname} appends {len(wl)} log records", how="one _write_log call")
        w = wl[0]

        def lock_with(node):
            for anc in ancestors(node, pm):
                if isinstance(anc, ast.With) and any(self_attr(i.context_expr) == "_thread_lock" for i in anc.items):
                    return anc
            return None
        region = lock_with(w)
        if region is None:
            continue  # already reported by the guarded-field check
        # every read of _replay_result and every sync call sits in the same with statement
        same = True
        for n in own_nodes(f.node):
            if self_attr(n) == "_replay_result" or (isinstance(n, ast.Call) and self_attr(n.func) == "_sync_with_backend"):
                if lock_with(n) is not region:
                    same = False
                    ctx.fail("R03.2", f.short, "split-critical-section",
                             f"{mname}: `{norm(stmt_of(n, pm))[:70]}` is not in the same "
                             f"`with self._thread_lock` region as the _write_log call "
                             f"(append, replay and result read must be atomic)",
                             where=where(f, n))
        if same:
            ctx.ok("R03.2", f.short, "one-critical-section", how="same With node encloses append, sync and result reads")
        # sync follows append on every normal path to the end of the region
        g = CFG(f.node, name=f.qualname)
        wnodes = [n for n in g.nodes if any(c is w for c in n.calls())]
        snodes = [n for n in g.nodes if any(self_attr(c.func) == "_sync_with_backend" for c in n.calls())]
        exits = [n for n in g.nodes if n.kind == "with_exit" and n.ast is region and n.copy_kind in ("normal", "return")]
        bad = None
        for wn in wnodes:
            reach = g.reachable([wn], avoid_nodes=snodes, edge_ok=lambda a, k, b: k not in ("e", "reraise", "nomatch", "match"))
            hit = [x for x in exits if x in reach]
            if hit:
                bad = g.witness(hit, guards=snodes, src=wn)
        ctx.check(bad is None, "R03.2", f.short, "sync-after-append",
                  message=f"{mname}: a normal path leaves the critical section after _write_log "
                          f"without _sync_with_backend", witness=bad,
                  how="every normal path from _write_log to the region exit passes _sync_with_backend")
    ctx.floor("R03.2", "mutators", n_mut, 10)
    readers = [m for m in jr.methods if m.startswith("get_")]
    ctx.floor("R03.2", "public_readers", len(readers), 9)

    # ---------------------------------------------------------------- R03.3 caches
    ctx.rule("R03.3", "_CachedStorage and GrpcClientCache: cache maps and entries only under "
             "their lock")
    cs = ClassLockInfo(p, p.cls(CACHED), "_lock")
    check_guarded_class(ctx, "R03.3", cs, 3, 40, "_CachedStorage")
    gc = ClassLockInfo(p, p.cls(GRPC_CACHE), "lock")
    check_guarded_class(ctx, "R03.3", gc, 1, 12, "GrpcClientCache")

    # ---------------------------------------------------------------- R03.4 RDB
    ctx.rule("R03.4", "RDBStorage: every session use inside a _create_scoped_session region (or "
             "a helper receiving the session); row locks (for_update) taken before the raced "
             "read at the three compare-and-set sites")
    rdb = p.cls(RDB)
    n_sess = 0
    helpers_with_session = set()
    for mname, f in sorted(rdb.methods.items()):
        if "session" in f.params():
            helpers_with_session.add(mname)
    for f in p.iter_funcs(("optuna.storages._rdb.storage",)):
        if f.cls is not rdb:
            continue
        pm = parent_map(f.node)
        params = set(f.params())
        for n in own_nodes(f.node):
            if isinstance(n, ast.Name) and n.id == "session" and isinstance(n.ctx, ast.Load):
                n_sess += 1
                ok = "session" in params
                if not ok:
                    for it in enclosing_with_items(n, pm):
                        if (isinstance(it.context_expr, ast.Call)
                                and (dotted(it.context_expr.func) or "").endswith("_create_scoped_session")
                                and isinstance(it.optional_vars, ast.Name)
                                and it.optional_vars.id == "session"):
                            ok = True
                if not ok and f.parent is not None and "session" in f.parent.params():
                    ok = True
                ctx.check(ok, "R03.4", f.short, "session-use",
                          message=f"`session` used outside a _create_scoped_session region in {f.name}",
                          how="inside `with _create_scoped_session(..) as session`", where=where(f, n))
    ctx.floor("R03.4", "session_uses", n_sess, 60)
    # helpers taking a session are only called with a session that obeys the rule
    for f, call in [(f, c) for h in helpers_with_session for f, c in call_sites(p, h, ("optuna.storages",))]:
        callee = call.func.attr if isinstance(call.func, ast.Attribute) else None
        if callee not in helpers_with_session or self_attr(call.func) is None or f.cls is not rdb:
            continue
        idx = rdb.methods[callee].params().index("session") - 1  # minus self
        arg = kwarg(call, "session", idx)
        ctx.check(isinstance(arg, ast.Name) and arg.id == "session", "R03.4", f.short,
                  f"session-arg:{callee}",
                  message=f"{f.name} passes `{norm(arg) if arg is not None else None}` as the session of {callee}",
                  how="passes the region's session object")

    # one transaction per storage call: only the scoped-session context manager commits
    n_txn = 0
    for fn in p.iter_funcs(("optuna.storages._rdb.storage",)):
        if fn.name == "_create_scoped_session" or (fn.cls is not None and fn.cls.name == "_VersionManager"):
            continue
        n_txn += 1
        for c in own_nodes(fn.node):
            if isinstance(c, ast.Call) and isinstance(c.func, ast.Attribute) and c.func.attr in ("commit", "begin_nested") and "session" in norm(c.func.value):
                ctx.fail("R03.4", fn.short, f"explicit-{c.func.attr}",
                         f"{fn.name} calls `{norm(c)}` in the middle of a storage call: what was written so far becomes visible to concurrent readers before the "
                         f"rest (a half-created trial: row without its values, params or final state)", where=where(fn, c))
    ctx.floor("R03.4", "rdb_functions_scanned_for_commit", n_txn, 40)

    # row locks
    def for_update_call(call: ast.Call, pos: int) -> bool:
        v = kwarg(call, "for_update", pos)
        return isinstance(v, ast.Constant) and v.value is True

    # (a) set_trial_state_values: trial row locked before trial.state is read
    f = p.lookup_method(rdb, "set_trial_state_values")
    ctx.require(f is not None, "R03.4: RDBStorage.set_trial_state_values vanished")
    g = CFG(f.node, name=f.qualname)
    lock_nodes = []
    trial_var = None
    for n in g.stmt_nodes():
        if n.kind == "stmt" and isinstance(n.ast, ast.Assign) and isinstance(n.ast.value, ast.Call):
            c = n.ast.value
            if (dotted(c.func) or "").endswith("TrialModel.find_or_raise_by_id"):
                if for_update_call(c, 2) and isinstance(n.ast.targets[0], ast.Name):
                    lock_nodes.append(n)
                    trial_var = n.ast.targets[0].id
    state_reads = []
    for n in g.stmt_nodes():
        for x in n.walk():
            if (isinstance(x, ast.Attribute) and x.attr == "state" and isinstance(x.ctx, ast.Load)
                    and isinstance(x.value, ast.Name) and x.value.id != "self" and x.value.id != "TrialState"):
                state_reads.append((n, x))
    ctx.require(state_reads, "R03.4: no read of the trial row's state found in set_trial_state_values")
    for n, x in state_reads:
        ok = bool(lock_nodes) and x.value.id == trial_var and g.dominated_by(n, lock_nodes)
        # the locked variable must not be re-bound by an unlocked fetch
        rebinds = [m for m in g.stmt_nodes() if m.kind == "stmt" and isinstance(m.ast, ast.Assign)
                   and any(isinstance(t, ast.Name) and t.id == x.value.id for t in m.ast.targets)
                   and m not in lock_nodes]
        ok = ok and not rebinds
        ctx.check(ok, "R03.4", f.short, "row-lock:trial.state",
                  message="set_trial_state_values reads the trial state without a dominating "
                          "TrialModel.find_or_raise_by_id(.., for_update=True) on that row",
                  how="for_update fetch dominates the state read", where=where(f, x),
                  witness=None if ok else g.witness([n], guards=lock_nodes))
    from rules import _cas
    _cas.cas_rdb_atomic_rule(ctx, "R03.4", label="row-lock")
    # writes of trial.state also only on the locked object
    # (b) _create_new_trial: study row lock dominates trial preparation
    f = p.lookup_method(rdb, "_create_new_trial")
    ctx.require(f is not None, "R03.4: RDBStorage._create_new_trial vanished")
    g = CFG(f.node, name=f.qualname)
    lockn = [n for n in g.stmt_nodes() for c in n.calls()
             if (dotted(c.func) or "").endswith("StudyModel.find_or_raise_by_id") and for_update_call(c, 2)]
    prep = [n for n in g.stmt_nodes() for c in n.calls() if self_attr(c.func) == "_get_prepared_new_trial"]
    ctx.require(prep, "R03.4: _create_new_trial no longer calls _get_prepared_new_trial")
    for n in prep:
        ctx.check(bool(lockn) and g.dominated_by(n, lockn), "R03.4", f.short, "row-lock:study",
                  message="_create_new_trial computes the trial number without first locking the "
                          "study row (StudyModel.find_or_raise_by_id(.., for_update=True))",
                  how="study row lock dominates _get_prepared_new_trial",
                  witness=g.witness([n], guards=lockn), where=where(f, n.ast))
    # the number is computed by count_past_trials inside _get_prepared_new_trial - from the row's own id, i.e. after the INSERT was
    # flushed: counting *before* the insert reads a snapshot that a concurrent creator shares (SQLite ignores the study row lock and a
    # plain SELECT opens no transaction), so two workers get the same number
    f2 = p.lookup_method(rdb, "_get_prepared_new_trial")
    ctx.require(f2 is not None, "R03.4: _get_prepared_new_trial vanished")
    g2 = CFG(f2.node, name=f2.qualname)
    counts = [n for n in g2.stmt_nodes() if any(isinstance(c.func, ast.Attribute) and c.func.attr in ("count_past_trials", "scalar", "count") and
                                                ("count" in norm(c)) for c in n.calls())]
    flushes = [n for n in g2.stmt_nodes() for c in n.calls() if norm(c.func) == "session.flush"]
    adds = [n for n in g2.stmt_nodes() for c in n.calls() if norm(c.func) == "session.add"]
    ctx.require(counts, "R03.4: _get_prepared_new_trial no longer counts earlier trials")
    okn = bool(flushes) and bool(adds) and all(g2.dominated_by(n, flushes) for n in counts) and all(g2.dominated_by(fl, adds) for fl in flushes[:1])
    okn = okn and all(any(isinstance(c.func, ast.Attribute) and c.func.attr == "count_past_trials" for c in n.calls()) for n in counts)
    ctx.check(okn, "R03.4", f2.short, "number-counted-after-own-insert",
              message="_get_prepared_new_trial determines the trial number before the new row was inserted and flushed (or not from the row's own id): two workers "
                      "creating trials of one study concurrently can both count N earlier trials and both insert number N - numbers are no longer unique and gap-free "
                      "(on SQLite the row lock is ignored and the SELECT opens no transaction)",
              how="session.add(trial); session.flush() dominate trial.count_past_trials(session) (trial_id < own id)", where=where(f2, counts[0].ast))
    # (c) record_heartbeat: update dominated by the for_update re-fetch
    f = p.lookup_method(rdb, "record_heartbeat")
    ctx.require(f is not None, "R03.4: RDBStorage.record_heartbeat vanished")
    g = CFG(f.node, name=f.qualname)
    lockn = [n for n in g.stmt_nodes() for c in n.calls()
             if (dotted(c.func) or "").endswith("TrialHeartbeatModel.where_trial_id") and for_update_call(c, 2)]
    upd = [n for n in g.stmt_nodes() if n.kind == "stmt" and isinstance(n.ast, ast.Assign)
           and any(isinstance(t, ast.Attribute) and t.attr == "heartbeat" for t in n.ast.targets)]
    ctx.require(upd, "R03.4: record_heartbeat no longer updates heartbeat.heartbeat")
    for n in upd:
        ctx.check(bool(lockn) and g.dominated_by(n, lockn), "R03.4", f.short, "row-lock:heartbeat",
                  message="record_heartbeat updates an existing heartbeat row without re-fetching "
                          "it for update", how="for_update re-fetch dominates the update",
                  witness=g.witness([n], guards=lockn), where=where(f, n.ast))
    # model side: the for_update flag really adds with_for_update()
    for q in ("optuna.storages._rdb.models.StudyModel.find_or_raise_by_id",
              "optuna.storages._rdb.models.TrialModel.find_or_raise_by_id",
              "optuna.storages._rdb.models.TrialHeartbeatModel.where_trial_id"):
        mf = p.func(q)
        g = CFG(mf.node, name=q)
        tests = [n for n in g.stmt_nodes() if n.kind == "test" and norm(n.expr) == "for_update"]
        wfu = [n for n in g.stmt_nodes() for c in n.calls() if isinstance(c.func, ast.Attribute) and c.func.attr == "with_for_update"]
        runs = [n for n in g.stmt_nodes() for c in n.calls() if isinstance(c.func, ast.Attribute)
                and c.func.attr in ("one_or_none", "one", "first", "all", "scalar")]
        ok = bool(tests) and bool(wfu) and bool(runs)
        if ok:
            # on the for_update==True branch the query executed has with_for_update applied
            t = tests[0]
            for r in runs:
                reach = g.reachable([t], avoid_nodes=wfu, avoid_edges=[(t, "f", m) for k, m in t.succ if k == "f"])
                if r in reach:
                    ok = False
        ctx.check(ok, "R03.4", mf.short, "for_update-honoured",
                  message=f"{mf.name}: for_update=True does not reach with_for_update() before the query runs",
                  how="true branch of `if for_update` passes with_for_update before execution")

    # ---------------------------------------------------------------- R03.8 journal: decide at replay, not before the append
    ctx.rule("R03.8", "JournalStorage mutators take no decision on replayed state before appending their record: every read of "
             "_replay_result / every sync is dominated by _write_log (the log order, not a pre-check under the thread lock, serialises processes)")
    n_m8 = 0
    for mname, f in sorted(jr.methods.items()):
        if mname in EXEMPT or mname in ("_write_log", "_sync_with_backend", "restore_replay_result"):
            continue
        g = CFG(f.node, name=f.qualname)
        wl = [n for n in g.stmt_nodes() for c in n.calls() if self_attr(c.func) == "_write_log"]
        if not wl:
            continue
        n_m8 += 1
        early = [n for n in g.stmt_nodes() if n not in wl and (any(self_attr(x) == "_replay_result" for x in n.walk())
                                                               or any(self_attr(c.func) == "_sync_with_backend" for c in n.calls()))
                 and not g.dominated_by(n, wl)]
        ctx.check(not early, "R03.8", f.short, "no-pre-check-before-append",
                  message=f"JournalStorage.{mname} reads replayed state (`{norm(early[0].exprs()[0])[:60] if early else ''}`) before appending its record: a check made "
                          f"there is only protected by the per-object thread lock, so two processes on one journal can both pass it (e.g. both create the same study name)",
                  how="all reads of _replay_result / syncs come after _write_log", where=where(f, early[0].ast) if early else None)
    ctx.floor("R03.8", "journal_mutators", n_m8, 10)

    # ---------------------------------------------------------------- R03.9 journal: the id handed back is the id of the caller's own record
    ctx.rule("R03.9", "JournalStorage.create_new_trial returns the trial id that replay recorded for *this worker's* CREATE_TRIAL record (a field "
             "written under the issuer test), not a position in replicated state: other processes' records may be replayed in the same sync")
    REPLAYQ = "optuna.storages.journal._storage.JournalStorageReplayResult"
    f = jr.methods.get("create_new_trial")
    ctx.require(f is not None, "R03.9: JournalStorage.create_new_trial vanished")
    fdefs = single_defs(f.node)
    rets = [n.value for n in own_nodes(f.node) if isinstance(n, ast.Return) and n.value is not None]
    ctx.require(rets, "R03.9: create_new_trial returns nothing")
    apply_ct = p.cls(REPLAYQ).methods.get("_apply_create_trial")
    ctx.require(apply_ct is not None, "R03.9: _apply_create_trial vanished")
    ga = CFG(apply_ct.node, name=apply_ct.qualname)

    def _issuer(e):
        if isinstance(e, ast.Call) and self_attr(e.func) == "_is_issued_by_this_worker":
            return True
        return None
    issuer_edges = [(t, k, m) for t in ga.stmt_nodes() if t.kind == "test" for k, m in t.succ if edges_where(t.expr, _issuer).get(k) is True]
    for r in rets:
        e = resolve(r, fdefs)
        fld = e.attr if isinstance(e, ast.Attribute) and norm(e.value) == "self._replay_result" else None
        writes = [n for n in ga.stmt_nodes() if n.kind == "stmt" and isinstance(n.ast, ast.Assign) and any(self_attr(t) == fld for t in n.ast.targets)] if fld else []
        ok = bool(fld) and bool(writes) and bool(issuer_edges) and all(ga.dominated_by(w, [], issuer_edges) for w in writes)
        ctx.check(ok, "R03.9", f.short, "returns-own-record-id",
                  message=f"JournalStorage.create_new_trial returns `{norm(e)[:70]}`: that is not a value replay records only for this worker's own CREATE_TRIAL record. When another "
                          f"process appends a CREATE_TRIAL for the same study between this call's append and its sync, both calls return the same trial id and one trial is left "
                          f"without an owner", how="return value = a replay-result field assigned in _apply_create_trial under _is_issued_by_this_worker")

    create_study_returns_named(ctx, "R03.9")

    # ---------------------------------------------------------------- R03.7 one critical section per call
    ctx.rule("R03.7", "InMemoryStorage / JournalStorage / GrpcClientCache: each public method interacts with shared state in exactly one "
             "critical section (no read in one region or self-locking call and write in another: lost updates)")
    n_single = 0
    for info in (inm, jr, gc):
        acq = info.acquires()
        for mname, f in sorted(info.methods.items()):
            if mname.startswith("_") or mname in info.exempt:
                continue
            pm = parent_map(f.node)
            sections = []
            for n in own_nodes(f.node):
                if isinstance(n, ast.With) and any(self_attr(i.context_expr) == info.lock for i in n.items):
                    # outermost only
                    if not any(isinstance(a, ast.With) and any(self_attr(i.context_expr) == info.lock for i in a.items) for a in ancestors(n, pm)):
                        sections.append(n)
                if isinstance(n, ast.Call) and self_attr(n.func) in info.methods and acq.get(self_attr(n.func)):
                    if info.lock not in info.regions[mname].at(n):
                        sections.append(n)
            if not sections:
                continue
            n_single += 1
            ctx.check(len(sections) == 1, "R03.7", f.short, "single-critical-section",
                      message=f"{info.cls.name}.{mname} touches shared state in {len(sections)} separate critical sections "
                              f"(lines {[getattr(x, 'lineno', 0) for x in sections]}): another thread can write between them, so a "
                              f"read-modify-write is not atomic (lost update / stale check)",
                      how="one `with <lock>` region (or one self-locking call) per public method", where=where(f, sections[-1]))
    ctx.floor("R03.7", "public_methods_with_sections", n_single, 43)

    # ---------------------------------------------------------------- R03.10 fetch and merge in one critical section
    ctx.rule("R03.10", "_CachedStorage / GrpcClientCache: a trial snapshot fetched from the backend is merged into the cache inside the critical "
             "section it was fetched in (an answer fetched outside the lock can be merged after a newer one: a finished trial turns RUNNING again, "
             "a reader is handed a state that never existed)")
    base = p.cls("optuna.storages._base.BaseStorage")
    fetchers = {m for c in (base, p.cls(RDB)) if c is not None for m, f in c.methods.items()
                if f.node.returns is not None and "FrozenTrial" in norm(f.node.returns)}
    fetchers |= {"GetTrials", "GetTrial"}  # gRPC stub spellings
    n_fm = 0
    for info in (cs, gc):
        mutators = {m for m, accs in info.accesses.items() if any(a.kind in ("write", "mutate") and a.field in info.guarded for a in accs)}
        for mname, f in sorted(info.methods.items()):
            pm = parent_map(f.node)

            def section(n):
                for a in ancestors(n, pm):
                    if isinstance(a, ast.With) and any(self_attr(i.context_expr) == info.lock for i in a.items):
                        return a
                return None
            fetched = {}
            for n in own_nodes(f.node):
                if isinstance(n, ast.Assign) and len(n.targets) == 1 and isinstance(n.targets[0], ast.Name):
                    calls = [c for c in ast.walk(n.value) if isinstance(c, ast.Call) and isinstance(c.func, ast.Attribute) and c.func.attr in fetchers
                             and not (isinstance(c.func.value, ast.Name) and c.func.value.id == "self")]
                    if calls:
                        fetched[n.targets[0].id] = n
            if not fetched:
                continue
            mut_nodes = {id(a.node) for a in info.accesses.get(mname, []) if a.kind in ("write", "mutate") and a.field in info.guarded}
            for st in own_nodes(f.node):
                if not isinstance(st, (ast.Assign, ast.AugAssign, ast.Expr, ast.For)):
                    continue
                hdr = st.iter if isinstance(st, ast.For) else st
                used = {x.id for x in ast.walk(hdr) if isinstance(x, ast.Name) and x.id in fetched and isinstance(x.ctx, ast.Load)}
                if not used:
                    continue
                merges = any(id(x) in mut_nodes for x in ast.walk(st)) or any(
                    isinstance(c, ast.Call) and self_attr(c.func) in mutators for c in ast.walk(hdr))
                if not merges:
                    continue
                for v in sorted(used):
                    n_fm += 1
                    ctx.check(section(st) is section(fetched[v]), "R03.10", f.short, f"fetch-and-merge-in-one-section:{v}",
                              message=f"{info.cls.name}.{mname} fetches `{v}` from the backend in one critical section (line {fetched[v].lineno}) and merges it into the "
                                      f"cache in another (line {st.lineno}): between the two another thread can merge a newer answer, which this older one then "
                                      f"overwrites - a trial seen COMPLETE is RUNNING again for later readers",
                              how="the fetch and the statement that stores it sit in the same `with <lock>` block", where=where(f, st))
    ctx.floor("R03.10", "fetch_merge_pairs", n_fm, 2)
    mirrored_write_in_one_section(ctx, "R03.10", cs)

    # ---------------------------------------------------------------- R03.6 uniqueness constraints
    ctx.rule("R03.6", "RDB: the uniqueness the contract relies on under concurrent writers is declared in the schema "
             "(study name once; one row per (owner, key) so that racing writers cannot both insert)")
    want = {"StudyDirectionModel": ("study_id", "objective"), "StudyUserAttributeModel": ("study_id", "key"),
            "StudySystemAttributeModel": ("study_id", "key"), "TrialUserAttributeModel": ("trial_id", "key"),
            "TrialSystemAttributeModel": ("trial_id", "key"), "TrialParamModel": ("trial_id", "param_name"),
            "TrialValueModel": ("trial_id", "objective"), "TrialIntermediateValueModel": ("trial_id", "step"),
            "TrialHeartbeatModel": ("trial_id",)}
    mm = p.module("optuna.storages._rdb.models")
    n_u = 0
    for cname, cols in sorted(want.items()):
        c = mm.classes.get(cname)
        ctx.require(c is not None, f"R03.6: model {cname} vanished")
        found = []
        for st in c.node.body:
            tg = st.targets[0] if isinstance(st, ast.Assign) else (st.target if isinstance(st, ast.AnnAssign) else None)
            if tg is not None and norm(tg) == "__table_args__" and st.value is not None:
                for x in ast.walk(st.value):
                    if isinstance(x, ast.Call) and dotted(x.func) == "UniqueConstraint":
                        found.append(tuple(a.value for a in x.args if isinstance(a, ast.Constant)))
        n_u += 1
        ctx.check(cols in found, "R03.6", mm.relpath + "::" + cname, "unique:" + ",".join(cols),
                  message=f"{cname} no longer declares UniqueConstraint{cols}: two concurrent writers can both insert a row for the same key "
                          f"(duplicate attrs/params/values; the IntegrityError the storage relies on to detect the race never fires)",
                  how="UniqueConstraint in __table_args__")
    sm = mm.classes.get("StudyModel")
    ok = False
    for st in sm.node.body:
        if isinstance(st, ast.Assign) and norm(st.targets[0]) == "study_name" and isinstance(st.value, ast.Call):
            u = kwarg(st.value, "unique")
            ok = isinstance(u, ast.Constant) and u.value is True
    ctx.check(ok, "R03.6", mm.relpath + "::StudyModel", "unique:study_name",
              message="StudyModel.study_name is not unique: two concurrent create_new_study calls with one name both succeed", how="unique=True")
    ctx.floor("R03.6", "unique_constraints", n_u, 9, exact=True)
    # create_new_study turns the resulting IntegrityError into DuplicatedStudyError
    f = p.lookup_method(rdb, "create_new_study")
    hs = [h for h in own_nodes(f.node) if isinstance(h, ast.ExceptHandler) and "IntegrityError" in norm(h.type)]
    ok = bool(hs) and any(isinstance(x, ast.Raise) and "DuplicatedStudyError" in norm(x) for h in hs for x in ast.walk(h))
    ctx.check(ok, "R03.6", f.short, "duplicate-name-detected", message="create_new_study does not map the unique-violation to DuplicatedStudyError",
              how="except IntegrityError: raise DuplicatedStudyError")

    # ---------------------------------------------------------------- R03.5 self deadlock
    ctx.rule("R03.11", "processes sharing a journal file: a reader that polls while another process is in the middle of an append neither "
             "accepts the half-written record nor remembers an offset computed from it (a cached offset inside a record makes every later "
             "read of this worker fail or drop the record: a write is lost for it) - the R07.4 / R07.5 reader clauses")
    from rules import _jfile as J
    from sa.report import RuleAlias
    J.rule_reader_guards(RuleAlias(ctx, {}), "R03.11", "R03.11")
    ctx.rule("R03.5", "non-reentrant locks are never re-acquired by a callee inside a held region")
    for info in (inm, jr, cs, gc):
        check_no_self_deadlock(ctx, "R03.5", info)
    # thorough: every other class in optuna/storages that owns a threading lock field
    if ctx.tier == "thorough":
        from sa.util import init_fields, lock_kind
        done = {INMEM, JOURNAL, CACHED, GRPC_CACHE}
        extra = 0
        for c in sorted(p.classes.values(), key=lambda c: c.qualname):
            if c.qualname in done:
                continue
            for fld, val in init_fields(c).items():
                if lock_kind(val):
                    info = ClassLockInfo(p, c, fld)
                    extra += 1
                    used = any(fld in {self_attr(i.context_expr) for n in own_nodes(m.node)
                                       if isinstance(n, ast.With) for i in n.items}
                               for m in c.methods.values())
                    ctx.note(f"lock_owner:{c.qualname}.{fld}", {"kind": info.lock_ctor, "used_in_with": used,
                                                               "guarded": sorted(info.guarded)})
                    if info.guarded and used:
                        check_guarded_class(ctx, "R03.1", info, 0, 0, c.name)
                    check_no_self_deadlock(ctx, "R03.5", info)
        ctx.count("R03.5", "other_lock_owning_classes", extra)
