"""C04 - claim protocol of queued trials and fixed-parameter priority."""
from __future__ import annotations

import ast

from rules import _cas
from sa.cfg import CFG
from sa.expr import cmp_atom, edges_where, resolve, single_defs
from sa.loader import Program, dotted, norm, own_nodes
from sa.util import call_sites, kwarg, parent_map, self_attr, where, ancestors

PROPERTY = "C04"
STUDY = "optuna.study.study.Study"
TRIAL = "optuna.trial._trial.Trial"
INMEM = _cas.INMEM
REPLAY = _cas.REPLAY
JOURNAL = _cas.JOURNAL

FIXTURE_REQUEUE = '''
from optuna.trial import TrialState
def requeue(storage, trial_id):
    storage.set_trial_state_values(trial_id, state=TrialState.WAITING)
def requeue2(storage, trial_id):
    storage.set_trial_state_values(trial_id, TrialState.WAITING)
'''


def waiting_state_writes(program, prefixes):
    """Call sites passing TrialState.WAITING to set_trial_state_values."""
    out = []
    for f, c in call_sites(program, "set_trial_state_values", prefixes):
        st = kwarg(c, "state", 1)
        if st is not None and (dotted(st) or "").endswith("TrialState.WAITING"):
            out.append((f, c))
    return out


def run(ctx):
    p: Program = ctx.program
    ctx.explanation = (
        "Mechanisms the exactly-once hand-over of queued trials rests on: WAITING->RUNNING is a "
        "compare-and-set in every primary backend (decided by exploring all 25 (requested, "
        "stored) TrialState pairs on each backend's CFG), every claimer branches on the returned "
        "boolean before using the trial id, no code re-queues by writing WAITING, the in-memory "
        "WAITING cursor only moves to the first WAITING trial found, the journal ownership map "
        "is written only by the issuer on the successful transition, and Trial._suggest gives "
        "fixed parameters priority and passes them verbatim. Decides presence of these "
        "mechanisms on all paths; not starvation freedom or journal claim races across processes.")
    ctx.assume("trial objects exist when their state is tested (existence errors are C01)")

    ctx.rule("R04.1", "compare-and-set WAITING->RUNNING and finished guard in in-memory, RDB and journal "
             "(finite-domain exploration over TrialState x TrialState)")
    _cas.cas_rule(ctx, "R04.1")
    _cas.cas_atomic_rule(ctx, "R04.1")
    _cas.cas_rdb_atomic_rule(ctx, "R04.1")
    _cas.cas_dialect_rule(ctx, "R04.1")

    # ------------------------------------------------------------ R04.2 claim result checked
    ctx.rule("R04.2", "every caller that requests RUNNING branches on the returned boolean before the id escapes")
    n_sites = 0
    for f, c in call_sites(p, "set_trial_state_values", ("optuna",)):
        st = kwarg(c, "state", 1)
        if st is None or not (dotted(st) or "").endswith("TrialState.RUNNING"):
            continue
        n_sites += 1
        g = CFG(f.node, name=f.qualname)

        # the result may be tested directly or through a local that is otherwise only ever False (`claimed = False` in a lost-race arm)
        held = None
        for n_ in own_nodes(f.node):
            if isinstance(n_, ast.Assign) and n_.value is c and len(n_.targets) == 1 and isinstance(n_.targets[0], ast.Name):
                nm = n_.targets[0].id
                others = [m_.value for m_ in own_nodes(f.node) if isinstance(m_, ast.Assign) and m_ is not n_
                          and any(isinstance(t_, ast.Name) and t_.id == nm for t_ in m_.targets)]
                if all(isinstance(o, ast.Constant) and o.value is False for o in others):
                    held = nm

        def atom(e, c=c, held=held):
            if e is c or (held is not None and isinstance(e, ast.Name) and e.id == held):
                return True
            return None
        tests = [t for t in g.stmt_nodes() if t.kind == "test" and any(x is c or (held is not None and isinstance(x, ast.Name) and x.id == held) for x in ast.walk(t.expr))]
        ok = bool(tests)
        wit = None
        if ok:
            acc = []
            for t in tests:
                pol = edges_where(t.expr, atom)
                for k, m in t.succ:
                    if k in pol and pol[k] is True:
                        acc.append((t, k, m))
            rets = [n for n in g.stmt_nodes() if n.kind == "stmt" and isinstance(n.ast, ast.Return)
                    and n.ast.value is not None and not (isinstance(n.ast.value, ast.Constant) and n.ast.value.value is None)]
            ok = bool(acc) and all(g.dominated_by(r, [], acc) for r in rets) and bool(rets)
            if not ok:
                wit = g.witness(rets, edges=acc)
        ctx.check(ok, "R04.2", f.short, "claim-result-checked",
                  message=f"{f.name} requests RUNNING but can hand out the trial id without the compare-and-set "
                          f"having returned True (a trial already claimed by another worker would be run twice)",
                  how="every non-None return is dominated by the True edge of the set_trial_state_values test",
                  witness=wit, where=where(f, c))
        # the other way of losing the race: the winner has already *finished* the trial, and the storage contract answers a write to a
        # finished trial with UpdateFinishedTrialError (documented Raises of set_trial_state_values) - the claim loop must move on too
        base_doc = ast.get_docstring(p.cls("optuna.storages._base.BaseStorage").methods["set_trial_state_values"].node) or ""
        if "UpdateFinishedTrialError" in base_doc:
            pmc = parent_map(f.node)
            hs = []
            child = c
            while id(child) in pmc:
                par = pmc[id(child)]
                if isinstance(par, (ast.FunctionDef, ast.AsyncFunctionDef)):
                    break
                if isinstance(par, ast.Try) and any(child is b for b in par.body):
                    hs.extend(par.handlers)
                child = par
            caught = [h for h in hs if h.type is None or {"UpdateFinishedTrialError", "OptunaError", "Exception", "BaseException", "RuntimeError"}
                      & {(dotted(x) or "").split(".")[-1] for x in ([h.type] if not isinstance(h.type, ast.Tuple) else h.type.elts)}]
            moves_on = bool(caught) and not any(isinstance(x, ast.Raise) for x in ast.walk(caught[0]))
            ctx.check(moves_on, "R04.2", f.short, "claim-lost-to-a-finished-trial-moves-on",
                      message=f"{f.name}: the claim `{norm(c)[:60]}` can raise UpdateFinishedTrialError - another worker claimed AND finished the listed WAITING trial "
                              f"before this call - and nothing around it catches that: ask()/optimize of the losing worker dies with an internal error instead of "
                              f"taking the next queued trial or sampling a new one",
                      how="the claim sits in a try body with a non-re-raising `except UpdateFinishedTrialError` arm", where=where(f, c))
        # the candidates come from a WAITING listing of the same study
        loops = [n for n in own_nodes(f.node) if isinstance(n, ast.For) and any(x is c for x in ast.walk(n))]
        ok = False
        for lp in loops:
            it = lp.iter
            if isinstance(it, ast.Call) and isinstance(it.func, ast.Attribute) and it.func.attr == "get_all_trials":
                sts = kwarg(it, "states", 2)
                sid = it.args[0] if it.args else None
                tv = [x.id for x in ast.walk(lp.target) if isinstance(x, ast.Name)]
                ok = (sts is not None and "WAITING" in norm(sts) and sid is not None and norm(sid) == "self._study_id"
                      and c.args and isinstance(c.args[0], ast.Attribute) and isinstance(c.args[0].value, ast.Name)
                      and c.args[0].value.id in tv and c.args[0].attr == "_trial_id")
        ctx.check(ok, "R04.2", f.short, "candidates-are-waiting-trials-of-this-study",
                  message=f"{f.name} does not iterate get_all_trials(self._study_id, states=(WAITING,)) and claim that trial's id",
                  how="loop over the WAITING listing; claims loop_var._trial_id")
    ctx.floor("R04.2", "running_claim_sites", n_sites, 1)

    # ------------------------------------------------------------ R04.3 no re-queue
    ctx.rule("R04.3", "no state write to WAITING (zero-count, fixture); in-memory WAITING cursor only moves to the first WAITING trial / end")
    bad = waiting_state_writes(p, ("optuna",))
    for f, c in bad:
        ctx.fail("R04.3", f.short, "requeue-by-state-write",
                 f"{f.name} writes TrialState.WAITING through set_trial_state_values: WAITING trials would appear "
                 f"below the in-memory cursor / be handed out twice", where=where(f, c))
    if not bad:
        ctx.ok("R04.3", "optuna", "no-requeue-by-state-write", how="0 call sites pass TrialState.WAITING")
    fx = Program.from_sources({"fx.requeue": FIXTURE_REQUEUE})
    ctx.require(len(waiting_state_writes(fx, ("fx",))) == 2, "R04.3: positive fixture not flagged (rule is blind)")
    # storages never assign WAITING to an existing trial
    n_assign = 0
    for f in p.iter_funcs(("optuna.storages",)):
        for n in own_nodes(f.node):
            if isinstance(n, ast.Assign) and any(isinstance(t, ast.Attribute) and t.attr == "state" for t in n.targets):
                n_assign += 1
                ctx.check("WAITING" not in norm(n.value), "R04.3", f.short, "storage-assigns-WAITING",
                          message=f"{f.name} assigns WAITING to a stored trial", how="value is the requested/template state",
                          where=where(f, n), nontrivial=False)
    ctx.floor("R04.3", "storage_state_assignments", n_assign, 3)
    # cursor
    f = p.cls(INMEM).methods.get("get_all_trials")
    ctx.require(f is not None, "R04.3: InMemoryStorage.get_all_trials vanished")
    g = CFG(f.node, name=f.qualname)
    defs = single_defs(f.node)
    # (the cursor dict may be reached through a local alias: `cursor = self._prev_waiting_trial_number`)
    cur_stores = [n for n in g.stmt_nodes() if n.kind == "stmt" and isinstance(n.ast, ast.Assign)
                  and any(isinstance(t, ast.Subscript) and self_attr(resolve(t.value, defs)) == "_prev_waiting_trial_number" for t in n.ast.targets)]
    ctx.floor("R04.3", "cursor_stores", len(cur_stores), 1)
    TRIALS = "self._studies[study_id].trials"
    CURSOR = "self._prev_waiting_trial_number[study_id]"

    def is_scan_source(e):
        """<study trials>[cursor:]"""
        e = resolve(e, defs)
        return (isinstance(e, ast.Subscript) and isinstance(e.slice, ast.Slice) and e.slice.lower is not None and e.slice.upper is None
                and norm(e.slice.lower) == CURSOR and norm(e.value) == TRIALS)

    def waiting_filter(e, var):
        a = cmp_atom(e)
        return bool(a) and a[0] == f"{var}.state" and a[2].endswith("TrialState.WAITING") and a[1] in (ast.Eq, ast.Is)

    loops = [n for n in g.stmt_nodes() if n.kind == "iter"]
    scan = None
    for lp in loops:
        if is_scan_source(lp.ast.iter):
            scan = lp
    # comprehension form: found = [t for t in <scan source> if t.state == WAITING]
    comp_lists = {}
    all_defs = []
    for x in own_nodes(f.node):
        if isinstance(x, ast.Assign) and len(x.targets) == 1 and isinstance(x.targets[0], ast.Name):
            all_defs.append((x.targets[0].id, x.value))
        elif isinstance(x, ast.AnnAssign) and isinstance(x.target, ast.Name) and x.value is not None:
            all_defs.append((x.target.id, x.value))
    for nm, v in all_defs:
        if isinstance(v, ast.ListComp) and len(v.generators) == 1 and is_scan_source(v.generators[0].iter) and isinstance(v.generators[0].target, ast.Name):
            tv = v.generators[0].target.id
            if isinstance(v.elt, ast.Name) and v.elt.id == tv and len(v.generators[0].ifs) == 1 and waiting_filter(v.generators[0].ifs[0], tv):
                comp_lists[nm] = v
    ctx.check(scan is not None or bool(comp_lists), "R04.3", f.short, "scan-starts-at-cursor",
              message="the WAITING scan does not run over <study trials>[cursor:] filtered by state == WAITING", how="loop or comprehension over trials[cursor:]")
    lv = scan.ast.target.id if scan is not None and isinstance(scan.ast.target, ast.Name) else None
    body0 = [m for k, m in scan.succ if k == "loop"] if scan is not None else []
    in_loop = g.reachable(body0, avoid_nodes=[scan]) if scan is not None else set()
    found = None
    for n in in_loop:
        for c in n.calls():
            if isinstance(c.func, ast.Attribute) and c.func.attr == "append" and c.args and norm(c.args[0]) == lv:
                found = norm(c.func.value)
    if found is None and comp_lists:
        found = next(iter(comp_lists))

    def atom_waiting(e):
        a = cmp_atom(e)
        if a and a[0] == f"{lv}.state" and a[2].endswith("TrialState.WAITING"):
            return True if a[1] in (ast.Eq, ast.Is) else (False if a[1] in (ast.NotEq, ast.IsNot) else None)
        return None

    def atom_empty(e):
        if isinstance(e, ast.Name) and e.id == found:
            return False  # truthy list = non-empty
        a = cmp_atom(e)
        if a and a[0] == f"len({found})" and a[2] == "0":
            return True if a[1] is ast.Eq else (False if a[1] in (ast.Gt, ast.NotEq) else None)
        return None

    def classify_value(e):
        """('first', quantity) | ('end', None) | ('bad', why) | ('unknown', text)"""
        if isinstance(e, ast.Call) and dotted(e.func) == "len" and e.args and norm(resolve(e.args[0], defs)) == TRIALS:
            return "end", None
        base, off = e, 0
        if isinstance(e, ast.BinOp) and isinstance(e.right, ast.Constant) and isinstance(e.right.value, int) and isinstance(e.op, (ast.Add, ast.Sub)):
            base, off = e.left, e.right.value if isinstance(e.op, ast.Add) else -e.right.value
        if isinstance(base, ast.Attribute):
            owner = base.value
            is_first = (isinstance(owner, ast.Name) and owner.id == lv) or \
                       (isinstance(owner, ast.Subscript) and isinstance(owner.value, ast.Name) and owner.value.id in comp_lists
                        and isinstance(owner.slice, ast.Constant) and owner.slice.value == 0)
            later = isinstance(owner, ast.Subscript) and isinstance(owner.value, ast.Name) and owner.value.id in comp_lists and not is_first
            if is_first:
                if base.attr != "number":
                    return "bad", f"`{norm(e)}` is not a trial *number* (the cursor indexes the per-study list)"
                if off > 0:
                    return "bad", f"`{norm(e)}` lies beyond the first WAITING trial found"
                return "first", off
            if later:
                return "bad", f"`{norm(e)}` is not the first WAITING trial found"
        return "unknown", norm(e)

    for st in cur_stores:
        arms = []  # (expr, condition description: None | 'nonempty' | 'empty')

        def split(e, cond):
            if isinstance(e, ast.IfExp):
                pol = edges_where(e.test, atom_empty)
                split(e.body, "empty" if pol.get("t") is True else ("nonempty" if pol.get("t") is False else cond))
                split(e.orelse, "empty" if pol.get("f") is True else ("nonempty" if pol.get("f") is False else cond))
            else:
                arms.append((e, cond))
        split(st.ast.value, None)
        for e, cond in arms:
            kind, info = classify_value(e)
            if kind == "unknown":
                ctx.require(False, f"R04.3: unrecognised cursor value `{info}`")
            ctx.check(kind != "bad", "R04.3", f.short, f"cursor-value:{norm(e)[:40]}",
                      message=f"the WAITING cursor is set to {info}: queued trials below it are never listed again", how="cursor := number of the first WAITING trial / len(trials)",
                      where=where(f, st.ast))
            if kind == "first":
                if st in in_loop:
                    acc_w = [(t, k, m) for t in g.stmt_nodes() if t.kind == "test" for k, m in t.succ if edges_where(t.expr, atom_waiting).get(k) is True]
                    acc_e = [(t, k, m) for t in g.stmt_nodes() if t.kind == "test" for k, m in t.succ if edges_where(t.expr, atom_empty).get(k) is True]
                    r1 = g.reachable(body0, avoid_nodes=[scan], avoid_edges=acc_w)
                    r2 = g.reachable(body0, avoid_nodes=[scan], avoid_edges=acc_e)
                    ctx.check(bool(acc_w) and st not in r1, "R04.3", f.short, "cursor-only-at-WAITING-trial",
                              message="the cursor can be moved to a trial that is not WAITING", how="store dominated (within the iteration) by `trial.state == WAITING`")
                    ctx.check(bool(acc_e) and st not in r2, "R04.3", f.short, "cursor-only-at-first-found",
                              message="the cursor can be moved to a later WAITING trial although an earlier one was found (the earlier one is skipped by all later listings)",
                              how="store dominated (within the iteration) by `no WAITING trial found yet`")
                else:
                    ctx.check(cond == "nonempty", "R04.3", f.short, "cursor-first-only-if-found",
                              message="first-found cursor value used without testing that a WAITING trial was found", how="arm selected when the found-list is non-empty")
            if kind == "end":
                if cond is None:
                    acc_e = [(t, k, m) for t in g.stmt_nodes() if t.kind == "test" for k, m in t.succ if edges_where(t.expr, atom_empty).get(k) is True]
                    ok_end = bool(acc_e) and g.dominated_by(st, [], acc_e)
                else:
                    ok_end = cond == "empty"
                ctx.check(ok_end, "R04.3", f.short, "cursor-to-end-only-if-none-found",
                          message="the cursor jumps to the end although WAITING trials were found", how="only when no WAITING trial was found")
    # cursor removed with the study, created with it
    dl = p.cls(INMEM).methods["delete_study"]
    ok = any(isinstance(n, ast.Delete) and any(norm(t) == "self._prev_waiting_trial_number[study_id]" for t in n.targets) for n in own_nodes(dl.node))
    ctx.check(ok, "R04.3", dl.short, "cursor-deleted-with-study", message="delete_study keeps the WAITING cursor of the study", how="del statement")

    # ------------------------------------------------------------ R04.4 journal ownership
    ctx.rule("R04.4", "journal ownership map: written only by the issuer, keyed by this worker, on the successful RUNNING "
             "transition; read inside the critical section for the return value")
    rcls = p.cls(REPLAY)
    # a claim by another worker is seen only if the record carrying it is replayed: the cursor moves one record at a time
    from rules.c06 import cursor_per_record
    cursor_per_record(ctx, "R04.4", rcls)
    n_w = 0
    for mname, f in sorted(rcls.methods.items()):
        g = CFG(f.node, name=f.qualname)
        for n in g.stmt_nodes():
            if n.kind == "stmt" and isinstance(n.ast, (ast.Assign, ast.AugAssign, ast.Delete)):
                tg = n.ast.targets if not isinstance(n.ast, ast.AugAssign) else [n.ast.target]
                for t in tg:
                    if isinstance(t, ast.Subscript) and self_attr(t.value) == "_worker_id_to_owned_trial_id":
                        n_w += 1
                        key_ok = norm(t.slice) == "self.worker_id"
                        val_ok = isinstance(n.ast, ast.Assign) and norm(n.ast.value) == "trial_id"

                        def atom_issuer(e):
                            if isinstance(e, ast.Call) and self_attr(e.func) == "_is_issued_by_this_worker":
                                return True
                            return None
                        acc = []
                        for tt in g.stmt_nodes():
                            if tt.kind == "test":
                                pol = edges_where(tt.expr, atom_issuer)
                                for k, m in tt.succ:
                                    if pol.get(k) is True:
                                        acc.append((tt, k, m))
                        under = bool(acc) and g.dominated_by(n, [], acc)
                        ctx.check(key_ok and val_ok and under, "R04.4", f.short, "ownership-write",
                                  message=f"{mname}: ownership map written with key `{norm(t.slice)}` / value "
                                          f"`{norm(getattr(n.ast, 'value', None)) if getattr(n.ast, 'value', None) is not None else None}`"
                                          f"{'' if under else ' outside the issuer branch'}: another worker's replay would record "
                                          f"a claim it never made", how="self._worker_id_to_owned_trial_id[self.worker_id] = trial_id under the issuer test",
                                  where=where(f, n.ast))
                        if mname == "_apply_set_trial_state_values":
                            # only on the successful RUNNING transition: after the reject helper and
                            # the RUNNING->RUNNING early return, under state == RUNNING
                            from sa.enumdom import explore, TRIAL_STATES, FINISHED
                            bad = []
                            cur_texts = {norm(x) for x in own_nodes(f.node) if isinstance(x, ast.Attribute) and x.attr == "state"
                                         and norm(x.value) not in ("self",) and not norm(x.value).endswith("TrialState")}
                            for req in TRIAL_STATES:
                                for cur in TRIAL_STATES:
                                    env = {"state": req, "__cur__": cur}
                                    for ct in cur_texts:
                                        env[ct] = cur
                                    reach = explore(g, env, [_cas.model_updatable], stop_at=[n])
                                    if n in reach and not (req == "RUNNING" and cur == "WAITING"):
                                        bad.append((req, cur))
                            ctx.check(not bad, "R04.4", f.short, "ownership-only-on-successful-claim",
                                      message=f"ownership is recorded for (requested, stored) = {bad}: a failed claim would be reported as won",
                                      how="write reachable only for (RUNNING, WAITING)")
    ctx.floor("R04.4", "ownership_writes", n_w, 2)
    # the result of a RUNNING request is read from the ownership map *after* replay: a request that did not perform the
    # WAITING->RUNNING transition must not find a stale entry for the same trial (left by an earlier successful claim or by
    # creating the trial RUNNING), otherwise the loser/repeater is told True while every other backend says False
    f = rcls.methods["_apply_set_trial_state_values"]
    g = CFG(f.node, name=f.qualname)
    from sa.enumdom import explore as _explore
    cur_texts = {norm(x) for x in own_nodes(f.node) if isinstance(x, ast.Attribute) and x.attr == "state"
                 and norm(x.value) not in ("self",) and not norm(x.value).endswith("TrialState")}
    env = {"state": "RUNNING", "__cur__": "RUNNING"}
    for ct in cur_texts:
        env[ct] = "RUNNING"
    nodes, edges = _explore(g, env, [_cas.model_updatable], return_edges=True)
    clears = []
    for n in nodes:
        for x in n.walk():
            if isinstance(x, ast.Call) and isinstance(x.func, ast.Attribute) and x.func.attr in ("pop", "clear") and self_attr(x.func.value) == "_worker_id_to_owned_trial_id":
                clears.append(n)
        if n.kind == "stmt" and isinstance(n.ast, ast.Delete) and any(isinstance(t, ast.Subscript) and self_attr(t.value) == "_worker_id_to_owned_trial_id" for t in n.ast.targets):
            clears.append(n)

    def atom_issuer2(e):
        if isinstance(e, ast.Call) and self_attr(e.func) == "_is_issued_by_this_worker":
            return True
        return None
    non_issuer = [(t, k, m) for t in g.stmt_nodes() if t.kind == "test" for k, m in t.succ if edges_where(t.expr, atom_issuer2).get(k) is False]
    ok_edge = lambda a, k, b: (a, k, b) in edges and k not in ("e", "reraise") and (a, k, b) not in non_issuer  # noqa: E731
    r = g.reachable([g.entry], avoid_nodes=clears, edge_ok=ok_edge)
    # the public method may instead reset the entry before appending its record
    jf = p.cls(JOURNAL).methods["set_trial_state_values"]
    pre_reset = any(isinstance(x, ast.Call) and isinstance(x.func, ast.Attribute) and x.func.attr in ("pop", "clear") and "_worker_id_to_owned_trial_id" in norm(x.func.value)
                    for x in own_nodes(jf.node))
    ctx.check(pre_reset or g.exit not in r, "R04.4", f.short, "no-stale-ownership-after-failed-claim",
              message="a RUNNING request on a trial that is already RUNNING leaves this worker's ownership entry untouched: if it points at that trial "
                      "(earlier successful claim, or the worker created the trial RUNNING) JournalStorage.set_trial_state_values returns True although no "
                      "WAITING->RUNNING transition happened - in-memory and RDB return False",
                  how="explored with (requested, stored) = (RUNNING, RUNNING) for the issuer: the ownership entry is cleared on every path to the exit")
    f = rcls.methods.get("owned_trial_id")
    ctx.require(f is not None, "R04.4: owned_trial_id vanished")
    rets = [norm(n.value) for n in own_nodes(f.node) if isinstance(n, ast.Return) and n.value is not None]
    ctx.check(rets == ["self._worker_id_to_owned_trial_id.get(self.worker_id)"], "R04.4", f.short, "owned-lookup",
              message=f"owned_trial_id returns {rets}", how="map.get(self.worker_id)")
    # the claim protocol tells workers apart by `worker_id` alone: two concurrent workers with one id both see the
    # other's claim as their own. The id must therefore separate (a) storage objects - a random prefix chosen per
    # object and chosen again after unpickling, (b) processes that share an object through fork - the process id,
    # (c) threads sharing an object - the thread identifier.
    f = rcls.methods.get("worker_id")
    ctx.require(f is not None, "R04.4: JournalStorageReplayResult.worker_id vanished")
    rexprs = [n.value for n in own_nodes(f.node) if isinstance(n, ast.Return) and n.value is not None]
    ctx.require(rexprs, "R04.4: worker_id returns nothing")
    wdefs = single_defs(f.node)
    for src, why in (("self._worker_id_prefix", "storage objects (separate processes / hosts, unpickled copies)"),
                     ("os.getpid()", "a forked child and its parent, which share the prefix and the main thread's identifier"),
                     ("threading.get_ident()", "threads sharing one storage object")):
        ok = all(src in norm(resolve(e, wdefs)) for e in rexprs)
        ctx.check(ok, "R04.4", f.short, f"worker-id-covers:{src}",
                  message=f"worker_id does not include {src}: it does not tell apart {why}; both would read the other's RUNNING claim as "
                          f"their own, so a queued trial is claimed twice or by nobody",
                  how="the returned expression contains the per-object prefix, os.getpid() and threading.get_ident()")
    jc = p.cls(JOURNAL)
    for mname in ("__init__", "__setstate__"):
        mf = jc.methods.get(mname)
        ctx.require(mf is not None, f"R04.4: JournalStorage.{mname} vanished")
        asg = [n for n in own_nodes(mf.node) if isinstance(n, ast.Assign) and any(self_attr(t) == "_worker_id_prefix" for t in n.targets)]
        ok = bool(asg) and all(any(isinstance(c, ast.Call) and (dotted(c.func) or "").endswith("uuid4") for c in ast.walk(a.value)) for a in asg)
        ctx.check(ok, "R04.4", mf.short, "worker-id-prefix-fresh",
                  message=f"JournalStorage.{mname} does not draw a fresh random worker-id prefix: two storage objects (or an object and its unpickled copy) "
                          f"would share worker ids", how="self._worker_id_prefix = <uuid4-based>")
    f = p.cls(JOURNAL).methods.get("set_trial_state_values")
    ctx.require(f is not None, "R04.4: JournalStorage.set_trial_state_values vanished")
    g = CFG(f.node, name=f.qualname)
    from sa.enumdom import ev
    # return value: False iff state == RUNNING and trial_id != owned
    bad = []
    for req in ("RUNNING", "COMPLETE", "WAITING", "FAIL", "PRUNED"):
        for owned in (True, False):
            def model(call, env, owned=owned):
                return None
            # evaluate the branch conditions structurally
            for t in [t for t in g.stmt_nodes() if t.kind == "test"]:
                txt = norm(t.expr)
                if "owned_trial_id" in txt:
                    # expected shape: state == RUNNING and trial_id != owned
                    exp = t.expr
                    ok_shape = (isinstance(exp, ast.BoolOp) and isinstance(exp.op, ast.And) and len(exp.values) == 2)
                    if ok_shape:
                        a0 = cmp_atom(exp.values[0])
                        a1 = cmp_atom(exp.values[1])
                        parts = {(a[1].__name__, frozenset((a[0], a[2]))) for a in (a0, a1) if a}
                        ok_shape = parts == {("Eq", frozenset(("state", "TrialState.RUNNING"))),
                                             ("NotEq", frozenset(("trial_id", "self._replay_result.owned_trial_id")))}
                    if not ok_shape:
                        bad.append(txt)
                    else:
                        tr = [m for k, m in t.succ if k == "t"]
                        fl = [m for k, m in t.succ if k == "f"]
                        rt = [n for n in g.reachable(tr) - g.reachable(fl) if n.kind == "stmt" and isinstance(n.ast, ast.Return)]
                        rf = [n for n in g.reachable(fl) - g.reachable(tr) if n.kind == "stmt" and isinstance(n.ast, ast.Return)]
                        if not (rt and all(isinstance(n.ast.value, ast.Constant) and n.ast.value.value is False for n in rt)
                                and rf and all(isinstance(n.ast.value, ast.Constant) and n.ast.value.value is True for n in rf)):
                            bad.append("return polarity")
    has_test = any("owned_trial_id" in norm(t.expr) for t in g.stmt_nodes() if t.kind == "test")
    ctx.check(has_test and not bad, "R04.4", f.short, "claim-result-from-ownership",
              message=f"JournalStorage.set_trial_state_values does not return False exactly when a RUNNING request did not "
                      f"make this worker the owner ({sorted(set(bad))})",
              how="`state == RUNNING and trial_id != owned_trial_id` -> False else True")

    # ------------------------------------------------------------ R04.5 fixed params
    ctx.rule("R04.5", "Trial._suggest: reuse -> fixed -> single -> relative -> independent; fixed value passed verbatim; "
             "enqueue_trial stores params/user_attrs unchanged")
    tcls = p.cls(TRIAL)
    from rules._suggest import suggest_chain
    suggest_chain(ctx, "R04.5")
    # provenance of _fixed_params
    init = tcls.methods.get("__init__")
    src = [norm(n.value) for n in own_nodes(init.node) if isinstance(n, ast.Assign) and any(self_attr(t) == "_fixed_params" for t in n.targets)]
    ctx.check(src == ["self._cached_frozen_trial.system_attrs.get('fixed_params', {})"], "R04.5", init.short, "fixed-params-source",
              message=f"Trial._fixed_params is initialised from {src}", how="system_attrs['fixed_params'] of the trial fetched in __init__")
    others = [m for m, mf in tcls.methods.items() if m != "__init__" for n in own_nodes(mf.node)
              if isinstance(n, (ast.Assign, ast.AugAssign)) and any(self_attr(t) == "_fixed_params" or (isinstance(t, ast.Subscript) and self_attr(t.value) == "_fixed_params")
                                                                   for t in (n.targets if isinstance(n, ast.Assign) else [n.target]))]
    ctx.check(not others, "R04.5", init.short, "fixed-params-immutable", message=f"_fixed_params modified in {others}", how="no writers outside __init__")
    from rules._suggest import fixed_iff_rule
    fixed_iff_rule(ctx, "R04.5")
    # enqueue_trial
    scls = p.cls(STUDY)
    f = scls.methods.get("enqueue_trial")
    ctx.require(f is not None, "R04.5: Study.enqueue_trial vanished")
    cts = [c for c in own_nodes(f.node) if isinstance(c, ast.Call) and (dotted(c.func) or "").endswith("create_trial")]
    ok = False
    for c in cts:
        st = kwarg(c, "state")
        sa_ = kwarg(c, "system_attrs")
        ua = kwarg(c, "user_attrs")
        ok = (st is not None and norm(st).endswith("TrialState.WAITING") and sa_ is not None and norm(sa_) == "{'fixed_params': params}"
              and ua is not None and norm(ua) == "user_attrs")
    ctx.check(ok, "R04.5", f.short, "enqueue-stores-params-verbatim",
              message="enqueue_trial does not create a WAITING trial with system_attrs={'fixed_params': params} and user_attrs unchanged",
              how="keyword provenance in create_trial(...)")
    g = CFG(f.node, name=f.qualname)
    adds = [n for n in g.stmt_nodes() for c in n.calls() if self_attr(c.func) == "add_trial"]
    ctx.check(bool(adds), "R04.5", f.short, "enqueue-adds-trial", message="enqueue_trial no longer calls add_trial", how="add_trial call")

    # ------------------------------------------------------------ R04.6 a retry is a queue entry too
    ctx.rule("R04.6", "RetryFailedTrialCallback re-queues the failed trial with its system attrs (fixed_params included), params, "
             "distributions and user attrs unchanged; only the retry bookkeeping keys are written")
    from rules import _retry
    _retry.retry_keeps_queue_entry(ctx, "R04.6")
    # a queue entry is a snapshot of what was enqueued: the in-memory backend keeps the template trial's own objects
    # unless it deep-copies them (RDB / journal serialise), so a caller that re-uses its params dict for the next
    # enqueue_trial would change the values the worker of the earlier entry is handed
    im = p.func(INMEM + ".create_new_trial")
    prm = im.params()
    tvar = prm[2] if len(prm) > 2 else "template_trial"
    stored = [n for n in own_nodes(im.node) if isinstance(n, ast.Assign) and isinstance(n.value, ast.Call) and n.value.args and norm(n.value.args[0]) == tvar]
    ok = bool(stored) and all(dotted(n.value.func) in ("copy.deepcopy", "deepcopy") for n in stored)
    ctx.check(ok, "R04.6", im.short, "queue-entry-is-a-deep-copy",
              message=f"InMemoryStorage.create_new_trial keeps `{norm(stored[0].value) if stored else tvar}`: the queued trial shares its params / fixed_params / user_attrs "
                      f"dicts with the caller, so mutating the dict after enqueue_trial (the grid-loop idiom) changes what the worker receives",
              how="trial = copy.deepcopy(template_trial)")

    # ------------------------------------------------------------ R04.7 every worker's listing sees every queued trial
    ctx.rule("R04.7", "a queued trial is visible to every asking worker: the client caches that sit between Study._pop_waiting_trial_id and the backend refresh "
             "with an incremental fetch that is not filtered by state (a filtered fetch lets the watermark jump over a WAITING trial of another worker)")
    from rules.c08 import fetch_is_unfiltered
    n7 = 0
    for q in ("optuna.storages._cached_storage._CachedStorage", "optuna.storages._grpc.client.GrpcClientCache"):
        n7 += fetch_is_unfiltered(ctx, "R04.7", p.cls(q))
    ctx.floor("R04.7", "incremental_fetch_sites", n7, 2)
    # ... and the watermark below which nothing is fetched again only ever advances to the id of a trial that came out of
    # that fetch: a watermark raised from this client's own finished trial (add_trial of a COMPLETE trial) jumps over a
    # trial another worker enqueued in the meantime, which then stays WAITING forever for this client (the R08.1 clauses)
    from rules.c08 import check_cache_class
    from sa.report import RuleAlias
    actx = RuleAlias(ctx, {"R08.1": "R04.7"})
    ns = 0
    for q, label in (("optuna.storages._cached_storage._CachedStorage", "_CachedStorage"), ("optuna.storages._grpc.client.GrpcClientCache", "GrpcClientCache")):
        ns += check_cache_class(actx, p.cls(q), label, 1)[0]
    ctx.floor("R04.7", "watermark_stores", ns, 2)

