"""C05 - sync-before-acknowledge and rollback ordering (structural part of crash safety)."""
from __future__ import annotations

import ast

from rules import _jfile as J
from sa.cfg import CFG, handler_names
from sa.loader import dotted, norm, own_nodes
from sa.locks import ClassLockInfo, EXEMPT
from sa.util import enclosing_with_items, parent_map, self_attr, where, ancestors

PROPERTY = "C05"
JOURNAL = "optuna.storages.journal._storage.JournalStorage"
CACHED = "optuna.storages._cached_storage._CachedStorage"
RDBMOD = "optuna.storages._rdb.storage"
RDB = RDBMOD + ".RDBStorage"
NORMAL = J.NORMAL

# _CachedStorage mutator -> the backend method that must have completed first (write-through)
CACHED_MUTATORS = {
    "create_new_study": "create_new_study",
    "delete_study": "delete_study",
    "set_study_user_attr": "set_study_user_attr",
    "set_study_system_attr": "set_study_system_attr",
    "create_new_trial": "_create_new_trial",
    "set_trial_param": "set_trial_param",
    "set_trial_state_values": "set_trial_state_values",
    "set_trial_intermediate_value": "set_trial_intermediate_value",
    "set_trial_user_attr": "set_trial_user_attr",
    "set_trial_system_attr": "set_trial_system_attr",
}
REMOVALS = {"pop", "remove", "discard", "clear", "popitem"}


def run(ctx):
    p = ctx.program
    ctx.explanation = (
        "Ordering facts that make an acknowledged write durable and an interrupted one "
        "all-or-nothing: the journal append is write->flush->fsync (one write per batch, append "
        "mode only) before the lock region is left; every JournalStorage mutator returns only "
        "after _write_log -> append_logs; the cache layer updates its maps and returns only after "
        "the backend call (write-through); _create_scoped_session commits only on the normal "
        "continuation, rolls back first in every except arm and closes in finally; every RDB "
        "mutator writes inside a single transaction region; the file lock is released on all "
        "exits. Decides ordering on all paths; does not decide behaviour after a torn record, "
        "stale-lock take-over timing or SQLite journal semantics (runtime file/DB contents).")
    ctx.assume("os.fsync makes the appended bytes durable; a SQLAlchemy session commit is atomic")

    ctx.rule("R05.1", "append_logs: one write, then flush, then fsync on every normal path out of the open block")
    J.rule_append_ordering(ctx, "R05.1")
    ctx.rule("R05.6", "an append starts on a record boundary: the tail of the file is inspected (and a torn record dealt with) before the write")
    J.rule_append_starts_on_record_boundary(ctx, "R05.6")
    ctx.rule("R05.2", "journal file only opened 'ab'/'rb'; never truncated/replaced (zero-count, with fixture)")
    J.rule_append_only(ctx, "R05.2")
    J.fixture_append_only(ctx, "R05.2")

    # ------------------------------------------------------------ R05.3 ack after durability
    ctx.rule("R05.3", "JournalStorage mutators return only after _write_log->append_logs; "
             "_CachedStorage inserts/updates its cache and returns only after the backend call")
    jcls = p.cls(JOURNAL)
    wl = p.lookup_method(jcls, "_write_log")
    ctx.require(wl is not None, "R05.3: JournalStorage._write_log vanished")
    g = CFG(wl.node, name=wl.qualname)
    app = [n for n in g.stmt_nodes() for c in n.calls() if norm(c.func) == "self._backend.append_logs"]
    ok = bool(app) and g.exit not in g.reachable([g.entry], avoid_nodes=app, edge_ok=NORMAL)
    ctx.check(ok, "R05.3", wl.short, "write_log-appends",
              message="_write_log can return without calling self._backend.append_logs",
              how="append_logs on every normal path of _write_log",
              witness=g.witness([g.exit], guards=app, edge_ok=NORMAL))
    # the record handed to append_logs carries op_code and worker_id and the extra fields
    n_mut = 0
    for mname, f in sorted(jcls.methods.items()):
        if mname in EXEMPT or mname.startswith("_") or mname.startswith("get_") or mname == "restore_replay_result":
            continue
        g = CFG(f.node, name=f.qualname)
        w = [n for n in g.stmt_nodes() for c in n.calls() if self_attr(c.func) == "_write_log"]
        n_mut += 1
        ok = bool(w) and g.exit not in g.reachable([g.entry], avoid_nodes=w, edge_ok=NORMAL)
        ctx.check(ok, "R05.3", f.short, "ack-after-append",
                  message=f"JournalStorage.{mname} can return (acknowledge) without having appended "
                          f"its record to the log", how="_write_log on every normal path to return",
                  witness=g.witness([g.exit], guards=w, edge_ok=NORMAL))
    ctx.floor("R05.3", "journal_mutators", n_mut, 10)

    ccls = p.cls(CACHED)
    info = ClassLockInfo(p, ccls, "_lock")
    n_c = 0
    for mname, backend_m in sorted(CACHED_MUTATORS.items()):
        f = ccls.methods.get(mname)
        ctx.require(f is not None, f"R05.3: _CachedStorage.{mname} vanished")
        n_c += 1
        g = CFG(f.node, name=f.qualname)
        b = [n for n in g.stmt_nodes() for c in n.calls() if norm(c.func) == f"self._backend.{backend_m}"]
        ok = bool(b) and g.exit not in g.reachable([g.entry], avoid_nodes=b, edge_ok=NORMAL)
        ctx.check(ok, "R05.3", f.short, "ack-after-backend-write",
                  message=f"_CachedStorage.{mname} can return without self._backend.{backend_m} having run",
                  how="backend call on every normal path to return",
                  witness=g.witness([g.exit], guards=b, edge_ok=NORMAL))
        # cache insertions/updates are dominated by the backend call
        pm = parent_map(f.node)
        for a in info.accesses[mname]:
            if a.field not in info.guarded or a.kind == "read":
                continue
            st = a.node
            while not isinstance(st, ast.stmt):
                st = pm[id(st)]
            removal = isinstance(st, ast.Delete)
            par = pm.get(id(a.node))
            # climb to the call, if the mutation is a method call
            cur = a.node
            while id(cur) in pm and not isinstance(pm[id(cur)], ast.stmt):
                cur = pm[id(cur)]
                if isinstance(cur, ast.Call) and isinstance(cur.func, ast.Attribute) and cur.func.attr in REMOVALS:
                    removal = True
            if removal:
                continue
            nodes = g.nodes_of(st)
            dom = bool(b) and all(g.dominated_by(n, b) for n in nodes)
            ctx.check(dom, "R05.3", f.short, f"cache-update-after-backend:{a.field}",
                      message=f"_CachedStorage.{mname} updates cache field {a.field} before the backend "
                              f"write has succeeded (cache could show a write that was never persisted)",
                      how="backend call dominates the cache insertion/update", where=where(f, a.node))
        # helper-mediated updates (_add_trials_to_cache) as well
        for n in g.stmt_nodes():
            for c in n.calls():
                h = self_attr(c.func)
                if h and h.startswith("_add_") and h in ccls.methods:
                    ctx.check(bool(b) and g.dominated_by(n, b), "R05.3", f.short, f"cache-update-after-backend:{h}",
                              message=f"_CachedStorage.{mname} calls {h} before the backend write",
                              how="backend call dominates the cache helper call")
    ctx.floor("R05.3", "cached_mutators", n_c, 10)

    # ------------------------------------------------------------ R05.4 transactions
    ctx.rule("R05.4", "_create_scoped_session: commit only after the body completed normally, "
             "rollback first in every except arm, close in finally; each RDB mutator writes in one region")
    f = p.func(RDBMOD + "._create_scoped_session")
    g = CFG(f.node, name=f.qualname)
    yl = [n for n in g.stmt_nodes() if any(isinstance(x, ast.Yield) for x in n.walk())]
    cm = [n for n in g.stmt_nodes() for c in n.calls() if norm(c.func) == "session.commit"]
    cl = [n for n in g.stmt_nodes() for c in n.calls() if norm(c.func) == "session.close"]
    # `with closing(session):` closes at every exit of the block (the CFG has one with_exit node per continuation)
    cl += [n for n in g.nodes if n.kind == "with_exit" and getattr(n, "extra", None) is not None
           and norm(n.extra.context_expr) in ("closing(session)", "contextlib.closing(session)")]
    rb = [n for n in g.stmt_nodes() for c in n.calls() if norm(c.func) == "session.rollback"]
    ctx.require(len(yl) == 1, "R05.4: _create_scoped_session must have exactly one yield")
    y = yl[0]
    yedges = [(y, k, m) for k, m in y.succ if k == "n"]
    ok = bool(cm) and all(g.dominated_by(c, [], yedges) for c in cm)
    ctx.check(ok, "R05.4", f.short, "commit-only-after-normal-body",
              message="session.commit() is reachable without the with-body having completed normally",
              how="the normal out-edge of `yield` dominates commit", witness=g.witness(cm, edges=yedges))
    # normal exit passes commit
    ok = g.exit not in g.reachable([m for _, _, m in yedges], avoid_nodes=cm, edge_ok=NORMAL)
    ctx.check(ok, "R05.4", f.short, "normal-exit-commits",
              message="the scoped session can end normally without commit()",
              how="commit on every normal path from yield to exit")
    # every except arm: first statement is session.rollback()
    hs = [h for h in own_nodes(f.node) if isinstance(h, ast.ExceptHandler)]
    ctx.floor("R05.4", "except_arms", len(hs), 3)
    for h in hs:
        first = h.body[0] if h.body else None
        ok = (isinstance(first, ast.Expr) and isinstance(first.value, ast.Call)
              and norm(first.value.func) == "session.rollback")
        ctx.check(ok, "R05.4", f.short, "rollback-first:" + ",".join(handler_names(h.type)),
                  message=f"`except {norm(h.type) if h.type else ''}` arm of _create_scoped_session does "
                          f"not start with session.rollback()", how="first statement is rollback",
                  where=where(f, h))
    # the handlers cover every exception of the body: last arm catches Exception
    caught = [nm for h in hs for nm in handler_names(h.type)]
    ctx.check("Exception" in caught or "BaseException" in caught, "R05.4", f.short, "catch-all-arm",
              message="no `except Exception` arm: some failures of the body would skip rollback",
              how="an arm catching Exception exists")
    # exceptional exits after yield pass a rollback; all exits pass close
    exc_starts = [m for k, m in y.succ if k == "e"]
    reach = g.reachable(exc_starts, avoid_nodes=rb, edge_ok=lambda a, k, b: not (a.kind == "except" and k == "nomatch" and _is_last_nomatch(a)))
    # (KeyboardInterrupt etc. bypass `except Exception`; only Exception-derived paths are claimed)
    ok = g.exit not in reach
    ctx.check(ok, "R05.4", f.short, "exception-path-rolls-back",
              message="an exception in the with-body can end the session normally without rollback",
              how="paths from the exceptional out-edge of yield through a matching arm pass rollback")
    # a failing commit is handled like a failing body: its exception edge leads into the same arms
    for c in cm:
        cexc = [m for k, m in c.succ if k == "e"]
        reach_c = g.reachable(cexc, avoid_nodes=rb, edge_ok=lambda a, k, b: not (a.kind == "except" and k == "nomatch" and _is_last_nomatch(a)))
        ctx.check(bool(cexc) and cexc[0].kind == "except" and g.exit not in reach_c, "R05.4", f.short, "commit-failure-rolls-back",
                  message="an exception raised by session.commit() is not routed through the rollback arms (commit moved out of the try body?)",
                  how="exception edge of commit enters the except chain; matching arms roll back")
    s0 = [n for n in g.stmt_nodes() if n.kind == "stmt" and isinstance(n.ast, ast.Assign) and norm(n.ast.targets[0]) == "session"]
    ctx.require(s0, "R05.4: session creation statement not found")
    starts = [m for k, m in s0[0].succ if k == "n"]
    # constructing the closing() wrapper itself cannot fail (it stores its argument)
    _wrap_ok = lambda a, k, b: not (a.kind == "with_enter" and k == "e" and getattr(a, "extra", None) is not None  # noqa: E731
                                    and norm(a.extra.context_expr) in ("closing(session)", "contextlib.closing(session)"))
    reach = g.reachable(starts, avoid_nodes=cl, edge_ok=_wrap_ok)
    ok = bool(cl) and g.exit not in reach and g.raise_exit not in reach
    ctx.check(ok, "R05.4", f.short, "close-on-all-exits",
              message="the session can be left open on some exit", how="session.close() on every path to any exit",
              witness=g.witness([g.exit, g.raise_exit], guards=cl, src=starts[0]))

    # one write region per public RDB mutator
    rdb = p.cls(RDB)
    writers = {m for m in rdb.methods if m.endswith("_without_commit")} | {"_get_prepared_new_trial"}
    n_m = 0
    written_regions = {}
    for mname, fm in sorted(rdb.methods.items()):
        if mname.startswith("__"):
            continue
        pm = parent_map(fm.node)
        regions = {}
        model_locals = {t.id for n in own_nodes(fm.node) if isinstance(n, ast.Assign)
                        and isinstance(n.value, ast.Call) and (dotted(n.value.func) or "").startswith("models.")
                        for t in n.targets if isinstance(t, ast.Name)}
        written_regions[mname] = regions
        for n in own_nodes(fm.node):
            is_w = False
            if (isinstance(n, ast.Attribute) and isinstance(n.ctx, ast.Store)
                    and isinstance(n.value, ast.Name) and n.value.id in model_locals):
                is_w = True  # attribute store on an ORM row
            if isinstance(n, ast.Call):
                fn = norm(n.func)
                if fn in ("session.add", "session.delete", "session.execute", "session.merge", "session.flush"):
                    # session.execute(sqlalchemy.func.now()) is a read
                    is_w = not (fn == "session.execute" and n.args and "func.now" in norm(n.args[0]))
                if self_attr(n.func) in writers:
                    is_w = True
                if isinstance(n.func, ast.Attribute) and n.func.attr == "check_and_add":
                    is_w = True
            if not is_w:
                continue
            regs = [it for it in enclosing_with_items(n, pm)
                    if isinstance(it.context_expr, ast.Call) and (dotted(it.context_expr.func) or "").endswith("_create_scoped_session")]
            if "session" in fm.params():
                continue  # helper running in the caller's region
            key = id(regs[-1]) if regs else None
            regions.setdefault(key, []).append(n)
            if len(regs) > 1:
                ctx.fail("R05.4", fm.short, "nested-transaction-region",
                         f"RDBStorage.{mname} opens a _create_scoped_session region inside another one: "
                         f"the inner commit makes part of the call durable before the rest",
                         where=where(fm, n))
        if not regions:
            continue
        n_m += 1
        ctx.check(None not in regions and len(regions) == 1, "R05.4", fm.short, "single-write-region",
                  message=f"RDBStorage.{mname} writes in {len(regions)} transaction regions"
                          + (" / outside any region" if None in regions else "")
                          + " (an interruption between them leaves a half-applied call)",
                  how="all writer statements inside one _create_scoped_session region")
    ctx.floor("R05.4", "rdb_write_methods", n_m, 9)

    # the scoped session is one object per thread: a storage method that opens its own region, called from inside a
    # region, commits and closes the caller's session half-way (resolved through self-calls, transitively)
    def _is_region(it):
        return isinstance(it.context_expr, ast.Call) and (dotted(it.context_expr.func) or "").endswith("_create_scoped_session")
    opens = {m for m, fm in rdb.methods.items() if any(isinstance(n, (ast.With, ast.AsyncWith)) and any(_is_region(it) for it in n.items) for n in own_nodes(fm.node))}
    changed = True
    while changed:
        changed = False
        for m, fm in rdb.methods.items():
            if m not in opens and any(isinstance(c, ast.Call) and self_attr(c.func) in opens for c in own_nodes(fm.node)):
                opens.add(m)
                changed = True
    n_reg = 0
    for mname, fm in sorted(rdb.methods.items()):
        pm = parent_map(fm.node)
        for c in own_nodes(fm.node):
            if not (isinstance(c, ast.Call) and self_attr(c.func) in opens):
                continue
            regs = [it for it in enclosing_with_items(c, pm) if _is_region(it)]
            n_reg += 1
            # a read-only region (get_best_trial) has nothing to make durable early
            regs = [it for it in regs if id(it) in written_regions.get(mname, {})]
            ctx.check(not regs, "R05.4", fm.short, f"no-region-opened-inside-a-region:{self_attr(c.func)}",
                      message=f"RDBStorage.{mname} calls self.{self_attr(c.func)}(...) inside its _create_scoped_session block, and that method opens the (thread-local, "
                              f"hence the same) scoped session again: its exit commits and closes the caller's session, so what {mname} wrote before the call is durable "
                              f"on its own and the rest goes into a second transaction - a crash in between leaves a half-applied call",
                      how="calls to region-opening methods are made outside the caller's writing region", where=where(fm, c))
    ctx.floor("R05.4", "calls_to_region_opening_methods", n_reg, 3)

    # a transaction that failed and was rolled back must reach the caller as an exception: a handler that turns it into a normal return
    # acknowledges a write that is not there (Study.tell ignores the boolean of set_trial_state_values)
    n_h = 0
    for mname, fm in sorted(rdb.methods.items()):
        if not written_regions.get(mname):
            continue
        for h in own_nodes(fm.node):
            if not isinstance(h, ast.ExceptHandler):
                continue
            n_h += 1
            reraises = any(isinstance(x, ast.Raise) for st in h.body for x in ast.walk(st))
            names = set(handler_names(h.type)) if h.type is not None else {"BaseException"}
            ctx.check(reraises or names <= {"IntegrityError"}, "R05.4", fm.short, f"failed-transaction-not-acknowledged:{'|'.join(sorted(names))}",
                      message=f"RDBStorage.{mname} catches {sorted(names)} around its transaction and returns normally: when the transaction failed and was rolled back "
                              f"(lock timeout, lost connection, StorageInternalError from the session scope) the call still returns - e.g. False from "
                              f"set_trial_state_values, which Study.tell ignores - so a finishing write is acknowledged although nothing was stored",
                      how="only sqlalchemy IntegrityError (the uniqueness race with a defined outcome) is turned into a return value; everything else propagates",
                      where=where(fm, h))
    ctx.floor("R05.4", "handlers_in_rdb_writers", n_h, 2)

    # who may commit / roll back: only the scoped-session context manager
    def session_txn_calls(prog, modname):
        out = []
        for fn in prog.iter_funcs((modname,)):
            if fn.name == "_create_scoped_session":
                continue
            for c in own_nodes(fn.node):
                if isinstance(c, ast.Call) and isinstance(c.func, ast.Attribute) and c.func.attr in ("commit", "rollback", "begin_nested", "close") \
                        and "session" in norm(c.func.value):
                    out.append((fn, c))
        return out
    txn = session_txn_calls(p, RDBMOD)
    for fn, c in txn:
        if fn.cls is not None and fn.cls.name == "_VersionManager":
            continue
        ctx.fail("R05.4", fn.short, f"explicit-{c.func.attr}",
                 f"{fn.name} calls `{norm(c)}` itself: part of a storage call becomes durable (or is discarded) before the call's "
                 f"transaction ends, so an interruption leaves a half-applied call", where=where(fn, c))
    if not [1 for fn, c in txn if not (fn.cls is not None and fn.cls.name == "_VersionManager")]:
        ctx.ok("R05.4", "optuna/storages/_rdb/storage.py", "only-context-manager-commits", how="0 explicit session.commit/rollback/close outside _create_scoped_session")
    from sa.loader import Program as _P
    fxp = _P.from_sources({"fx.rdb": "class RDBStorage:\n    def _prep(self, session):\n        session.flush()\n        session.commit()\n"})
    ctx.require(len(session_txn_calls(fxp, "fx.rdb")) == 1, "R05.4: positive fixture for explicit commit not flagged")

    # ------------------------------------------------------------ R05.5 lock release
    ctx.rule("R05.5", "journal file lock released on every exit (shared with C07 R07.3)")
    J.rule_release(ctx, "R05.5")
    J.rule_write_under_lock(ctx, "R05.5")
    ctx.rule("R05.10", "survivors take over a dead holder's lock: the waiter observes the lock itself (not the journal behind a symlink - a dangling relative link "
             "would never be judged stale), restarts its timer when the lock changes hands, and removes only after a full grace period (the R07.6 clauses)")
    J.rule_takeover(ctx, "R05.10")
    ctx.rule("R05.9", "a worker dying while it WAITS for the journal lock leaves the holder's lock alone: acquire() releases only what this call created")
    J.rule_release_only_own_lock(ctx, "R05.9")
    ctx.rule("R05.8", "readers survive a torn last record: a line without its newline is skipped (the deferred error is raised only for a further line inside the "
             "size snapshot), and what the reader accepts / caches is what R07.4 / R07.5 state")
    J.rule_reader_guards(ctx, "R05.8", "R05.8")
    ctx.rule("R05.7", "a survivor that loses the race for a dead holder's lock keeps waiting: whatever the removal routine raises is caught around the take-over call")
    J.rule_takeover_lost_race(ctx, "R05.7")


def _is_last_nomatch(n) -> bool:
    """nomatch edge of the last except matcher (exception not caught by any arm)."""
    for k, m in n.succ:
        if k == "nomatch" and m.kind != "except":
            return True
    return False
