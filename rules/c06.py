"""C06 - journal replay is a function of the log prefix (non-interference of replay handlers)."""
from __future__ import annotations

import ast

from sa.cfg import CFG, handler_names
from sa.expr import edges_where, single_defs
from sa.loader import Program, dotted, norm, own_nodes
from sa.util import call_sites, field_accesses, init_fields, parent_map, self_attr, where

PROPERTY = "C06"
MOD = "optuna.storages.journal._storage"
REPLAY = MOD + ".JournalStorageReplayResult"
JOURNAL = MOD + ".JournalStorage"

# worker-local fields (written only under an issuer test, reset at snapshot restore)
LOCAL = {"_worker_id_prefix", "_worker_id_to_owned_trial_id", "_last_created_trial_id_by_this_process"}
LOCAL_PROPS = {"worker_id", "owned_trial_id"}
ISSUER = "_is_issued_by_this_worker"
AMBIENT_ROOTS = {"time", "uuid", "random", "os", "threading", "socket", "platform", "secrets",
                 "getpass", "np", "numpy"}
AMBIENT_CALLS = {"id", "hash", "datetime.datetime.now", "datetime.now", "datetime.datetime.utcnow",
                 "datetime.utcnow", "datetime.datetime.today", "datetime.date.today"}
REJECTION_CALLEES = {"check_distribution_compatibility"}
NORMAL = lambda a, k, b: k not in ("e", "reraise", "match", "nomatch")  # noqa: E731


def is_source(e: ast.AST) -> str | None:
    """Name of the worker-local / ambient source read by expression e (anywhere inside)."""
    for x in ast.walk(e):
        if isinstance(x, ast.Attribute) and isinstance(x.value, ast.Name) and x.value.id == "self":
            if x.attr in LOCAL or x.attr in LOCAL_PROPS or x.attr == ISSUER:
                return "self." + x.attr
        if isinstance(x, ast.Call):
            d = dotted(x.func) or ""
            if d in AMBIENT_CALLS:
                return d
            root = d.split(".")[0]
            if root in AMBIENT_ROOTS and "." in d:
                return d
    return None


class HandlerInfo:
    def __init__(self, ctx, cls, f, writes_r_methods, reject_helpers):
        self.f = f
        self.g = CFG(f.node, name=f.qualname)
        self.cls = cls
        acc = {id(a.node): a for a in field_accesses(f.node)}
        self.node_writes = {}  # cfg node -> set of (field, kind)
        for n in self.g.stmt_nodes():
            w = set()
            for x in n.walk():
                a = acc.get(id(x))
                if a is not None and a.kind in ("write", "mutate"):
                    w.add(a.field)
                if isinstance(x, ast.Call) and self_attr(x.func) in writes_r_methods:
                    w.add("<call:%s>" % self_attr(x.func))
            self.node_writes[n] = w
        self.reject_helpers = reject_helpers

    def r_write_nodes(self, replicated):
        return [n for n, w in self.node_writes.items()
                if any((x in replicated) or x.startswith("<call:") for x in w)]


def cursor_per_record(ctx, rule, cls):
    """apply_logs advances the read cursor by exactly one per record, before that record is dispatched: a record of this worker that is
    rejected (its handler raises at the issuer) then leaves the cursor right behind it, and the rest of the batch is replayed by the next
    sync. A cursor advanced per batch skips those records for ever - e.g. another worker's claim of a queued trial, which this worker then
    claims again (shared by C06 R06.4 and C04 R04.4)."""
    f = cls.methods["apply_logs"]
    g = CFG(f.node, name=f.qualname)
    heads = [n for n in g.stmt_nodes() if n.kind == "iter"]
    ctx.require(len(heads) == 1, f"{rule}: apply_logs must contain exactly one loop over the records")
    head = heads[0]
    body0 = [m for k, m in head.succ if k == "loop"]
    inc = [n for n in g.stmt_nodes() if n.kind == "stmt" and isinstance(n.ast, ast.AugAssign)
           and self_attr(n.ast.target) == "log_number_read" and isinstance(n.ast.op, ast.Add)
           and isinstance(n.ast.value, ast.Constant) and n.ast.value.value == 1]
    other_cursor_writes = [n for n in g.stmt_nodes() if n not in inc and any(
        isinstance(x, ast.Attribute) and self_attr(x) == "log_number_read" and isinstance(x.ctx, ast.Store) for x in n.walk())]
    disp = [n for n in g.stmt_nodes() for c in n.calls() if (self_attr(c.func) or "").startswith("_apply_")]
    ctx.floor(rule, "dispatch_arms", len(disp), 10, exact=True)
    r = g.reachable(body0, avoid_nodes=[head] + inc)
    bad = [d for d in disp if d in r]
    ctx.check(bool(inc) and not bad and not other_cursor_writes, rule, f.short, "cursor-before-dispatch",
              message="apply_logs can dispatch a record before log_number_read was advanced past it: a raising "
                      "record would be applied again on the next sync",
              how="`self.log_number_read += 1` precedes every _apply_* call within the iteration",
              witness=g.witness(bad, guards=[head] + inc, src=body0[0]) if bad else None)
    # exactly one increment per iteration
    two = False
    for i in inc:
        r2 = g.reachable([m for k, m in i.succ if k == "n"], avoid_nodes=[head])
        if any(j in r2 for j in inc):
            two = True
    ctx.check(not two, rule, f.short, "single-increment", message="cursor incremented twice for one record", how="one increment per iteration")
    return f, g, head, body0


def run(ctx):
    p: Program = ctx.program
    ctx.explanation = (
        "Non-interference of JournalStorageReplayResult.apply_logs and its handlers: the "
        "replicated fields (everything assigned in __init__ except the worker-local table) are "
        "never written in a region reachable from only one side of an issuer test, never receive "
        "a value that depends on worker-local or ambient sources, explicit raises happen only on "
        "the issuer side, rejection happens before any replicated write, the read cursor is "
        "advanced before dispatch and loop locals do not leak across records, snapshots pickle "
        "exactly the replicated object and restore resets every worker-local field, and records "
        "are only ever applied from what was read back from the backend. Decides that replayed "
        "state does not depend on who applies a record, on batching or on starting from a "
        "snapshot; does not decide that backends deliver the same record sequence (C07).")
    ctx.assume("decoding helpers (json_to_distribution, TrialState(..), datetime.fromisoformat) are "
               "total on records written by the repo's own producers (writer/reader agreement is "
               "C01 R01.6); a corrupt record is not a 'rejected operation'")
    ctx.assume("dict iteration order is insertion order (deterministic replay of the same records)")

    cls = p.cls(REPLAY)
    inits = init_fields(cls)
    replicated = set(inits) - LOCAL
    ctx.rule("R06.0", "field classification: worker-local table vs replicated = other __init__ fields")
    ctx.floor("R06.0", "replicated_fields", len(replicated), 6, exact=True)
    for fld in sorted(LOCAL):
        present = any(self_attr(x) == fld for m in cls.methods.values() for x in own_nodes(m.node))
        ctx.check(present, "R06.0", cls.module.relpath + "::" + cls.name, f"local-field:{fld}",
                  message=f"worker-local field {fld} vanished (table out of date)", how="field still used", nontrivial=False)

    # handlers = methods reachable from apply_logs through self calls
    ctx.require("apply_logs" in cls.methods, "R06: apply_logs vanished")
    reach = set()
    work = ["apply_logs"]
    while work:
        m = work.pop()
        if m in reach or m not in cls.methods:
            continue
        reach.add(m)
        for x in own_nodes(cls.methods[m].node):
            if isinstance(x, ast.Call) and self_attr(x.func) in cls.methods:
                work.append(self_attr(x.func))
            if isinstance(x, ast.Attribute) and isinstance(x.value, ast.Name) and x.value.id == "self" and x.attr in cls.methods \
                    and "property" in cls.methods[x.attr].decorators():
                work.append(x.attr)
    handlers = sorted(m for m in reach)
    ctx.floor("R06.0", "handler_functions", len([h for h in handlers if h.startswith("_apply_")]), 10, exact=True)

    # which methods write replicated state (transitively)
    direct = {}
    for m in handlers:
        accs = field_accesses(cls.methods[m].node)
        direct[m] = any(a.kind in ("write", "mutate") and a.field in replicated for a in accs)
    writes_r = {m for m, d in direct.items() if d}
    changed = True
    while changed:
        changed = False
        for m in handlers:
            if m in writes_r:
                continue
            for x in own_nodes(cls.methods[m].node):
                if isinstance(x, ast.Call) and self_attr(x.func) in writes_r:
                    writes_r.add(m)
                    changed = True
                    break

    # ------------------------------------------------------------ helper summaries (A8)
    ctx.rule("R06.1", "no replicated write is control- or data-dependent on a worker-local/ambient source "
             "(exclusive-region reachability at issuer tests, helper outcome summaries, local taint)")
    ctx.rule("R06.2", "explicit raises only on the issuer side; rejection callees wrapped by an issuer-testing handler")
    ctx.rule("R06.3", "reject before mutate: no replicated write precedes a reject point")
    reject_helpers = {}
    for m in handlers:
        f = cls.methods[m]
        rets = [n for n in own_nodes(f.node) if isinstance(n, ast.Return)]
        vals = {(r.value.value if isinstance(r.value, ast.Constant) else "?") for r in rets if r.value is not None}
        if vals and vals <= {True, False} and any(is_source(x) for x in own_nodes(f.node) if isinstance(x, ast.expr)):
            reject_helpers[m] = f

    def exclusive_regions(g: CFG, t):
        succ = {k: m for k, m in t.succ if k in ("t", "f")}
        xt = g.reachable([succ["t"]]) if "t" in succ else set()
        xf = g.reachable([succ["f"]]) if "f" in succ else set()
        return xt - xf, xf - xt

    cur_aliases: set[str] = set()

    def issuer_atom(e):
        if isinstance(e, ast.Call) and self_attr(e.func) == ISSUER:
            return True
        if isinstance(e, ast.Name) and e.id in cur_aliases:
            return True
        return None

    def src_of(e):
        s = is_source(e)
        if s:
            return s
        for y in ast.walk(e):
            if isinstance(y, ast.Name) and y.id in cur_aliases:
                return "issuer alias " + y.id
        return None

    # summary check of each boolean reject helper: False only on the non-issuer side with a
    # raising twin on the issuer side; True independent of the issuer
    for m, f in sorted(reject_helpers.items()):
        g = CFG(f.node, name=f.qualname)
        tests = [t for t in g.stmt_nodes() if t.kind == "test" and is_source(t.expr)]
        ex_t, ex_f = set(), set()
        for t in tests:
            pol = edges_where(t.expr, issuer_atom)
            ctx.check(pol.get("t") is True or pol.get("f") is True, "R06.1", f.short, f"helper-test-shape:{norm(t.expr)[:50]}",
                      message=f"{m}: branch on a worker-local value other than the issuer test: `{norm(t.expr)}`",
                      how="test is (a boolean combination implying) _is_issued_by_this_worker(log)")
            a, b = exclusive_regions(g, t)
            if pol.get("f") is True:
                a, b = b, a
            ex_t |= a
            ex_f |= b
        for n in g.stmt_nodes():
            if n.kind == "stmt" and isinstance(n.ast, ast.Return) and n.ast.value is not None:
                v = n.ast.value.value if isinstance(n.ast.value, ast.Constant) else None
                if v is True:
                    ctx.check(n not in ex_t and n not in ex_f, "R06.1", f.short, "helper-True-issuer-independent",
                              message=f"{m} returns True depending on who issued the record", how="`return True` not inside an issuer-exclusive region",
                              where=where(f, n.ast))
                elif v is False:
                    ctx.check(n in ex_f, "R06.1", f.short, "helper-False-only-non-issuer",
                              message=f"{m} can return False to the issuer as well: the issuer would silently skip "
                                      f"instead of raising, or both sides diverge",
                              how="`return False` lies in the non-issuer-exclusive region of an issuer test (issuer raises instead)",
                              where=where(f, n.ast))
            if n.kind == "stmt" and isinstance(n.ast, ast.Raise):
                ctx.check(n in ex_t, "R06.2", f.short, f"issuer-only-raise:{norm(n.ast)[:40]}",
                          message=f"{m}: `{norm(n.ast)[:60]}` can be raised on a worker that did not issue the record",
                          how="raise lies in the issuer-exclusive region", where=where(f, n.ast))

    def helper_call_atom(e):
        if isinstance(e, ast.Call) and self_attr(e.func) in reject_helpers:
            return True
        return None

    n_tests = 0
    n_rwrites = 0
    for m in handlers:
        if m in reject_helpers or m == "apply_logs":
            continue
        f = cls.methods[m]
        if "property" in f.decorators() or m == ISSUER:
            continue
        hi = HandlerInfo(ctx, cls, f, writes_r - {m}, reject_helpers)
        g = hi.g
        cur_aliases.clear()
        for nm, v in single_defs(f.node).items():
            if isinstance(v, ast.Call) and self_attr(v.func) == ISSUER:
                cur_aliases.add(nm)
        rw = hi.r_write_nodes(replicated)
        n_rwrites += len(rw)
        # ---- control dependence at issuer tests and helper-call tests
        for t in [t for t in g.stmt_nodes() if t.kind == "test"]:
            src = src_of(t.expr)
            hp = edges_where(t.expr, helper_call_atom)
            if src and not any(isinstance(x, ast.Call) and self_attr(x.func) in reject_helpers for x in ast.walk(t.expr)):
                n_tests += 1
                pol = edges_where(t.expr, issuer_atom)
                ok_shape = pol.get("t") is True or pol.get("f") is True
                ctx.check(ok_shape, "R06.1", f.short, f"source-test-shape:{norm(t.expr)[:50]}",
                          message=f"{m}: branch on worker-local/ambient value `{norm(t.expr)}` ({src})",
                          how="only the issuer test may steer a handler")
                ex_a, ex_b = exclusive_regions(g, t)
                bad = [n for n in rw if n in ex_a or n in ex_b]
                ctx.check(not bad, "R06.1", f.short, f"no-replicated-write-under-issuer-test:{norm(t.expr)[:40]}",
                          message=f"{m}: replicated state is written on only one side of the issuer test "
                                  f"`{norm(t.expr)[:60]}`: " + "; ".join(f"`{norm(b.ast)[:60]}`" for b in bad[:3]),
                          how="nodes reachable from exactly one branch write only worker-local fields",
                          where=where(f, bad[0].ast) if bad else None)
                # the two sides of an issuer test share the record's fate: if one side can end the handler without any replicated write
                # (return, or the issuer's raise) the other side can too, and vice versa - otherwise the issuer drops a record that every
                # other worker applies (or the other way round)
                fate = {}
                for k_, m_ in t.succ:
                    if k_ in ("t", "f"):
                        r_ = g.reachable([m_], avoid_nodes=rw, edge_ok=NORMAL)
                        fate[k_] = (g.exit in r_) or (m_ is g.exit) or any(x.kind == "stmt" and isinstance(x.ast, ast.Raise) for x in r_)
                if len(fate) == 2 and rw:
                    ctx.check(fate["t"] == fate["f"], "R06.1", f.short, f"same-fate-on-both-sides-of-issuer-test:{norm(t.expr)[:40]}",
                              message=f"{m}: on one side of `{norm(t.expr)[:60]}` the handler can finish without writing replicated state, on the other side it cannot: "
                                      f"the issuer of a record and the workers that merely replay it end up with different state (e.g. the loser of a race for a WAITING "
                                      f"trial skips its own rejected claim while everybody else applies it and overwrites datetime_start)",
                              how="both branch targets agree on whether an exit is reachable without passing a replicated write", where=where(f, t.ast))
                # raises in the region must be on the issuer side
                issuer_side = ex_a if pol.get("t") is True else ex_b
                other_side = ex_b if pol.get("t") is True else ex_a
                for n in other_side:
                    if n.kind == "stmt" and isinstance(n.ast, ast.Raise):
                        ctx.fail("R06.2", f.short, f"issuer-only-raise:{norm(n.ast)[:40]}",
                                 f"{m}: `{norm(n.ast)[:60]}` is raised on the NON-issuer side", where=where(f, n.ast))
                # R06.3: a reject point (issuer side raises) is not preceded by a replicated write
                is_reject = any(n.kind == "stmt" and isinstance(n.ast, ast.Raise) for n in issuer_side)
                pre = [n for n in rw if t in g.reachable([n])] if is_reject else []
                ctx.check(not pre, "R06.3", f.short, f"reject-before-mutate:{norm(t.expr)[:40]}",
                          message=f"{m}: replicated state is written before the issuer test `{norm(t.expr)[:50]}` "
                                  f"(a rejected record would leave a partial change): "
                                  + "; ".join(f"`{norm(b.ast)[:50]}`" for b in pre[:3]),
                          how="no replicated write reaches the reject point")
            elif hp:
                n_tests += 1
                # edge on which the helper returned False
                false_edges = [k for k, polv in hp.items() if polv is False]
                for k in false_edges:
                    tgt = [mm for kk, mm in t.succ if kk == k]
                    other = [mm for kk, mm in t.succ if kk != k and kk in ("t", "f")]
                    xs = g.reachable(tgt) - g.reachable(other)
                    bad = [n for n in rw if n in xs]
                    ctx.check(not bad, "R06.1", f.short, f"no-replicated-write-after-reject:{norm(t.expr)[:40]}",
                              message=f"{m}: when `{norm(t.expr)[:50]}` rejects (non-issuer gets False, issuer raises) "
                                      f"replicated state is still written: " + "; ".join(f"`{norm(b.ast)[:60]}`" for b in bad[:3]),
                              how="False continuation of the reject helper writes no replicated field")
                pre = [n for n in rw if t in g.reachable([n])]
                ctx.check(not pre, "R06.3", f.short, f"reject-before-mutate:{norm(t.expr)[:40]}",
                          message=f"{m}: replicated state is written before the reject test `{norm(t.expr)[:50]}`",
                          how="no replicated write reaches the reject point")
        # reject helpers used other than as a branch condition would hide the False outcome
        for x in own_nodes(f.node):
            if isinstance(x, ast.Call) and self_attr(x.func) in reject_helpers:
                used_as_test = any(t.kind == "test" and any(y is x for y in ast.walk(t.expr)) for t in g.stmt_nodes())
                ctx.check(used_as_test, "R06.1", f.short, f"helper-result-tested:{self_attr(x.func)}",
                          message=f"{m} calls {self_attr(x.func)} without branching on its result", how="call is a branch condition")
        # ---- explicit raises
        tests_src = [t for t in g.stmt_nodes() if t.kind == "test" and src_of(t.expr)]
        issuer_regions = set()
        for t in tests_src:
            pol = edges_where(t.expr, issuer_atom)
            a, b = exclusive_regions(g, t)
            issuer_regions |= a if pol.get("t") is True else (b if pol.get("f") is True else set())
        for n in g.stmt_nodes():
            if n.kind == "stmt" and isinstance(n.ast, ast.Raise):
                ctx.check(n in issuer_regions, "R06.2", f.short, f"issuer-only-raise:{norm(n.ast)[:40]}",
                          message=f"{m}: `{norm(n.ast)[:60]}` can be raised on a worker that did not issue the record "
                                  f"(its replay would stop, the others continue)",
                          how="raise lies in the issuer-exclusive region of an issuer test", where=where(f, n.ast))
        # ---- rejection callees wrapped
        for n in g.stmt_nodes():
            for c in n.calls():
                if (dotted(c.func) or "").split(".")[-1] in REJECTION_CALLEES:
                    etgt = [mm for k, mm in n.succ if k == "e"]
                    ok = False
                    if etgt and etgt[0].kind == "except":
                        mt = etgt[0]
                        names = handler_names(mt.ast.type)
                        if "Exception" in names or "BaseException" in names:
                            body0 = [mm for k, mm in mt.succ if k == "match"]
                            r = g.reachable(body0, avoid_nodes=tests_src)
                            ok = g.exit not in r and g.raise_exit not in r and not any(x in r for x in rw)
                    ctx.check(ok, "R06.2", f.short, f"rejection-callee-wrapped:{(dotted(c.func) or '').split('.')[-1]}",
                              message=f"{m}: {norm(c.func)} (raises for an incompatible distribution) is not inside a try whose "
                                      f"`except Exception` arm performs the issuer test before anything else",
                              how="exception edge leads to an except Exception arm that reaches an issuer test on every path",
                              where=where(f, c))
        # ---- data dependence: taint of locals, then of replicated writes
        tainted = set()
        for _ in range(3):
            for x in own_nodes(f.node):
                if isinstance(x, ast.Assign):
                    rhs_src = is_source(x.value) or any(isinstance(y, ast.Name) and y.id in tainted for y in ast.walk(x.value))
                    if rhs_src:
                        for tg in x.targets:
                            for y in ast.walk(tg):
                                if isinstance(y, ast.Name) and isinstance(y.ctx, (ast.Store, ast.Load)) and y.id != "self":
                                    # local or attribute-of-local store taints the local
                                    if not (isinstance(tg, (ast.Attribute, ast.Subscript)) and self_attr(tg) is not None):
                                        root = tg
                                        while isinstance(root, (ast.Attribute, ast.Subscript)):
                                            root = root.value
                                        if isinstance(root, ast.Name) and root.id != "self":
                                            tainted.add(root.id)
        for n in rw:
            srcs = []
            for e in n.exprs():
                st = e
                vals = []
                if isinstance(st, ast.Assign):
                    # only the written value and keys matter for replicated targets
                    tg_repl = [tg for tg in st.targets if _root_field(tg) in replicated]
                    if tg_repl:
                        vals = [st.value] + [tg for tg in tg_repl]
                elif isinstance(st, ast.AugAssign) and _root_field(st.target) in replicated:
                    vals = [st.value, st.target]
                elif isinstance(st, ast.Expr):
                    vals = [c for c in ast.walk(st) if isinstance(c, ast.Call) and isinstance(c.func, ast.Attribute)
                            and _root_field(c.func.value) in replicated]
                for v in vals:
                    s = is_source(v)
                    if s:
                        srcs.append(s)
                    for y in ast.walk(v):
                        if isinstance(y, ast.Name) and y.id in tainted:
                            srcs.append("local " + y.id)
            ctx.check(not srcs, "R06.1", f.short, f"replicated-write-value:{norm(n.ast)[:50]}",
                      message=f"{m}: `{norm(n.ast)[:70]}` writes a value derived from {sorted(set(srcs))} into replicated state",
                      how="value/keys derive from the record, replicated state and constants only",
                      where=where(f, n.ast))
    # ---- R06.7 a record that is not applied is a rejection: its issuer must be told
    ctx.rule("R06.7", "every path through a handler that applies nothing passes an issuer test or a reject helper (the issuer raises), "
             "except the tabled claim-lost path of _apply_set_trial_state_values")
    NOOP_OK = {"_apply_set_trial_state_values": "RUNNING request on an already RUNNING trial: reported to the issuer by the False return value of set_trial_state_values"}
    for m in handlers:
        if not m.startswith("_apply_"):
            continue
        f = cls.methods[m]
        hi = HandlerInfo(ctx, cls, f, writes_r - {m}, reject_helpers)
        g = hi.g
        cur_aliases.clear()
        for nm, v in single_defs(f.node).items():
            if isinstance(v, ast.Call) and self_attr(v.func) == ISSUER:
                cur_aliases.add(nm)
        rw = hi.r_write_nodes(replicated)
        gates = [t for t in g.stmt_nodes() if t.kind == "test" and (src_of(t.expr) or edges_where(t.expr, helper_call_atom))]
        extra = []
        if m in NOOP_OK:
            extra = [t for t in g.stmt_nodes() if t.kind == "test" and "TrialState.RUNNING" in norm(t.expr)]
        r = g.reachable([g.entry], avoid_nodes=rw + gates + extra, edge_ok=NORMAL)
        ctx.check(g.exit not in r, "R06.7", f.short, "silent-drop",
                  message=f"{m} can return without applying the record and without any issuer test on that path: the operation is dropped silently "
                          f"for every worker, its issuer included (the caller is told it succeeded)",
                  how="every no-op path passes an issuer test / reject helper", witness=g.witness([g.exit], guards=rw + gates + extra, edge_ok=NORMAL) if g.exit in r else None)
    ctx.floor("R06.1", "issuer_or_reject_tests", n_tests, 12)
    ctx.floor("R06.1", "replicated_write_nodes", n_rwrites, 14)

    # ------------------------------------------------------------ R06.4 cursor discipline
    ctx.rule("R06.4", "apply_logs: cursor incremented before dispatch in each iteration; loop locals do not cross iterations")
    f, g, head, body0 = cursor_per_record(ctx, "R06.4", cls)
    loop: ast.For = head.ast
    assigned = {}
    for n in g.stmt_nodes():
        if n in g.reachable(body0, avoid_nodes=[head]) and n.kind == "stmt" and isinstance(n.ast, ast.Assign):
            for t in n.ast.targets:
                if isinstance(t, ast.Name):
                    assigned.setdefault(t.id, []).append(n)
    for var, defs_ in sorted(assigned.items()):
        for n in g.reachable(body0, avoid_nodes=[head]):
            if n in defs_ and not any(isinstance(x, ast.Name) and x.id == var and isinstance(x.ctx, ast.Load) for e in ([n.ast.value] if isinstance(n.ast, ast.Assign) else []) for x in ast.walk(e)):
                continue
            if any(isinstance(x, ast.Name) and x.id == var and isinstance(x.ctx, ast.Load) for x in n.walk()):
                rr = g.reachable(body0, avoid_nodes=[head] + [d for d in defs_ if d is not n])
                ctx.check(n not in rr, "R06.4", f.short, f"batch-independence:{var}",
                          message=f"apply_logs reads loop local `{var}` before assigning it in the iteration (value from the "
                                  f"previous record: result depends on batch boundaries)",
                          how="every read is preceded by an assignment in the same iteration")
    # nothing of the object's state is (re)computed per call of apply_logs: a field written before or after the record
    # loop is a function of the batch boundaries, which differ between workers reading the same log
    in_loop = g.reachable(body0, avoid_nodes=[head])
    per_batch = []
    loop_stmt_ids = {id(x) for x in ast.walk(head.ast)}
    for a in field_accesses(f.node):
        if a.kind in ("write", "mutate") and id(a.node) not in loop_stmt_ids:
            per_batch.append((a.node, a.field))
    ctx.check(not per_batch, "R06.4", f.short, "no-per-batch-state",
              message=f"apply_logs writes {sorted({fld for _, fld in per_batch})} outside the per-record loop: that state is rebuilt once per batch, so what a record does "
                      f"depends on where the batches were cut (a worker replaying the whole log in one batch diverges from one that synced record by record)",
              how="every write of a field in apply_logs is inside the per-record loop",
              where=where(f, per_batch[0][0]) if per_batch else None)
    # dispatch exhaustiveness over JournalOperation is C01 R01.6; here: unknown op asserts
    # ------------------------------------------------------------ R06.5 snapshots
    ctx.rule("R06.5", "snapshot = the replicated object; restore resets every worker-local field and no replicated one")
    for special in ("__getstate__", "__setstate__", "__reduce__", "__reduce_ex__", "__getnewargs__", "__deepcopy__"):
        ctx.check(special not in cls.methods, "R06.5", cls.module.relpath + "::" + cls.name, f"no-custom-pickle:{special}",
                  message=f"JournalStorageReplayResult defines {special}: snapshots may drop or rewrite replicated state",
                  how="default pickling of __dict__", nontrivial=False)
    has_slots = any(isinstance(n, ast.Assign) and any(isinstance(t, ast.Name) and t.id == "__slots__" for t in n.targets) for n in cls.node.body)
    ctx.check(not has_slots, "R06.5", cls.module.relpath + "::" + cls.name, "no-slots", message="__slots__ defined", how="no __slots__", nontrivial=False)
    jcls = p.cls(JOURNAL)
    f = jcls.methods.get("restore_replay_result")
    ctx.require(f is not None, "R06.5: restore_replay_result vanished")
    defs = single_defs(f.node)
    rvar = None
    for n in own_nodes(f.node):
        if isinstance(n, (ast.Assign, ast.AnnAssign)) and isinstance(getattr(n, "value", None), ast.Call) and dotted(n.value.func) == "pickle.loads":
            tg = n.targets[0] if isinstance(n, ast.Assign) else n.target
            rvar = tg.id if isinstance(tg, ast.Name) else None
    ctx.require(rvar is not None, "R06.5: restore_replay_result no longer unpickles into a local")
    g = CFG(f.node, name=f.qualname)
    install = [n for n in g.stmt_nodes() if n.kind == "stmt" and isinstance(n.ast, ast.Assign)
               and self_attr(n.ast.targets[0]) == "_replay_result" and norm(n.ast.value) == rvar]
    ctx.require(install, "R06.5: restore_replay_result no longer installs the unpickled object")
    for fld in sorted(LOCAL):
        sets = [n for n in g.stmt_nodes() if n.kind == "stmt" and isinstance(n.ast, ast.Assign)
                and any(norm(t) == f"{rvar}.{fld}" for t in n.ast.targets)]
        ok = bool(sets) and all(g.dominated_by(i, sets) for i in install)
        val_ok = True
        for s in sets:
            v = s.ast.value
            neutral = (isinstance(v, ast.Dict) and not v.keys) or (isinstance(v, ast.Constant)) or \
                      (isinstance(v, ast.UnaryOp) and isinstance(v.operand, ast.Constant)) or norm(v) == f"self.{fld}"
            val_ok = val_ok and neutral
        ctx.check(ok and val_ok, "R06.5", f.short, f"restore-resets:{fld}",
                  message=f"restore_replay_result installs a snapshot without resetting worker-local field {fld} "
                          f"(the snapshot's value belongs to the worker that saved it)",
                  how="assignment to a neutral value / this worker's value dominates the install")
    for n in g.stmt_nodes():
        if n.kind == "stmt" and isinstance(n.ast, (ast.Assign, ast.AugAssign)):
            tg = n.ast.targets if isinstance(n.ast, ast.Assign) else [n.ast.target]
            for t in tg:
                if isinstance(t, ast.Attribute) and isinstance(t.value, ast.Name) and t.value.id == rvar:
                    ctx.check(t.attr in LOCAL, "R06.5", f.short, f"restore-keeps-replicated:{t.attr}",
                              message=f"restore_replay_result overwrites replicated field {t.attr} of the snapshot",
                              how="only worker-local fields are assigned")
    # type check of the unpickled object before install
    tests = [t for t in g.stmt_nodes() if t.kind == "test" and "isinstance" in norm(t.expr) and "JournalStorageReplayResult" in norm(t.expr)]
    ctx.check(bool(tests) and all(g.dominated_by(i, tests) for i in install), "R06.5", f.short, "restore-type-check",
              message="restore installs the unpickled object without checking its type", how="isinstance test dominates install")
    n_save = 0
    for m, f2 in jcls.methods.items():
        for c in [x for x in own_nodes(f2.node) if isinstance(x, ast.Call)]:
            if (dotted(c.func) or "").endswith(".save_snapshot"):
                n_save += 1
                a = c.args[0] if c.args else None
                ok = isinstance(a, ast.Call) and dotted(a.func) == "pickle.dumps" and a.args and norm(a.args[0]) == "self._replay_result"
                ctx.check(ok, "R06.5", f2.short, "snapshot-is-replay-result",
                          message=f"{m} saves `{norm(a) if a is not None else None}` as snapshot, not pickle.dumps(self._replay_result)",
                          how="pickles the replay result object", where=where(f2, c))
                # the object is pickled while no other thread of this storage can be in the middle of a replay: apply_logs
                # advances the cursor before it applies a record, so a snapshot taken then claims a record it does not contain
                from sa.util import class_lock_fields, lock_section_of
                locks6 = class_lock_fields(jcls)
                held = lock_section_of(c, parent_map(f2.node), locks6) is not None
                if not held and m.startswith("_"):
                    # a private helper: held on entry when every call site in the class is inside the lock
                    sites = [(mm, x) for mm in jcls.methods.values() for x in own_nodes(mm.node)
                             if isinstance(x, ast.Call) and self_attr(x.func) == m]
                    held = bool(sites) and all(lock_section_of(x, parent_map(mm.node), locks6) is not None for mm, x in sites)
                ctx.check(held, "R06.5", f2.short, "snapshot-under-thread-lock",
                          message=f"{m} pickles the replay result outside the storage's thread lock: another thread can be between `log_number_read += 1` and the "
                                  f"record's effect, the snapshot then says N+1 records read without record N - every worker restored from it misses that record for ever",
                          how="save_snapshot(pickle.dumps(..)) inside `with self._thread_lock`", where=where(f2, c))
    ctx.floor("R06.5", "save_snapshot_sites", n_save, 2)

    # ------------------------------------------------------------ R06.6 apply only what was read back
    ctx.rule("R06.6", "apply_logs has one call site (_sync_with_backend) fed by backend.read_logs(cursor); "
             "_write_log never applies its own record")
    sites = [(f, c) for f, c in call_sites(p, "apply_logs", ("optuna",)) if not (f.cls is cls and f.name == "apply_logs")]
    ctx.check(len(sites) == 1 and sites[0][0].cls is jcls and sites[0][0].name == "_sync_with_backend", "R06.6",
              "optuna", "single-apply-site",
              message="apply_logs is called from: " + ", ".join(f.short for f, _ in sites),
              how="only JournalStorage._sync_with_backend calls apply_logs")
    if sites:
        f, c = sites[0]
        defs = single_defs(f.node)
        a = c.args[0] if c.args else None
        if isinstance(a, ast.Name) and a.id in defs:
            a = defs[a.id]
        ok = (isinstance(a, ast.Call) and norm(a.func) == "self._backend.read_logs" and a.args
              and norm(a.args[0]) == "self._replay_result.log_number_read")
        ctx.check(ok, "R06.6", f.short, "applies-what-was-read-back",
                  message=f"_sync_with_backend applies `{norm(a) if a is not None else None}` instead of "
                          f"self._backend.read_logs(self._replay_result.log_number_read)",
                  how="argument is the backend read from the current cursor")
        ctx.check(norm(c.func) == "self._replay_result.apply_logs", "R06.6", f.short, "applies-to-replay-result",
                  message="records are applied to something else than self._replay_result", how="receiver is self._replay_result")
    # nobody outside the class calls a handler or writes replicated fields of the replay result
    ext = []
    for f in p.iter_funcs(("optuna.storages.journal",)):
        if f.cls is cls:
            continue
        for x in own_nodes(f.node):
            if isinstance(x, ast.Call) and isinstance(x.func, ast.Attribute) and x.func.attr.startswith("_apply_"):
                ext.append((f, x, x.func.attr))
            if isinstance(x, ast.Attribute) and x.attr in replicated and isinstance(x.ctx, ast.Store) \
                    and "_replay_result" in norm(x.value):
                ext.append((f, x, "store " + x.attr))
    # mutation through the replay result from JournalStorage (e.g. self._replay_result._trials[..] = ..)
    for m, f2 in jcls.methods.items():
        for a in field_accesses(f2.node):
            pass
    for m, f2 in jcls.methods.items():
        pm = parent_map(f2.node)
        for x in own_nodes(f2.node):
            if isinstance(x, ast.Attribute) and x.attr in replicated and norm(x.value) == "self._replay_result":
                par = pm.get(id(x))
                cur = x
                mutated = False
                while isinstance(par, (ast.Subscript, ast.Attribute)) and par.value is cur:
                    if isinstance(getattr(par, "ctx", None), (ast.Store, ast.Del)):
                        mutated = True
                    cur, par = par, pm.get(id(par))
                if isinstance(par, ast.Call) and isinstance(cur, ast.Attribute) and par.func is cur and cur.attr in (
                        "append", "pop", "update", "clear", "remove", "setdefault", "extend", "insert"):
                    mutated = True
                if isinstance(x.ctx, (ast.Store, ast.Del)):
                    mutated = True
                if mutated:
                    ext.append((f2, x, "mutates " + x.attr))
    ctx.check(not ext, "R06.6", "optuna/storages/journal", "replicated-state-writers-confined",
              message="replicated state is changed outside the replay handlers: " + ", ".join(f"{f.short}:{w}" for f, _, w in ext),
              how="who-may-write census: only JournalStorageReplayResult handlers")

    # ------------------------------------------------------------ R06.8 backends hand out a gap-free run of records
    ctx.rule("R06.8", "JournalRedisBackend.read_logs returns records log_number_from, +1, +2, ... with no gap: JournalStorage counts the "
             "records it applied, so a skipped number shifts every later record (the worker re-applies one record and never sees another)")
    rf = p.func("optuna.storages.journal._redis.JournalRedisBackend.read_logs")
    g = CFG(rf.node, name=rf.qualname)
    rets = [n.ast.value for n in g.stmt_nodes() if n.kind == "stmt" and isinstance(n.ast, ast.Return) and isinstance(n.ast.value, ast.Name)]
    ctx.require(rets, "R06.8: redis read_logs does not return a named list")
    out = rets[-1].id
    heads = [n for n in g.stmt_nodes() if n.kind == "iter" and isinstance(n.ast.iter, ast.Call) and dotted(n.ast.iter.func) == "range"]
    ctx.require(len(heads) == 1, f"R06.8: expected one range loop in redis read_logs, found {len(heads)}")
    head = heads[0]
    rng = head.ast.iter
    ctx.require(isinstance(head.ast.target, ast.Name) and len(rng.args) == 2, "R06.8: unrecognised loop header in redis read_logs")
    ivar = head.ast.target.id
    prm = rf.params()
    ctx.check(norm(rng.args[0]) == prm[1], "R06.8", rf.short, "starts-at-requested-number",
              message=f"redis read_logs starts at `{norm(rng.args[0])}`, not at the requested record number", how="range(log_number_from, ...)")
    # the upper bound is the highest number the backend has handed out: `<max> + 1`
    ub = rng.args[1]
    last = norm(ub.left) if isinstance(ub, ast.BinOp) and isinstance(ub.op, ast.Add) and norm(ub.right) == "1" else None
    apps = [n for n in g.stmt_nodes() for c in n.calls() if isinstance(c.func, ast.Attribute) and c.func.attr == "append" and norm(c.func.value) == out]
    ctx.require(apps, "R06.8: redis read_logs never appends to the returned list")
    # edges on which this is known to be the last iteration (a record that cannot be decoded yet may
    # be left out there: what is returned is still a gap-free prefix)
    from sa.expr import cmp_atom

    def atom_last(e):
        a = cmp_atom(e)
        if a and last is not None and {a[0], a[2]} == {ivar, last}:
            if a[1] in (ast.Eq,):
                return True
            if a[1] in (ast.NotEq,):
                return False
        return None
    last_edges = [(t, k, m) for t in g.stmt_nodes() if t.kind == "test" for k, m in t.succ if edges_where(t.expr, atom_last).get(k) is True]
    body0 = [m for k, m in head.succ if k == "loop"]
    # the appending statement counts as passed only on its normal continuation: when json.loads
    # raises inside it nothing was appended, so its exceptional edges stay in the graph
    NORMAL6 = lambda a, k, b: (k in ("e",)) if a in apps else (k not in ("e", "reraise"))  # noqa: E731
    r = g.reachable(body0, avoid_edges=last_edges, edge_ok=NORMAL6)
    ctx.check(head not in r, "R06.8", rf.short, "no-record-skipped",
              message="redis read_logs can go on to the next record number without having appended the current one (and it is not the last number): "
                      "the records after the gap are applied under wrong numbers - this worker's state diverges from every worker that saw the skipped record",
              how="within an iteration the loop head is unreachable without passing the append (except on the `last number` edge)",
              witness=g.witness([head], edges=last_edges, src=body0[0], edge_ok=NORMAL6) if head in r else None)
    _r06_9(ctx, p, jcls)
    _r06_10(ctx, p)
    _r06_11(ctx, p, jcls)
    # the storage side: the cursor advances by one per record handed over
    ctx.note("R06.8_scope", "file backend: consecutive numbering is enumerate()-driven and guarded by R07.4/R07.5")


def _r06_11(ctx, p, jcls):
    """A JournalStorage that was pickled / deep-copied is a NEW worker: what __init__ derives from the per-object worker id prefix is derived again
    from the refreshed prefix in __setstate__ (the replay result carries its own copy of the prefix: kept, it makes the copy claim the sender's
    records - it raises the sender's rejections and counts the sender's new trials as its own)."""
    ctx.rule("R06.11", "JournalStorage.__setstate__ re-creates every field that __init__ derives from the worker id prefix, after refreshing the prefix")
    init = jcls.methods.get("__init__")
    sst = jcls.methods.get("__setstate__")
    ctx.require(init is not None and sst is not None, "R06.11: JournalStorage.__init__ / __setstate__ vanished")
    derived = {}
    for n in own_nodes(init.node):
        if isinstance(n, ast.Assign) and len(n.targets) == 1 and self_attr(n.targets[0]) and self_attr(n.targets[0]) != "_worker_id_prefix" \
                and "self._worker_id_prefix" in norm(n.value):
            derived[self_attr(n.targets[0])] = n.value
    ctx.require(derived, "R06.11: no field of JournalStorage is derived from the worker id prefix any more")
    g = CFG(sst.node, name=sst.qualname)
    pref = [n for n in g.stmt_nodes() if n.kind == "stmt" and isinstance(n.ast, ast.Assign) and any(self_attr(t) == "_worker_id_prefix" for t in n.ast.targets)]
    ctx.check(bool(pref) and all("uuid" in norm(n.ast.value) for n in pref), "R06.11", sst.short, "prefix-refreshed",
              message="JournalStorage.__setstate__ does not give the unpickled object a fresh worker id prefix", how="self._worker_id_prefix = str(uuid.uuid4()) + '-'")
    for fld, v in sorted(derived.items()):
        again = [n for n in g.stmt_nodes() if n.kind == "stmt" and isinstance(n.ast, ast.Assign) and any(self_attr(t) == fld for t in n.ast.targets)
                 and "self._worker_id_prefix" in norm(n.ast.value)]
        ok = bool(again) and bool(pref) and all(g.dominated_by(n, pref) for n in again)
        ctx.check(ok, "R06.11", sst.short, f"worker-derived-field-recreated:{fld}",
                  message=f"JournalStorage.__setstate__ keeps self.{fld} as it was pickled although __init__ builds it from the worker id prefix (`{norm(v)[:60]}`): "
                          f"the copy replays with the SENDER's worker id, so it takes the sender's records for its own - it raises the errors of operations it never "
                          f"issued and records the sender's new trials as created by itself", how=f"self.{fld} = {norm(v)[:50]} after the prefix was refreshed")
    ctx.floor("R06.11", "worker_derived_fields", len(derived), 1)


def _r06_10(ctx, p):
    """The Redis journal (records, counter, snapshot) lives under the backend's own key prefix: a key that does not carry the prefix
    belongs to another journal on the same server."""
    ctx.rule("R06.10", "JournalRedisBackend: every key handed to a Redis command is built from self._prefix (directly or through a key helper that is): "
             "a snapshot or record read from a bare key is another journal's state, not a function of this journal's log")
    cls = p.cls("optuna.storages.journal._redis.JournalRedisBackend")
    ctx.require(cls is not None, "R06.10: JournalRedisBackend vanished")
    helpers = set()
    for mname, f in cls.methods.items():
        rets = [n.value for n in own_nodes(f.node) if isinstance(n, ast.Return) and n.value is not None]
        if rets and all("self._prefix" in norm(r) for r in rets) and mname.startswith("_key"):
            helpers.add(mname)
    n_keys = 0
    for mname, f in sorted(cls.methods.items()):
        defs = single_defs(f.node)
        for c in own_nodes(f.node):
            if not (isinstance(c, ast.Call) and isinstance(c.func, ast.Attribute) and norm(c.func.value) == "self._redis" and c.args):
                continue
            if c.func.attr == "eval":
                # Lua script: the prefix travels as an ARGV element
                ok = any(norm(a) == "self._prefix" for a in c.args[2:])
                key = "<script ARGV>"
            else:
                from sa.expr import resolve as _res
                k = _res(c.args[0], defs)
                key = norm(k)
                ok = "self._prefix" in key or any(isinstance(x, ast.Call) and self_attr(x.func) in helpers for x in ast.walk(k))
            n_keys += 1
            ctx.check(ok, "R06.10", f.short, f"key-carries-own-prefix:{c.func.attr}",
                      message=f"JournalRedisBackend.{mname} passes the key `{key[:50]}` to redis.{c.func.attr}: it does not contain self._prefix, so with a non-empty prefix "
                              f"the value read / written belongs to another journal on the same server (a worker restoring such a snapshot replays its own tail on top "
                              f"of foreign studies and a foreign read position)", how="f'{self._prefix}:...' or a _key_* helper built from it", where=where(f, c))
    ctx.floor("R06.10", "redis_commands", n_keys, 7)


def _r06_9(ctx, p, jcls):
    """What a JournalStorage method answers is read from the replay result after this call's own sync."""
    ctx.rule("R06.9", "every JournalStorage answer comes from the replay result, after the sync of the same call: a value-returning path passes "
             "self._sync_with_backend() first, the returned expression reads no other field of the storage object, and the storage object "
             "keeps no other state that changes over its lifetime (a worker-local memo would make two workers that read the same records disagree)")
    from sa.expr import resolve
    base = p.cls("optuna.storages._base.BaseStorage")
    api = set(base.methods) if base is not None else set()
    ctor = {"__init__", "__setstate__", "__getstate__"}
    n_ret = n_m = 0
    mutated = {}
    for mname, f in sorted(jcls.methods.items()):
        if mname not in ctor:
            for a in field_accesses(f.node):
                if a.kind in ("write", "mutate"):
                    mutated.setdefault(a.field, []).append((f, a.node))
        if mname not in api or mname.startswith("_"):
            continue
        n_m += 1
        g = CFG(f.node, name=f.qualname)
        defs = single_defs(f.node)
        syncs = [n for n in g.stmt_nodes() if any(self_attr(c.func) == "_sync_with_backend" for c in n.calls())]
        for n in g.stmt_nodes():
            if not (n.kind == "stmt" and isinstance(n.ast, ast.Return) and n.ast.value is not None):
                continue
            v = n.ast.value
            if isinstance(v, ast.Constant) and v.value is None:
                continue
            n_ret += 1
            ctx.check(bool(syncs) and g.dominated_by(n, syncs), "R06.9", f.short, "answer-after-sync",
                      message=f"JournalStorage.{mname} can return `{norm(v)[:60]}` on a path that did not call self._sync_with_backend(): the answer does not reflect "
                              f"records that other workers appended before the call (a deleted / re-created study, a finished trial) - workers that read the same "
                              f"log disagree", how="every value-returning path is dominated by the sync call", where=where(f, n.ast))
            r = resolve(v, defs, depth=4)
            other = sorted({x.attr for x in ast.walk(r) if isinstance(x, ast.Attribute) and isinstance(x.value, ast.Name) and x.value.id == "self"
                            and x.attr != "_replay_result"})
            ctx.check(not other, "R06.9", f.short, "answer-from-replay-result",
                      message=f"JournalStorage.{mname} returns `{norm(v)[:60]}`, which reads self.{', self.'.join(other)}: state kept by this storage object "
                              f"outside the replay result is this worker's own history, not a function of the records read",
                      how="returned expressions read self._replay_result (and arguments) only", where=where(f, n.ast))
    extra = {k: v for k, v in mutated.items() if k != "_replay_result"}
    ctx.check(not extra, "R06.9", jcls.name, "no-other-changing-state",
              message="JournalStorage changes " + ", ".join(f"self.{k} in {sorted({f.name for f, _ in v})}" for k, v in sorted(extra.items()))
                      + " after construction: state besides the replay result that depends on which calls this worker made",
              how="fields written or mutated outside __init__/__setstate__: only _replay_result")
    ctx.floor("R06.9", "value_returning_paths", n_ret, 14)
    ctx.floor("R06.9", "storage_api_methods", n_m, 19)


def _root_field(e):
    from sa.util import root_self_attr
    return root_self_attr(e)
