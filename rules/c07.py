"""C07 - journal file: locking and reader-guard clauses."""
from __future__ import annotations

from rules import _jfile as J

PROPERTY = "C07"


def run(ctx):
    ctx.explanation = (
        "Structural clauses behind an intact, totally ordered journal file: every write is "
        "inside the inter-process file lock; acquire() can only report success after an "
        "exclusive create (symlink / O_CREAT|O_EXCL); release renames to a unique name and "
        "unlinks it and is reached on all exits of get_lock_file; the reader accepts a line "
        "only if newline-terminated, inside the size snapshot and with no pending decode "
        "error; offset-cache entries are computed from the previous entry plus the line "
        "length and dropped when a line is rejected. Decides these clauses on all paths, not "
        "the atomicity of rename/symlink on a file system or take-over timing races.")
    ctx.assume("os.symlink and os.open(O_CREAT|O_EXCL) fail with EEXIST when the path exists; "
               "os.rename is atomic")
    ctx.rule("R07.1", "every journal-file write is inside `with get_lock_file(self._lock)`")
    J.rule_write_under_lock(ctx, "R07.1")
    ctx.rule("R07.7", "what is appended is a run of whole records: one write per batch, every record newline-terminated, and every newline written terminates a "
             "record (an empty batch writes nothing)")
    J.rule_append_ordering(ctx, "R07.7")
    ctx.rule("R07.2", "acquire() returns True only on the normal continuation of an exclusive create")
    J.rule_exclusive_acquire(ctx, "R07.2")
    ctx.rule("R07.3", "release = rename-to-unique then unlink, OSError->RuntimeError; released on "
             "all exits of get_lock_file; BaseException arm of acquire releases; lock classes agree")
    J.rule_release(ctx, "R07.3")
    ctx.rule("R07.6", "forced take-over: only after this waiter watched the same lock unchanged for a grace period on its "
             "monotonic clock (restart on mtime change, stat every iteration); removal bound to the observed lock")
    J.rule_takeover(ctx, "R07.6")
    ctx.rule("R07.4", "read_logs accepts a record only under the newline / size-snapshot / "
             "no-pending-error guards (per-iteration dominance)")
    ctx.rule("R07.5", "offset cache: offset[n+1] = offset[n] + len(line); rejected line drops its "
             "end offset; seek only to cached offsets")
    J.rule_reader_guards(ctx, "R07.4", "R07.5")
