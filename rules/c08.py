"""C08 - cache-coherence invariants of _CachedStorage and the gRPC client cache."""
from __future__ import annotations

import ast

from sa.cfg import CFG
from sa.expr import cmp_atom, edges_where, resolve, single_defs
from sa.loader import Program, dotted, norm, own_nodes
from sa.util import kwarg, parent_map, self_attr, where, ancestors, field_accesses, init_fields, lock_kind

PROPERTY = "C08"
CMOD = "optuna.storages._cached_storage"
CACHED = CMOD + "._CachedStorage"
GMOD = "optuna.storages._grpc.client"
GCACHE = GMOD + ".GrpcClientCache"
GPROXY = GMOD + ".GrpcStorageProxy"
RDB = "optuna.storages._rdb.storage.RDBStorage"
SERVICER = "optuna.storages._grpc.servicer.OptunaStorageProxyService"
WM = "last_finished_trial_id"
UNF = "unfinished_trial_ids"
NORMAL = lambda a, k, b: k not in ("e", "reraise", "match", "nomatch")  # noqa: E731


def _attr_store_nodes(g: CFG, attr: str):
    out = []
    for n in g.stmt_nodes():
        if n.kind == "stmt" and isinstance(n.ast, (ast.Assign, ast.AugAssign, ast.AnnAssign)):
            tg = n.ast.targets if isinstance(n.ast, ast.Assign) else [n.ast.target]
            for t in tg:
                if isinstance(t, ast.Attribute) and t.attr == attr:
                    out.append((n, t))
    return out


class Fetch:
    """Recognise the incremental fetch and decide whether a value is an element of it."""

    def __init__(self, ctx, cls):
        self.ctx = ctx
        self.p = ctx.program
        self.cls = cls

    def fetch_calls(self, f):
        """(call, study_var, ok, why) for every incremental-fetch call in f."""
        out = []
        defs = single_defs(f.node)
        for c in [x for x in own_nodes(f.node) if isinstance(x, ast.Call)]:
            d = dotted(c.func) or ""
            if d == "self._backend._get_trials":
                inc = kwarg(c, "included_trial_ids", 2)
                gt = kwarg(c, "trial_id_greater_than", 3)
                out.append((c, inc, gt))
            elif d.endswith(".GetTrials") and d.startswith("self."):
                req = c.args[0] if c.args else None
                if isinstance(req, ast.Name) and req.id in defs:
                    req = defs[req.id]
                inc = gt = None
                if isinstance(req, ast.Call):
                    inc = kwarg(req, "included_trial_ids")
                    gt = kwarg(req, "trial_id_greater_than")
                out.append((c, inc, gt))
        return out

    def is_fetched_element(self, f, name: str, depth=0) -> bool:
        """Is local `name` in f an element of the sequence returned by the incremental fetch?"""
        if depth > 3:
            return False
        fetch_vars = set()
        defs = single_defs(f.node)
        for c, inc, gt in self.fetch_calls(f):
            for n in own_nodes(f.node):
                if isinstance(n, ast.Assign) and n.value is c:
                    fetch_vars |= {t.id for t in n.targets if isinstance(t, ast.Name)}

        def seq_is_fetch(e):
            if isinstance(e, ast.Name) and e.id in fetch_vars:
                return True
            if isinstance(e, ast.Attribute) and isinstance(e.value, ast.Name) and e.value.id in fetch_vars and e.attr == "trials":
                return True
            return False

        # loop target over the fetched sequence
        for n in own_nodes(f.node):
            if isinstance(n, (ast.For, ast.comprehension)):
                tn = [x.id for x in ast.walk(n.target) if isinstance(x, ast.Name)]
                if name in tn and seq_is_fetch(n.iter):
                    return True
        # converted element: x = _from_proto_trial(y) with y fetched
        if name in defs and isinstance(defs[name], ast.Call):
            c = defs[name]
            if (dotted(c.func) or "").endswith("_from_proto_trial") and c.args and isinstance(c.args[0], ast.Name):
                return self.is_fetched_element(f, c.args[0].id, depth + 1)
        # parameter: every call site in the class passes a fetched element (or a list of them)
        if name in f.params():
            idx = f.params().index(name) - 1
            sites = []
            for mname, m in self.cls.methods.items():
                for c in [x for x in own_nodes(m.node) if isinstance(x, ast.Call)]:
                    if self_attr(c.func) == f.name:
                        sites.append((m, c))
            if not sites:
                return False
            for m, c in sites:
                a = kwarg(c, name, idx)
                if isinstance(a, ast.Name):
                    if not (self.is_fetched_element(m, a.id, depth + 1) or self._is_fetched_seq(m, a.id)):
                        return False
                else:
                    return False
            return True
        return False

    def _is_fetched_seq(self, f, name):
        for c, inc, gt in self.fetch_calls(f):
            for n in own_nodes(f.node):
                if isinstance(n, ast.Assign) and n.value is c and any(isinstance(t, ast.Name) and t.id == name for t in n.targets):
                    return True
        return False

    def is_element_of_param_seq(self, f, name):
        """name iterates over a parameter that all callers bind to the fetched sequence."""
        for n in own_nodes(f.node):
            if isinstance(n, ast.For):
                tn = [x.id for x in ast.walk(n.target) if isinstance(x, ast.Name)]
                if name in tn and isinstance(n.iter, ast.Name) and n.iter.id in f.params():
                    return self.is_fetched_element(f, n.iter.id)
        return False


def fetch_is_unfiltered(ctx, rule, cls, fx=None):
    """The incremental fetch asks for every trial above the watermark, whatever its state: the watermark is then advanced to the largest
    *finished* id that came back, which is sound only if nothing between the old and the new watermark was filtered out. With a state
    filter pushed into the fetch, a WAITING / RUNNING trial this client has never seen is skipped while a finished trial with a larger
    id moves the watermark past it - the client never fetches it again (a queued trial is never offered to this worker)
    (shared by C08 R08.1 and C04 R04.7)."""
    fx = fx or Fetch(ctx, cls)
    n = 0
    for mname, f in sorted(cls.methods.items()):
        for c, _inc, _gt in fx.fetch_calls(f):
            d = dotted(c.func) or ""
            if d == "self._backend._get_trials":
                st = kwarg(c, "states", 1)
            else:
                req = c.args[0] if c.args else None
                defs = single_defs(f.node)
                if isinstance(req, ast.Name) and req.id in defs:
                    req = defs[req.id]
                st = kwarg(req, "states") if isinstance(req, ast.Call) else None
            n += 1
            ok = st is None or (isinstance(st, ast.Constant) and st.value is None) or (isinstance(st, (ast.List, ast.Tuple)) and not st.elts)
            ctx.check(ok, rule, f.short, "fetch-not-filtered-by-state",
                      message=f"{cls.name}.{mname} issues its incremental fetch with states=`{norm(st)[:40] if st is not None else None}`: trials of other states above the "
                              f"watermark are left out of the answer while a finished trial with a larger id advances the watermark past them - this client never "
                              f"fetches them again (a trial another worker enqueued is never listed as WAITING here, so this worker keeps sampling new trials)",
                      how="states=None in the incremental fetch; the caller's filter is applied to the cached map", where=where(f, c))
    return n


def check_cache_class(ctx, cls, label, fetch_floor):
    p = ctx.program
    fx = Fetch(ctx, cls)
    # ---- R08.1b: the fetch is issued with the current watermark and unfinished set
    n_fetch = 0
    for mname, f in sorted(cls.methods.items()):
        for c, inc, gt in fx.fetch_calls(f):
            n_fetch += 1
            inc_ok = isinstance(inc, ast.Attribute) and inc.attr == UNF and isinstance(inc.value, ast.Name)
            gt_ok = isinstance(gt, ast.Attribute) and gt.attr == WM and isinstance(gt.value, ast.Name)
            same = inc_ok and gt_ok and inc.value.id == gt.value.id
            ctx.check(same, "R08.1", f.short, "fetch-uses-current-watermark-and-unfinished-set",
                      message=f"{cls.name}.{mname}: incremental fetch is not issued with "
                              f"<entry>.{UNF} and <entry>.{WM} of the same cache entry "
                              f"(got included={norm(inc) if inc is not None else None}, "
                              f"greater_than={norm(gt) if gt is not None else None})",
                      how="both fields of one entry passed unchanged", where=where(f, c))
    ctx.floor("R08.1", f"fetch_sites[{label}]", n_fetch, fetch_floor)
    fetch_is_unfiltered(ctx, "R08.1", cls, fx)
    # ---- R08.1c: the fetch, and every update of the entry that follows from it, run while the cache lock is held - in one section.
    # Two threads of one client otherwise merge their answers in an order unrelated to the order the backend produced them:
    # the older RUNNING answer lands after the newer COMPLETE one, untracked and below the watermark - stale for ever.
    from sa.locks import ClassLockInfo
    lock_field = next((k for k, v in init_fields(cls).items() if lock_kind(v)), None)
    ctx.require(lock_field is not None, f"R08.1: {cls.name} has no lock field")
    info = ClassLockInfo(p, cls, lock_field)
    for mname, f in sorted(cls.methods.items()):
        fetches = [c for c, _, _ in fx.fetch_calls(f)]
        if not fetches:
            continue
        g = CFG(f.node, name=f.qualname)
        upd = [n.ast for n, _ in _attr_store_nodes(g, WM)]
        upd += [c for c in own_nodes(f.node) if isinstance(c, ast.Call) and isinstance(c.func, ast.Attribute) and c.func.attr in ("add", "remove", "discard")
                and isinstance(c.func.value, ast.Attribute) and c.func.value.attr == UNF]
        pm = parent_map(f.node)

        def section(n):
            for a in ancestors(n, pm):
                if isinstance(a, ast.With) and any(self_attr(i.context_expr) == lock_field for i in a.items):
                    return a
            return None
        for c in fetches:
            ok = info.is_held(mname, c) and all(info.is_held(mname, u) and section(u) is section(c) for u in upd)
            ctx.check(ok, "R08.1", f.short, "fetch-and-update-under-one-lock-section",
                      message=f"{cls.name}.{mname}: the incremental fetch and the updates of watermark / unfinished set it leads to do not run inside one "
                              f"held section of self.{lock_field} (a caller reaches it without the lock, or the answer is merged in a later section): two threads "
                              f"of one client can merge an older answer after a newer one - the trial is cached RUNNING below the watermark and never fetched again",
                      how="fetch and updates lexically in one `with <lock>` block, or in a helper all of whose call sites hold the lock", where=where(f, c))
    # ---- R08.1: every watermark store takes max(old, <fetched element>._trial_id)
    n_store = 0
    for mname, f in sorted(cls.methods.items()):
        g = CFG(f.node, name=f.qualname)
        for n, t in _attr_store_nodes(g, WM):
            n_store += 1
            v = n.ast.value
            ok = False
            why = "value is not max(<entry>.last_finished_trial_id, <fetched trial>._trial_id)"
            if isinstance(v, ast.Call) and dotted(v.func) == "max" and len(v.args) == 2 and isinstance(n.ast, ast.Assign):
                old = [a for a in v.args if norm(a) == norm(t)]
                new = [a for a in v.args if norm(a) != norm(t)]
                if len(old) == 1 and len(new) == 1:
                    a = new[0]
                    if isinstance(a, ast.Attribute) and a.attr == "_trial_id" and isinstance(a.value, ast.Name):
                        nm = a.value.id
                        if fx.is_fetched_element(f, nm) or fx.is_element_of_param_seq(f, nm):
                            ok = True
                        else:
                            why = (f"`{nm}` is not an element of the sequence returned by the incremental "
                                   f"fetch (ids below it may never have been fetched)")
                    else:
                        why = f"new value `{norm(a)}` is not <fetched trial>._trial_id"
            ctx.check(ok, "R08.1", f.short, f"watermark-store:{norm(v)[:60]}",
                      message=f"{cls.name}.{mname} advances the watermark {WM} from a value that was not "
                              f"fetched: {why}", how="max(old, fetched._trial_id), provenance through loop/params",
                      where=where(f, n.ast))
    return n_store, fx


def sorted_by_number(ctx, rule, cls):
    """get_all_trials of a cache class returns its trials sorted ascending by trial number (the cache is a dict filled in fetch order:
    a trial of another client fetched late would otherwise come after newer ones) - shared by C08 R08.6 and C01 R01.19."""
    f = cls.methods.get("get_all_trials")
    ctx.require(f is not None, f"{rule}: {cls.name}.get_all_trials vanished")
    # ordering
    defs = {}
    srt = [c for n in own_nodes(f.node) if isinstance(n, ast.Call) for c in [n] if dotted(c.func) == "sorted"]
    ok = False
    for c in srt:
        k = kwarg(c, "key")
        if isinstance(k, ast.Lambda) and isinstance(k.body, ast.Attribute) and k.body.attr == "number" \
                and isinstance(k.body.value, ast.Name) and k.body.value.id == k.args.args[0].arg:
            rv = kwarg(c, "reverse")
            if rv is None or (isinstance(rv, ast.Constant) and rv.value is False):
                ok = True
    # every return value derives from the sorted list
    rets = [n for n in own_nodes(f.node) if isinstance(n, ast.Return) and n.value is not None]
    sorted_vars = set()
    for n in own_nodes(f.node):
        if isinstance(n, ast.Assign) and any(isinstance(x, ast.Call) and dotted(x.func) == "sorted" for x in ast.walk(n.value)):
            sorted_vars |= {t.id for t in n.targets if isinstance(t, ast.Name)}
    # names re-bound after the sort to something unsorted would break it
    rebound_later = False
    for r in rets:
        names = {x.id for x in ast.walk(r.value) if isinstance(x, ast.Name)} - {"copy", "deepcopy"}
        if not (names & sorted_vars) and not any(isinstance(x, ast.Call) and dotted(x.func) == "sorted" for x in ast.walk(r.value)):
            rebound_later = True
    ctx.check(ok and not rebound_later, rule, f.short, "sorted-by-number",
              message=f"{cls.name}.get_all_trials does not return the trials sorted ascending by t.number",
              how="return derives from sorted(.., key=lambda t: t.number)")



def run(ctx):
    p: Program = ctx.program
    ctx.explanation = (
        "Invariant behind both client caches: every trial id <= watermark is cached as finished "
        "or listed in the unfinished set, and reads re-fetch the unfinished set plus everything "
        "above the watermark. Checked structurally: watermark only advanced to ids of fetched "
        "trials (provenance through loops, helper parameters and proto conversion), fetch issued "
        "with the entry's current watermark/unfinished set, both outcomes of is_finished() "
        "handled, only finished trials served from cache, sync dominates serve, the three "
        "fetch-predicate implementations use the same comparison shapes, results ordered by "
        "number, invalidation on delete. Does not decide staleness windows between calls of "
        "different clients or SQLite id reuse after delete.")
    ctx.assume("the backend's _get_trials / GetTrials returns every trial with id in the included "
               "set or above the given watermark (checked as sibling shapes in R08.5)")

    ctx.rule("R08.1", "watermark provenance: stores are max(old, fetched._trial_id); fetch uses the "
             "current watermark and unfinished set")
    cached = p.cls(CACHED)
    gcache = p.cls(GCACHE)
    n1, fx1 = check_cache_class(ctx, cached, "_CachedStorage", 1)
    n2, fx2 = check_cache_class(ctx, gcache, "GrpcClientCache", 1)
    ctx.floor("R08.1", "watermark_stores", n1 + n2, 2)
    # no other module writes the watermark / unfinished set
    foreign = []
    for f in p.iter_funcs(("optuna",)):
        if f.cls in (cached, gcache) or (f.cls is not None and f.name == "__init__" and f.module.name in (CMOD, GMOD)):
            continue
        for n in own_nodes(f.node):
            if isinstance(n, ast.Attribute) and n.attr in (WM,) and isinstance(n.ctx, ast.Store):
                foreign.append((f, n))
    ctx.check(not foreign, "R08.1", "optuna", "watermark-writers-confined",
              message="watermark written outside the two cache classes: " + ", ".join(f.short for f, _ in foreign),
              how="who-may-write census over the package")

    # ------------------------------------------------------------ R08.2
    ctx.rule("R08.2", "both outcomes of is_finished() handled: unfinished -> added to the set; "
             "finished -> watermark advanced and id removed")
    n_sites = 0
    for cls in (cached, gcache):
        for mname, f in sorted(cls.methods.items()):
            g = CFG(f.node, name=f.qualname)
            stores = [n for n, t in _attr_store_nodes(g, WM)]
            if not stores:
                continue
            n_sites += 1

            def atom_fin(e):
                if isinstance(e, ast.Call) and isinstance(e.func, ast.Attribute) and e.func.attr == "is_finished":
                    return True
                return None
            tests = [t for t in g.stmt_nodes() if t.kind == "test" and edges_where(t.expr, atom_fin)]
            ctx.check(len(tests) >= 1, "R08.2", f.short, "is_finished-test",
                      message=f"{cls.name}.{mname} updates the watermark without testing trial.state.is_finished()",
                      how="branch on is_finished() present")
            adefs = single_defs(f.node)  # the set may be reached through a local alias (`ids = study.unfinished_trial_ids`)
            is_unf = lambda e: norm(resolve(e, adefs)).endswith("." + UNF)  # noqa: E731
            adds = [n for n in g.stmt_nodes() for c in n.calls()
                    if isinstance(c.func, ast.Attribute) and c.func.attr == "add" and is_unf(c.func.value)]
            rems = [n for n in g.stmt_nodes() for c in n.calls()
                    if isinstance(c.func, ast.Attribute) and c.func.attr in ("remove", "discard") and is_unf(c.func.value)]

            def atom_in_unf(e):
                if isinstance(e, ast.Compare) and len(e.ops) == 1 and is_unf(e.comparators[0]):
                    if isinstance(e.ops[0], ast.In):
                        return True
                    if isinstance(e.ops[0], ast.NotIn):
                        return False
                return None
            skip_edges = []
            for t in g.stmt_nodes():
                if t.kind == "test":
                    pol = edges_where(t.expr, atom_in_unf)
                    for k, m in t.succ:
                        if k in pol and pol[k] is False:
                            skip_edges.append((t, k, m))  # id not in the set: nothing to remove
            heads = [n for n in g.stmt_nodes() if n.kind == "iter"]
            ends = heads + [g.exit]
            for t in tests:
                pol = edges_where(t.expr, atom_fin)
                for k, m in t.succ:
                    if k not in pol:
                        continue
                    if pol[k] is False:
                        reach = g.reachable([m], avoid_nodes=adds, edge_ok=NORMAL)
                        bad = [e for e in ends if e in reach]
                        ctx.check(not bad and bool(adds), "R08.2", f.short, "unfinished-added",
                                  message=f"{cls.name}.{mname}: a fetched trial that is not finished is not "
                                          f"added to {UNF} (its later state changes would never be re-read)",
                                  how="every path from the not-finished edge passes unfinished.add",
                                  witness=g.witness(bad, guards=adds, src=m, edge_ok=NORMAL) if bad else None)
                    else:
                        reach = g.reachable([m], avoid_nodes=stores, edge_ok=NORMAL)
                        bad = [e for e in ends if e in reach]
                        ctx.check(not bad, "R08.2", f.short, "finished-advances-watermark",
                                  message=f"{cls.name}.{mname}: a fetched finished trial does not advance the watermark",
                                  how="every path from the finished edge passes the watermark store",
                                  witness=g.witness(bad, guards=stores, src=m, edge_ok=NORMAL) if bad else None)
                        reach = g.reachable([m], avoid_nodes=rems, avoid_edges=skip_edges, edge_ok=NORMAL)
                        bad = [e for e in ends if e in reach]
                        ctx.check(not bad and bool(rems), "R08.2", f.short, "finished-removed-from-unfinished",
                                  message=f"{cls.name}.{mname}: a trial that finished stays in {UNF} "
                                          f"(and is therefore never served from cache / always re-fetched) or "
                                          f"is not removed on some path",
                                  how="every path from the finished edge removes/discards the id (or finds it absent)",
                                  witness=g.witness(bad, guards=rems, edges=skip_edges, src=m, edge_ok=NORMAL) if bad else None)
    ctx.floor("R08.2", "fetch_processing_sites", n_sites, 2)

    # ------------------------------------------------------------ R08.3
    ctx.rule("R08.3", "only finished trials are served from cache; otherwise fall through to the backend")
    f = cached.methods.get("_get_cached_trial")
    ctx.require(f is not None, "R08.3: _CachedStorage._get_cached_trial vanished")
    g = CFG(f.node, name=f.qualname)

    def atom_in_unf(e):
        if isinstance(e, ast.Compare) and len(e.ops) == 1 and norm(e.comparators[0]).endswith("." + UNF):
            if isinstance(e.ops[0], ast.In):
                return True
            if isinstance(e.ops[0], ast.NotIn):
                return False
        return None
    n_serv = 0
    for n in g.stmt_nodes():
        if n.kind == "stmt" and isinstance(n.ast, ast.Return) and n.ast.value is not None:
            v = n.ast.value
            serving = []  # (expr, guarded_by_ifexp)
            def collect(e, guarded):
                if isinstance(e, ast.IfExp):
                    pol = edges_where(e.test, atom_in_unf)
                    collect(e.body, guarded or pol.get("t") is False)
                    collect(e.orelse, guarded or pol.get("f") is False)
                elif isinstance(e, ast.Constant) and e.value is None:
                    pass
                else:
                    serving.append((e, guarded))
            collect(v, False)
            for e, guarded in serving:
                if ".trials" not in norm(e) and "trials[" not in norm(e):
                    continue
                n_serv += 1
                if not guarded:
                    # statement-level guard
                    acc = []
                    for t in g.stmt_nodes():
                        if t.kind == "test":
                            pol = edges_where(t.expr, atom_in_unf)
                            for k, m in t.succ:
                                if k in pol and pol[k] is False:
                                    acc.append((t, k, m))
                    guarded = bool(acc) and g.dominated_by(n, [], acc)
                ctx.check(guarded, "R08.3", f.short, "serve-only-finished",
                          message="_get_cached_trial can return a cached trial whose id is in the unfinished set "
                                  "(a stale RUNNING/WAITING trial)",
                          how="cached object returned only under `trial_id not in unfinished_trial_ids`",
                          where=where(f, n.ast))
    ctx.floor("R08.3", "serving_returns", n_serv, 1)
    f = cached.methods.get("get_trial")
    ctx.require(f is not None, "R08.3: _CachedStorage.get_trial vanished")
    rets = [n for n in own_nodes(f.node) if isinstance(n, ast.Return) and n.value is not None]
    defs = single_defs(f.node)
    for r in rets:
        v = resolve(r.value, defs)
        ok = norm(v) in ("self._backend.get_trial(trial_id)", "self._get_cached_trial(trial_id)")
        ctx.check(ok, "R08.3", f.short, f"get_trial-source:{norm(r.value)}",
                  message=f"_CachedStorage.get_trial returns `{norm(v)}` - neither the finished-only cache lookup "
                          f"nor the backend", how="cache helper result or backend call")
    # the cache-hit return is under a not-None test
    f = p.cls(GPROXY).methods.get("get_trial")
    ctx.require(f is not None, "R08.3: GrpcStorageProxy.get_trial vanished")
    g = CFG(f.node, name=f.qualname)
    rpc = [n for n in g.stmt_nodes() for c in n.calls() if (dotted(c.func) or "") == "self._stub.GetTrial"]
    uses_cache = any(self_attr(x) == "_cache" for x in own_nodes(f.node))
    ok = bool(rpc) and g.exit not in g.reachable([g.entry], avoid_nodes=rpc, edge_ok=NORMAL) and not uses_cache
    ctx.check(ok, "R08.3", f.short, "proxy-get_trial-always-remote",
              message="GrpcStorageProxy.get_trial can answer without asking the server", how="GetTrial RPC on every path")

    # ------------------------------------------------------------ R08.4 / R08.6
    ctx.rule("R08.4", "get_all_trials syncs with the backend before reading the cached map")
    ctx.rule("R08.6", "get_all_trials returns the cached trials sorted by trial number")
    for cls in (cached, gcache):
        f = cls.methods.get("get_all_trials")
        ctx.require(f is not None, f"R08.4: {cls.name}.get_all_trials vanished")
        g = CFG(f.node, name=f.qualname)
        sync = [n for n in g.stmt_nodes() for c in n.calls() if self_attr(c.func) == "_read_trials_from_remote_storage"]
        reads = [n for n in g.stmt_nodes() if any(isinstance(x, ast.Attribute) and x.attr == "trials" for x in n.walk())]
        ctx.require(reads, f"R08.4: {cls.name}.get_all_trials no longer reads the cached trials map")
        ok = bool(sync) and all(g.dominated_by(n, sync) for n in reads)
        ctx.check(ok, "R08.4", f.short, "sync-before-serve",
                  message=f"{cls.name}.get_all_trials reads the cached map without a dominating "
                          f"_read_trials_from_remote_storage call in the same invocation",
                  how="sync call dominates every read of <entry>.trials")
        # the sync is for the same study id
        for n in sync:
            for c in n.calls():
                if self_attr(c.func) == "_read_trials_from_remote_storage":
                    ctx.check(bool(c.args) and norm(c.args[0]) == "study_id", "R08.4", f.short, "sync-same-study",
                              message="sync is issued for a different study than the one served", how="argument is study_id")
        sorted_by_number(ctx, "R08.6", cls)

    # ------------------------------------------------------------ R08.5 sibling fetch predicates
    ctx.rule("R08.5", "the three incremental-filter implementations use only the accepted comparison "
             "shapes: id > wm (strict), id in included, feature tests wm > -1 / len(included) > 0, "
             "pre-filter id <= wm; joined by `or`")
    rows = {}
    sites = [(p.lookup_method(p.cls(RDB), "_get_trials"), "trial_id_greater_than", "included_trial_ids"),
             (p.lookup_method(p.cls(SERVICER), "GetTrials"), "trial_id_greater_than", "included_trial_ids")]
    for f, wm, inc in sites:
        ctx.require(f is not None, "R08.5: a fetch-predicate implementation vanished")
        pm = parent_map(f.node)
        shapes = []
        for n in own_nodes(f.node):
            if isinstance(n, ast.Compare) and len(n.ops) == 1:
                a = cmp_atom(n)
                txtl, op, txtr = a
                mentions_wm = wm in (txtl, txtr) or wm in txtl.split() or wm in txtr.split()
                mentions_inc = inc in txtl or inc in txtr
                if not (wm in norm(n) or inc in norm(n)):
                    continue
                shape = None
                if txtr == wm and op is ast.Gt:
                    shape = "id>wm"
                elif txtl == wm and op is ast.Lt:
                    shape = "id>wm"
                elif txtl == wm and op is ast.Gt and txtr == "-1":
                    shape = "feature:wm>-1"
                elif txtl == f"len({inc})" and op is ast.Gt and txtr == "0":
                    shape = "feature:len(inc)>0"
                elif txtr == inc and op is ast.In:
                    shape = "id in inc"
                elif txtr == wm and op is ast.LtE:
                    # only as the filter of a comprehension over `inc` that is assigned back to it
                    comp = [x for x in ancestors(n, pm) if isinstance(x, (ast.GeneratorExp, ast.SetComp, ast.ListComp))]
                    if comp and norm(comp[0].generators[0].iter) == inc:
                        shape = "prefilter:id<=wm"
                shapes.append((shape, norm(n), n))
            elif isinstance(n, ast.Call) and isinstance(n.func, ast.Attribute) and n.func.attr == "in_" and n.args and "trial_id" in norm(n.func.value):
                # the membership operand is the whole included set (possibly re-wrapped), or a chunk of it in a loop that
                # provably visits every chunk: `for i in range(0, len(X), n): X[i:i + n]`
                fdefs = single_defs(f.node)
                arg = resolve(n.args[0], fdefs)
                whole = lambda e: norm(e) == inc or (isinstance(e, ast.Call) and dotted(e.func) in ("sorted", "list", "set", "tuple", "frozenset") and e.args and whole(resolve(e.args[0], fdefs)))  # noqa: E731
                ok_in = whole(arg)
                if not ok_in and isinstance(n.args[0], ast.Name):
                    chunk_defs = [x for x in own_nodes(f.node) if isinstance(x, ast.Assign) and any(isinstance(t, ast.Name) and t.id == n.args[0].id for t in x.targets)]
                    for cd in chunk_defs:
                        v = cd.value
                        loops = [a for a in ancestors(cd, pm) if isinstance(a, ast.For)]
                        if (isinstance(v, ast.Subscript) and isinstance(v.slice, ast.Slice) and loops and isinstance(loops[0].target, ast.Name)
                                and whole(resolve(v.value, fdefs)) and isinstance(loops[0].iter, ast.Call) and dotted(loops[0].iter.func) == "range"
                                and len(loops[0].iter.args) == 3):
                            i = loops[0].target.id
                            r0, r1, r2 = loops[0].iter.args
                            lo, hi = v.slice.lower, v.slice.upper
                            ok_in = (norm(r0) == "0" and norm(r1) == f"len({norm(v.value)})" and lo is not None and norm(lo) == i
                                     and hi is not None and norm(hi) in (f"{i} + {norm(r2)}", f"{norm(r2)} + {i}"))
                shapes.append(("id in inc" if ok_in else None, norm(n), n))
        rows[f.short] = [s for s, _, _ in shapes]
        for shape, txt, node in shapes:
            ctx.check(shape is not None, "R08.5", f.short, f"shape:{txt}",
                      message=f"{f.name}: `{txt}` is not one of the accepted incremental-filter shapes "
                              f"(strict id > watermark, id in included set, feature tests, redundant-id pre-filter); "
                              f"siblings: {rows}",
                      how=f"accepted shape {shape}", where=where(f, node))
        # disjunction: wherever both an `id>wm` and an `id in inc` atom feed one filter they are or-ed
        for n in own_nodes(f.node):
            both = None
            if isinstance(n, ast.BoolOp):
                txt = [norm(v) for v in n.values]
                has_wm = any(wm in t for t in txt)
                has_inc = any(inc in t for t in txt)
                if has_wm and has_inc and not any("len(" in t or "> -1" in t for t in txt):
                    both = isinstance(n.op, ast.Or)
            if isinstance(n, ast.Call) and (dotted(n.func) or "").split(".")[-1] in ("or_", "and_"):
                txt = [norm(a) for a in n.args]
                if any(wm in t for t in txt) and any(inc in t for t in txt):
                    both = (dotted(n.func) or "").endswith("or_")
            if both is not None:
                ctx.check(both, "R08.5", f.short, "joined-by-or",
                          message=f"{f.name}: watermark and included-set conditions are not joined by OR",
                          how="disjunction", where=where(f, n))
        want = {"id>wm", "id in inc"}
        ctx.check(want <= set(rows[f.short]), "R08.5", f.short, "has-both-atoms",
                  message=f"{f.name}: incremental filter lost one of its two atoms {want - set(rows[f.short])}",
                  how="both atoms present")
    ctx.note("fetch_predicate_rows", rows)

    # ------------------------------------------------------------ R08.7 invalidation
    ctx.rule("R08.7", "delete invalidates the caches; no storage API rewrites study name/directions")
    f = cached.methods.get("delete_study")
    ctx.require(f is not None, "R08.7: _CachedStorage.delete_study vanished")
    from sa.util import field_accesses as _fa
    removed = {a.field for a in _fa(f.node) if a.kind == "mutate"}
    for fld in ("_studies", "_trial_id_to_study_id_and_number", "_study_id_and_number_to_trial_id"):
        ctx.check(fld in removed, "R08.7", f.short, f"invalidate:{fld}",
                  message=f"_CachedStorage.delete_study does not remove entries of {fld}", how="del / pop on the map")
    # ... on every path: once the study is known to be cached, no way to the end of the method avoids dropping its entry (a removal that
    # sits inside the per-trial loop is skipped for a study without cached trials: name and directions survive the delete)
    gd = CFG(f.node, name=f.qualname)
    ddefs = single_defs(f.node)

    def _cached_atom(e):
        a = cmp_atom(e)
        if a is None:
            return None
        if a[0] == "study_id" and a[2] == "self._studies" and a[1] in (ast.In, ast.NotIn):
            return a[1] is ast.In
        if a[2] == "None" and a[1] in (ast.Is, ast.IsNot) and norm(resolve(ast.parse(a[0], mode="eval").body, ddefs)).startswith("self._studies.get(study_id"):
            return a[1] is ast.IsNot
        return None
    cached_edges = [(t, k, m) for t in gd.stmt_nodes() if t.kind == "test" for k, m in t.succ if edges_where(t.expr, _cached_atom).get(k) is True]
    rem = []
    for n in gd.stmt_nodes():
        if n.kind == "stmt" and isinstance(n.ast, ast.Delete) and any(norm(t) == "self._studies[study_id]" for t in n.ast.targets):
            rem.append(n)
        if any(isinstance(c.func, ast.Attribute) and c.func.attr == "pop" and norm(c.func.value) == "self._studies" and c.args and norm(c.args[0]) == "study_id" for c in n.calls()):
            rem.append(n)
    starts = [m for _t, _k, m in cached_edges]
    ok = bool(cached_edges) and bool(rem) and gd.exit not in gd.reachable(starts, avoid_nodes=rem, edge_ok=NORMAL)
    if not cached_edges and rem:
        # unconditional removal: must be on every path from the entry
        ok = gd.exit not in gd.reachable([gd.entry], avoid_nodes=rem, edge_ok=NORMAL)
    ctx.check(ok, "R08.7", f.short, "study-entry-dropped-on-every-path",
              message="_CachedStorage.delete_study can finish with the study still in self._studies although it was cached (e.g. the removal sits inside the loop over the "
                      "study's cached trials and is skipped for a study without any): get_study_name_from_id / get_study_directions keep answering for the deleted "
                      "study, and for the next study that re-uses the id", how="from the `study is cached` edge every path to the exit passes del/pop of self._studies[study_id]",
              witness=gd.witness([gd.exit], guards=rem, src=starts[0], edge_ok=NORMAL) if (starts and not ok) else None)
    from rules.c03 import mirrored_write_in_one_section
    from sa.locks import ClassLockInfo as _CLI
    mirrored_write_in_one_section(ctx, "R08.7", _CLI(p, cached, "_lock"))
    f = p.cls(GPROXY).methods.get("delete_study")
    ctx.require(f is not None, "R08.7: GrpcStorageProxy.delete_study vanished")
    g = CFG(f.node, name=f.qualname)
    inv = [n for n in g.stmt_nodes() for c in n.calls() if (dotted(c.func) or "") == "self._cache.delete_study_cache"]
    ok = bool(inv) and g.exit not in g.reachable([g.entry], avoid_nodes=inv, edge_ok=NORMAL)
    ctx.check(ok, "R08.7", f.short, "invalidate:grpc-cache",
              message="GrpcStorageProxy.delete_study can return without invalidating the client cache",
              how="delete_study_cache on every normal path")
    f = gcache.methods.get("delete_study_cache")
    ctx.require(f is not None, "R08.7: GrpcClientCache.delete_study_cache vanished")
    ok = any(isinstance(c, ast.Call) and isinstance(c.func, ast.Attribute) and c.func.attr == "pop" and norm(c.func.value) == "self.studies"
             for c in own_nodes(f.node)) or any(isinstance(n, ast.Delete) and any(norm(t).startswith("self.studies[") for t in n.targets) for n in own_nodes(f.node))
    ctx.check(ok, "R08.7", f.short, "invalidate:studies", message="delete_study_cache does not drop the entry", how="pop/del of self.studies[study_id]")
    # delete_study clears the id<->number maps by walking the study's cached trial table, so an entry may only be
    # entered together with a row of that table: the one method that inserts into `<study>.trials[...]` is the only
    # writer of the maps besides delete_study (a look-up that memoises its answer would leave keys delete never finds)
    map_fields = [fld for fld in cached.fields() if "number" in fld and "trial_id" in fld] if hasattr(cached, "fields") else []
    if not map_fields:
        map_fields = sorted({a.field for m in cached.methods.values() for a in field_accesses(m.node) if "number" in a.field and "trial_id" in a.field})
    ctx.require(map_fields, "R08.7: the cached storage's id<->number maps vanished")
    table_writers = {m.name for m in cached.methods.values() for n in own_nodes(m.node)
                     if isinstance(n, ast.Assign) and any(isinstance(t, ast.Subscript) and norm(t.value).endswith(".trials") for t in n.targets)}
    ctx.require(table_writers, "R08.7: no method inserts into the cached trial table")
    for fld in map_fields:
        writers = {m.name for m in cached.methods.values() for a in field_accesses(m.node) if a.field == fld and a.kind in ("write", "mutate")}
        extra = writers - table_writers - {"delete_study", "__init__"}
        ctx.check(not extra, "R08.7", cached.module.relpath + "::" + cached.name, f"map-writers:{fld}",
                  message=f"_CachedStorage.{fld} is also written by {sorted(extra)}: delete_study removes map entries by walking the study's cached trials, so an entry "
                          f"entered without a row in that table survives the deletion and answers for whatever study re-uses the id",
                  how=f"writers are {sorted(table_writers)} (with the trial table), delete_study and __init__ only")
    # a study the server no longer knows (NOT_FOUND -> KeyError) loses its cache entry before the
    # error leaves: with re-used ids the next study under that id must not inherit trials and watermark
    f = gcache.methods.get("_read_trials_from_remote_storage")
    ctx.require(f is not None, "R08.7: GrpcClientCache._read_trials_from_remote_storage vanished")
    g = CFG(f.node, name=f.qualname)
    kraise = [n for n in g.stmt_nodes() if n.kind == "stmt" and isinstance(n.ast, ast.Raise) and n.ast.exc is not None and "KeyError" in norm(n.ast.exc)]
    drops = [n for n in g.stmt_nodes() if any(isinstance(c.func, ast.Attribute) and c.func.attr == "pop" and norm(c.func.value) == "self.studies" for c in n.calls())
             or (n.kind == "stmt" and isinstance(n.ast, ast.Delete) and any(norm(t).startswith("self.studies[") for t in n.ast.targets))]
    ctx.require(kraise, "R08.7: the NOT_FOUND -> KeyError translation in GrpcClientCache vanished")
    # entries created by this very call need no drop: accept when no entry can exist on the path
    stores = [n for n in g.stmt_nodes() if n.kind == "stmt" and isinstance(n.ast, ast.Assign) and any(norm(t).startswith("self.studies[") for t in n.ast.targets)]
    for r in kraise:
        ok = g.dominated_by(r, drops) if drops else False
        ctx.check(ok, "R08.7", f.short, "invalidate:on-study-not-found",
                  message="GrpcClientCache keeps the cache entry of a study the server reports as missing: after the id is re-used (SQLite) the proxy serves the deleted "
                          "study's finished trials and watermark for the new study",
                  how="`self.studies.pop(study_id)` dominates the KeyError raised for NOT_FOUND", where=where(f, r.ast))
    base = p.cls("optuna.storages._base.BaseStorage")
    writers = [m for m in base.methods if m.startswith("set_study_") and ("name" in m or "direction" in m)]
    ctx.check(not writers, "R08.7", base.module.relpath + "::BaseStorage", "no-name-direction-writers",
              message=f"BaseStorage gained {writers}: cached study name/directions could go stale",
              how="who-may-write census: 0 methods")
