"""C09 - storage ids and unseeded randomness cannot reach a sampling decision."""
from __future__ import annotations

import ast

from sa.loader import Program, dotted, norm, own_nodes
from sa.util import ancestors, call_sites, kwarg, parent_map, self_attr, where

PROPERTY = "C09"
SCOPE = ("optuna.samplers", "optuna.pruners", "optuna.search_space", "optuna._gp", "optuna.study._multi_objective",
         "optuna._hypervolume")
SCOPE_THOROUGH = SCOPE + ("optuna.terminator", "optuna.importance")
ID_ATTRS = {"_trial_id", "_study_id"}
# reasoned exceptions: (function short name, detail) -> reason
ID_TABLE = {
    ("optuna/search_space/intersection.py::IntersectionSearchSpace.calculate", "remember-study"):
        "stores the study id once and compares it for equality to refuse reuse across studies; result-neutral",
    ("optuna/search_space/group_decomposed.py::_GroupDecomposedSearchSpace.calculate", "remember-study"):
        "same guard as IntersectionSearchSpace",
}
AMBIENT_PREFIX = ("np.random.", "numpy.random.", "random.", "time.", "uuid.", "secrets.")
AMBIENT_EXACT = {"os.urandom", "os.getpid", "hash", "id", "datetime.now", "datetime.datetime.now", "datetime.utcnow",
                 "datetime.datetime.utcnow", "threading.get_ident"}
# constructor-time seeding idioms (function short -> reason)
RNG_TABLE = {
    "optuna/samplers/_lazy_random_state.py::LazyRandomState._set_rng":
        "creates the sampler's RandomState; LazyRandomState.__init__ seeds it when a seed is given",
    "optuna/samplers/_qmc.py::QMCSampler.__init__":
        "draws a seed only under `seed is None` (user asked for no reproducibility)",
}
TIME_OK = {"time.sleep"}

FIXTURE = '''
import numpy as np
class S:
    def sample_relative(self, study, trial, space):
        pool = sorted(study.get_trials(deepcopy=False), key=lambda t: t._trial_id)
        if trial._trial_id % 2 == 0:
            return {}
        return {"x": np.random.uniform()}
'''


def storage_method_names(p: Program) -> set[str]:
    base = p.cls("optuna.storages._base.BaseStorage")
    names = set(base.methods)
    for q in ("optuna.storages._rdb.storage.RDBStorage", "optuna.storages._heartbeat.BaseHeartbeat"):
        names |= set(p.cls(q).methods)
    return {n for n in names if not n.startswith("__")}


def id_flows(p: Program, prefixes, storage_methods):
    """Yield (func, node, verdict, detail) for every read of <x>._trial_id / <x>._study_id and of
    locals assigned from them."""
    for f in p.iter_funcs(prefixes):
        pm = parent_map(f.node)
        aliases = set()
        for n in own_nodes(f.node):
            if isinstance(n, ast.Assign) and len(n.targets) == 1 and isinstance(n.targets[0], ast.Name) \
                    and isinstance(n.value, ast.Attribute) and n.value.attr in ID_ATTRS and not (isinstance(n.value.value, ast.Name) and n.value.value.id == "self"):
                aliases.add(n.targets[0].id)
        for n in own_nodes(f.node):
            is_src = isinstance(n, ast.Attribute) and n.attr in ID_ATTRS and isinstance(n.ctx, ast.Load)
            is_alias = isinstance(n, ast.Name) and n.id in aliases and isinstance(n.ctx, ast.Load)
            if not (is_src or is_alias):
                continue
            own_field = is_src and isinstance(n.value, ast.Name) and n.value.id == "self"
            par = pm.get(id(n))
            verdict, detail = "flow", None
            # (1) positional id argument of a storage method / Trial(study, id)
            if isinstance(par, ast.Call) and n in par.args:
                fn = par.func
                name = fn.attr if isinstance(fn, ast.Attribute) else getattr(fn, "id", "")
                idx = par.args.index(n)
                if name in storage_methods and idx == 0:
                    verdict = "sink-ok"
                elif name == "Trial" and idx == 1:
                    verdict = "sink-ok"
                else:
                    detail = f"{n.attr if is_src else n.id}->{name}.arg{idx}"
            elif isinstance(par, ast.keyword) and par.arg in ("trial_id", "study_id"):
                verdict = "sink-ok"
            elif isinstance(par, ast.Assign) and par.value is n:
                tgt = par.targets[0]
                if isinstance(tgt, ast.Name):
                    verdict = "alias-def"
                elif isinstance(tgt, ast.Attribute) and isinstance(tgt.value, ast.Name) and tgt.value.id == "self" and tgt.attr in ID_ATTRS:
                    verdict, detail = "table", "remember-study"
                else:
                    detail = f"{n.attr if is_src else n.id}->store:{norm(tgt)}"
            elif isinstance(par, ast.Compare) and own_field is False and any(
                    isinstance(x, ast.Attribute) and x.attr in ID_ATTRS and isinstance(x.value, ast.Name) and x.value.id == "self"
                    for x in [par.left] + par.comparators) and all(isinstance(o, (ast.Eq, ast.NotEq, ast.Is, ast.IsNot)) for o in par.ops):
                verdict, detail = "table", "remember-study"
            elif own_field:
                # reads of the object's own remembered id: only inside equality tests / None tests
                if isinstance(par, ast.Compare) and all(isinstance(o, (ast.Eq, ast.NotEq, ast.Is, ast.IsNot)) for o in par.ops):
                    verdict, detail = "table", "remember-study"
                else:
                    detail = f"self.{n.attr}->{type(par).__name__}"
            if verdict == "flow" and detail is None:
                # describe the consuming construct: enclosing call argument / comparison / subscript
                ctxs = []
                for a in ancestors(n, pm):
                    if isinstance(a, ast.Call):
                        fn = a.func
                        name = fn.attr if isinstance(fn, ast.Attribute) else getattr(fn, "id", "?")
                        # which parameter position contains us?
                        pos = None
                        for i, arg in enumerate(a.args):
                            if any(x is n for x in ast.walk(arg)):
                                pos = f"arg{i}"
                        for kw in a.keywords:
                            if any(x is n for x in ast.walk(kw.value)):
                                pos = kw.arg
                        pname = pos
                        if name in ("set_study_system_attr", "set_study_user_attr", "set_trial_system_attr", "set_trial_user_attr") and pos == "arg2":
                            pname = "value"
                        ctxs.append(f"{name}.{pname}")
                        break
                    if isinstance(a, (ast.Compare, ast.Subscript, ast.BinOp, ast.Lambda, ast.Return)):
                        ctxs.append(type(a).__name__)
                        if isinstance(a, (ast.Compare, ast.Subscript, ast.BinOp)):
                            break
                    if isinstance(a, ast.stmt):
                        break
                detail = f"{n.attr if is_src else n.id}->" + (ctxs[-1] if ctxs else type(par).__name__)
            yield f, n, verdict, detail


def ambient_calls(p: Program, prefixes):
    for f in p.iter_funcs(prefixes):
        for n in own_nodes(f.node):
            if isinstance(n, ast.Call):
                d = dotted(n.func) or ""
                if d in TIME_OK:
                    continue
                if d in AMBIENT_EXACT or d.startswith(AMBIENT_PREFIX):
                    # annotations are not calls; RandomState(seed) with an explicit seed is seeding
                    yield f, n, d


def run(ctx):
    p: Program = ctx.program
    ctx.explanation = (
        "Two structural necessary conditions of storage-independent reproducibility: (1) a "
        "storage-specific identifier (<x>._trial_id, study._study_id) read in sampler, pruner, "
        "search-space, GP or multi-objective code may only be passed as the id argument of a "
        "storage method (or Trial(study, id)); any other flow - into a stored value, comparison, "
        "index, arithmetic, sort key - is reported; (2) no call to module-level/unseeded "
        "randomness or ambient sources in those packages outside the tabled constructor-time "
        "seeding idioms, and every function with an unseeded RandomState fallback is called with "
        "an rng that derives from the sampler's self._rng.rng. Also a census of how history is "
        "read and that copy_study forwards every component. Does not decide equality of whole "
        "runs, hash-order effects of set iteration, or floating-point reproducibility.")
    ctx.assume("ids are only obtained through the attributes _trial_id/_study_id (no other accessor exists in FrozenTrial/Study)")
    scope = SCOPE_THOROUGH if ctx.tier == "thorough" else SCOPE
    sm = storage_method_names(p)

    # ------------------------------------------------------------ R09.1
    ctx.rule("R09.1", "storage ids only flow into the id argument of storage methods (taint by syntactic consumer; one alias level)")
    n_src = 0
    for f, n, verdict, detail in id_flows(p, scope, sm):
        n_src += 1
        if verdict in ("sink-ok", "alias-def"):
            ctx.ok("R09.1", f.short, f"id-sink:{norm(n)}", how="id argument of a storage method", nontrivial=(verdict == "sink-ok"))
        elif verdict == "table":
            key = (f.short, detail)
            ctx.check(key in ID_TABLE, "R09.1", f.short, f"id-flow:{detail}",
                      message=f"{f.name}: `{norm(n)}` is remembered/compared outside the tabled exceptions", how="tabled: " + ID_TABLE.get(key, ""),
                      where=where(f, n), nontrivial=False)
        else:
            ctx.fail("R09.1", f.short, detail,
                     f"{f.name}: storage-specific id `{norm(n)}` flows into `{detail.split('->')[1]}`: the result differs between "
                     f"backends whose ids differ from trial numbers (RDB ids start at 1, in-memory ids are shared across studies)",
                     where=where(f, n))
    ctx.floor("R09.1", "id_source_sites", n_src, 30)
    # wall-clock attributes of trials are as storage/run specific as ids: no use at all in decision code
    n_time = 0
    for f in p.iter_funcs(scope):
        for n in own_nodes(f.node):
            if isinstance(n, ast.Attribute) and n.attr in ("datetime_start", "datetime_complete", "duration") and isinstance(n.ctx, ast.Load) \
                    and not (isinstance(n.value, ast.Name) and n.value.id == "self"):
                n_time += 1
                ctx.fail("R09.1", f.short, f"time-attr:{n.attr}",
                         f"{f.name} reads `{norm(n)}`: wall-clock timestamps differ between runs and storages, so any decision based on them is not reproducible",
                         where=where(f, n))
    if n_time == 0:
        ctx.ok("R09.1", "sampler/pruner packages", "no-wall-clock-attributes", how="0 reads of datetime_start/datetime_complete/duration", nontrivial=False)
    fx = Program.from_sources({"fx.sampler": FIXTURE})
    fl = [(v, d) for _, _, v, d in id_flows(fx, ("fx",), sm) if v == "flow"]
    ctx.require(len(fl) == 2, f"R09.1: positive fixture not flagged as expected ({fl})")
    ctx.count("R09.1", "fixture_flagged", len(fl))

    # ------------------------------------------------------------ R09.2
    ctx.rule("R09.2", "no unseeded/ambient randomness in sampler code outside tabled seeding idioms; unseeded-fallback callees get the sampler's rng")
    fallbacks = {}
    n_amb = 0
    for f, c, d in ambient_calls(p, scope):
        n_amb += 1
        pm = parent_map(f.node)
        par = pm.get(id(c))
        # pattern p = p or np.random.RandomState()
        if d.endswith("RandomState") and isinstance(par, ast.BoolOp) and isinstance(par.op, ast.Or) and isinstance(par.values[0], ast.Name) \
                and par.values[0].id in f.params() and not c.args and not c.keywords:
            fallbacks[f.qualname] = (f, par.values[0].id)
            continue
        if d.endswith("RandomState") and (c.args or c.keywords):
            ctx.ok("R09.2", f.short, f"seeded-ctor:{d}", how="RandomState constructed from an explicit seed", nontrivial=False)
            continue
        ok = f.short in RNG_TABLE
        ctx.check(ok, "R09.2", f.short, f"ambient:{d}",
                  message=f"{f.name} calls `{d}` - randomness/ambient state outside the sampler's seeded RandomState: runs are not reproducible from the seed",
                  how="tabled idiom: " + RNG_TABLE.get(f.short, ""), where=where(f, c), nontrivial=False)
    ctx.floor("R09.2", "fallback_functions", len(fallbacks), 3)
    fxa = list(ambient_calls(fx, ("fx",)))
    ctx.require(len(fxa) == 1, "R09.2: positive fixture not flagged")

    def rng_ok(func, expr, depth=0):
        """Does the rng argument derive from self._rng.rng (through parameters)?"""
        if depth > 4:
            return False, "depth"
        t = norm(expr)
        if t.endswith("._rng.rng") or t == "self._rng.rng":
            return True, t
        if isinstance(expr, ast.Constant) and expr.value is None:
            return False, "None"
        if isinstance(expr, ast.Name) and expr.id in func.params():
            sites = [(g, c) for g, c in call_sites(p, func.name, SCOPE) if g is not func]
            if func.cls is not None:
                sites = [(g, c) for g, c in sites]
            if not sites:
                return True, f"no call sites of {func.name} in sampler scope"
            pidx = func.params().index(expr.id) - (1 if func.cls is not None and "staticmethod" not in func.decorators() else 0)
            for g, c in sites:
                a = kwarg(c, expr.id, pidx)
                if a is None:
                    return False, f"{g.short} omits {expr.id}"
                ok, why = rng_ok(g, a, depth + 1)
                if not ok:
                    return False, f"{g.short}: {why}"
            return True, "all callers pass a derived rng"
        if isinstance(expr, ast.Attribute) and expr.attr == "rng":
            return True, t
        return False, f"`{t}`"

    for q, (f, pname) in sorted(fallbacks.items()):
        sites = [(g, c) for g, c in call_sites(p, f.name, SCOPE) if g is not f]
        # method-name collisions (e.g. `.rvs`) are accepted only when called on the module/function
        for g, c in sites:
            pidx = f.params().index(pname)
            a = kwarg(c, pname, pidx)
            if a is None:
                ctx.fail("R09.2", g.short, f"rng-omitted:{f.name}",
                         f"{g.name} calls {f.name} without `{pname}`: it falls back to an unseeded np.random.RandomState()", where=where(g, c))
                continue
            ok, why = rng_ok(g, a)
            ctx.check(ok, "R09.2", g.short, f"rng-provenance:{f.name}",
                      message=f"{g.name} passes `{norm(a)}` as {pname} of {f.name}, which does not derive from the sampler's self._rng.rng ({why})",
                      how=f"derives from self._rng.rng ({why})", where=where(g, c))
    # samplers own a LazyRandomState and reseed it
    base = p.cls("optuna.samplers._base.BaseSampler")
    n_s = 0
    for c in p.subclasses(base):
        if not c.module.name.startswith("optuna.samplers"):
            continue
        init = c.methods.get("__init__")
        if init is None:
            continue
        has_rng = any(isinstance(n, ast.Assign) and any(self_attr(t) == "_rng" for t in n.targets) for n in own_nodes(init.node))
        if not has_rng:
            continue
        n_s += 1
        v = [n.value for n in own_nodes(init.node) if isinstance(n, ast.Assign) and any(self_attr(t) == "_rng" for t in n.targets)][0]
        ok = isinstance(v, ast.Call) and (dotted(v.func) or "").endswith("LazyRandomState") and v.args and "seed" in norm(v.args[0]) or \
            (isinstance(v, ast.Call) and (dotted(v.func) or "").endswith("LazyRandomState") and any(k.arg == "seed" for k in v.keywords))
        ctx.check(bool(ok), "R09.2", init.short, "rng-seeded-from-seed-param",
                  message=f"{c.name}.__init__ builds its RandomState as `{norm(v)}`, not from the seed argument", how="LazyRandomState(seed)")
    ctx.floor("R09.2", "samplers_with_rng", n_s, 6)

    # ------------------------------------------------------------ R09.5 hash order
    ctx.rule("R09.5", "hash-order confinement: no iteration over a set-typed local, and every use of a group-decomposed sub-space dict "
             "(built from set operations on parameter names) goes through sorted() / len() / membership")
    n_sets = 0
    n_sub = 0
    for f in p.iter_funcs(scope):
        pm = parent_map(f.node)
        set_names = set()
        for n in own_nodes(f.node):
            if isinstance(n, ast.Assign) and len(n.targets) == 1 and isinstance(n.targets[0], ast.Name):
                v = n.value
                if isinstance(v, (ast.Set, ast.SetComp)) or (isinstance(v, ast.Call) and dotted(v.func) in ("set", "frozenset")):
                    set_names.add(n.targets[0].id)
        changed = True
        while changed:
            changed = False
            for n in own_nodes(f.node):
                if isinstance(n, ast.Assign) and len(n.targets) == 1 and isinstance(n.targets[0], ast.Name) and n.targets[0].id not in set_names:
                    v = n.value
                    if isinstance(v, ast.BinOp) and isinstance(v.op, (ast.BitAnd, ast.BitOr, ast.Sub, ast.BitXor)) and any(
                            isinstance(x, ast.Name) and x.id in set_names for x in (v.left, v.right)):
                        set_names.add(n.targets[0].id)
                        changed = True

        def is_set_expr(e):
            if isinstance(e, ast.Name):
                return e.id in set_names
            if isinstance(e, (ast.Set, ast.SetComp)):
                return True
            if isinstance(e, ast.Call) and dotted(e.func) in ("set", "frozenset"):
                return True
            if isinstance(e, ast.BinOp) and isinstance(e.op, (ast.BitAnd, ast.BitOr, ast.Sub, ast.BitXor)):
                return is_set_expr(e.left) or is_set_expr(e.right)
            return False
        for n in own_nodes(f.node):
            it = None
            if isinstance(n, ast.For):
                it = n.iter
            elif isinstance(n, ast.comprehension):
                it = n.iter
            if it is not None and is_set_expr(it):
                n_sets += 1
                # building another set / testing membership does not expose the order
                par = pm.get(id(n))
                order_free = isinstance(par, ast.SetComp) or (isinstance(par, (ast.GeneratorExp, ast.ListComp)) and isinstance(pm.get(id(par)), ast.Call)
                                                              and dotted(pm.get(id(par)).func) in ("set", "frozenset", "sorted", "any", "all", "sum", "len", "min", "max"))
                in_scope_sampler = f.module.name.startswith(("optuna.samplers", "optuna.pruners", "optuna._gp"))
                if in_scope_sampler:
                    ctx.check(order_free, "R09.5", f.short, f"set-iteration:{norm(it)[:30]}",
                              message=f"{f.name} iterates the set `{norm(it)}`: iteration order of a set of strings follows the per-process hash seed, so the "
                                      f"sequence of sampling decisions differs between interpreter runs", how="result is order-free (set/sorted/any/all/sum/len)",
                              where=where(f, it))
        # sub-spaces of the group decomposition
        for n in own_nodes(f.node):
            if isinstance(n, ast.For) and isinstance(n.iter, ast.Attribute) and n.iter.attr == "search_spaces" and isinstance(n.target, ast.Name):
                var = n.target.id
                for x in ast.walk(n):
                    if isinstance(x, ast.Name) and x.id == var and isinstance(x.ctx, ast.Load):
                        n_sub += 1
                        ok = False
                        cur = x
                        for a in ancestors(x, pm):
                            if isinstance(a, ast.Call) and dotted(a.func) in ("sorted", "len") and any(any(y is x for y in ast.walk(arg)) for arg in a.args):
                                ok = True
                                break
                            if isinstance(a, ast.Compare) and any(isinstance(o, (ast.In, ast.NotIn)) for o in a.ops):
                                ok = True
                                break
                            if isinstance(a, ast.stmt):
                                break
                        ctx.check(ok, "R09.5", f.short, f"subspace-use:{var}",
                                  message=f"{f.name} uses the group sub-space `{var}` (a dict built from set operations on parameter names, hence hash-ordered) "
                                          f"without sorted(): parameter order, and with it the order of draws from the seeded RNG, depends on PYTHONHASHSEED",
                                  how="sorted(sub_space.items()) / len / membership", where=where(f, x))
    ctx.floor("R09.5", "group_subspace_uses", n_sub, 2)
    ctx.count("R09.5", "set_iterations_seen", n_sets)

    # ------------------------------------------------------------ R09.3 census
    ctx.rule("R09.3", "census: how sampler/pruner code reads history (number-ordered Study/Storage API)")
    census = {}
    for f in p.iter_funcs(scope):
        for n in own_nodes(f.node):
            if isinstance(n, ast.Call) and isinstance(n.func, ast.Attribute):
                nm = n.func.attr
                recv = dotted(n.func.value) or ""
                if nm in ("get_trials", "_get_trials", "get_all_trials") or (nm.startswith("get_") and recv.endswith("_storage")):
                    census[nm] = census.get(nm, 0) + 1
    ctx.note("history_access_census", census)
    enumerators = {k for k in census if k in ("get_trials", "_get_trials", "get_all_trials")}
    ctx.check(bool(enumerators), "R09.3", "optuna/samplers", "history-through-ordered-api", message="no ordered history access found (census broken)",
              how=f"{census}", nontrivial=False)

    # ------------------------------------------------------------ R09.4 copy_study
    ctx.rule("R09.4", "copy_study forwards directions, every system attr, every user attr and all trials")
    f = p.func("optuna.study.study.copy_study")
    cs = [c for c in own_nodes(f.node) if isinstance(c, ast.Call)]
    cr = [c for c in cs if dotted(c.func) == "create_study"]
    ok = bool(cr) and kwarg(cr[0], "directions") is not None and norm(kwarg(cr[0], "directions")) == "from_study.directions"
    ctx.check(ok, "R09.4", f.short, "copies-directions", message="copy_study does not create the target with from_study.directions", how="directions=from_study.directions")
    loops = [n for n in own_nodes(f.node) if isinstance(n, ast.For)]
    sa_ok = any("get_study_system_attrs(from_study._study_id).items()" in norm(lp.iter)
                and any(isinstance(c, ast.Call) and norm(c.func) == "to_study._storage.set_study_system_attr" and [norm(a) for a in c.args][1:] == ["key", "value"]
                        for c in ast.walk(lp)) for lp in loops)
    ua_ok = any(norm(lp.iter) == "from_study.user_attrs.items()" and any(isinstance(c, ast.Call) and norm(c.func) == "to_study.set_user_attr" and [norm(a) for a in c.args] == ["key", "value"]
                                                                          for c in ast.walk(lp)) for lp in loops)
    ctx.check(sa_ok, "R09.4", f.short, "copies-system-attrs", message="copy_study does not forward every study system attr", how="loop over all items")
    ctx.check(ua_ok, "R09.4", f.short, "copies-user-attrs", message="copy_study does not forward every study user attr", how="loop over all items")
    at = [c for c in cs if norm(c.func) == "to_study.add_trials"]
    ok = bool(at) and at[0].args and isinstance(at[0].args[0], ast.Call) and norm(at[0].args[0].func) == "from_study.get_trials" \
        and kwarg(at[0].args[0], "states", 1) is None
    ctx.check(ok, "R09.4", f.short, "copies-all-trials", message="copy_study does not add all trials of the source study", how="to_study.add_trials(from_study.get_trials(..)) without a state filter")
    f = p.func("optuna.study.study.Study.add_trials")
    ok = any(isinstance(lp, ast.For) and norm(lp.iter) == "trials" and any(isinstance(c, ast.Call) and norm(c.func) == "self.add_trial" and [norm(a) for a in c.args] == [norm(lp.target)] for c in ast.walk(lp))
             for lp in own_nodes(f.node))
    ctx.check(ok, "R09.4", f.short, "add_trials-adds-each", message="add_trials does not add every trial", how="for trial in trials: self.add_trial(trial)")
    f = p.func("optuna.study.study.Study.add_trial")
    c2 = [c for c in own_nodes(f.node) if isinstance(c, ast.Call) and norm(c.func) == "self._storage.create_new_trial"]
    ok = bool(c2) and kwarg(c2[0], "template_trial", 1) is not None and norm(kwarg(c2[0], "template_trial", 1)) == "trial"
    ctx.check(ok, "R09.4", f.short, "add_trial-uses-template", message="add_trial does not create the trial from the given template", how="create_new_trial(study_id, template_trial=trial)")
    # a trial the library itself produced is accepted by the copy: what FrozenTrial._validate() (run by add_trial) rejects must not be something
    # the suggest path stores after a mere warning
    revalidates = any(isinstance(c, ast.Call) and isinstance(c.func, ast.Attribute) and c.func.attr == "_validate" for c in own_nodes(f.node))
    vf = p.func("optuna.trial._frozen.FrozenTrial._validate")

    def contains_tests(fn, want_raise):
        out = []
        from sa.expr import resolve as _res, single_defs as _sd
        fdefs = _sd(fn.node)
        for n in own_nodes(fn.node):
            if isinstance(n, ast.If) and any(isinstance(c, ast.Call) and isinstance(c.func, ast.Attribute) and c.func.attr == "_contains" for c in ast.walk(_res(n.test, fdefs))):
                has_raise = any(isinstance(x, ast.Raise) for st in n.body for x in ast.walk(st))
                warns = any(isinstance(x, ast.Call) and (dotted(x.func) or "").endswith("warn") for st in n.body for x in ast.walk(st))
                if (want_raise and has_raise) or (not want_raise and warns and not has_raise):
                    out.append(n)
        return out
    rejecting = contains_tests(vf, True)
    warn_only = []
    for fn in p.iter_funcs(("optuna.trial._trial", "optuna.samplers._grid", "optuna.samplers._partial_fixed")):
        for n in contains_tests(fn, False):
            warn_only.append((fn, n))
    ctx.check(not (revalidates and rejecting and warn_only), "R09.4", p.func("optuna.study.study.copy_study").short, "copy-not-refused-by-revalidation",
              message="copy_study adds every trial through Study.add_trial, which re-validates it with FrozenTrial._validate(): that raises for a parameter value outside "
                      "its distribution, while " + ", ".join(sorted({fn.name for fn, _ in warn_only})) + " store such values after a mere warning (out-of-range "
                      "enqueue_trial / grid values). A finished study the library produced itself then cannot be copied: copy_study raises ValueError and leaves a "
                      "partial destination study",
              how="_validate accepts what the suggest path stores, or the copy does not re-validate stored trials")

    # ------------------------------------------------------------ R09.6 / R09.7 representation details that differ between backends
    ctx.rule("R09.6", "samplers and pruners never select from a trial's intermediate_values by dict position (first/last item, reversed, "
             "popitem, list(...)[k]): the in-memory and journal backends keep report order, the RDB returns the steps sorted")
    POSITIONAL_FUNCS = {"reversed", "iter"}
    n_iv = 0
    for f in p.iter_funcs(("optuna.samplers", "optuna.pruners")):
        pm = parent_map(f.node)
        for x in own_nodes(f.node):
            if not (isinstance(x, ast.Attribute) and x.attr == "intermediate_values" and isinstance(x.ctx, ast.Load)):
                continue
            n_iv += 1
            # climb: .items()/.values()/.keys() views keep the dict's order
            cur = x
            par = pm.get(id(cur))
            if isinstance(par, ast.Attribute) and par.value is cur and par.attr in ("items", "values", "keys"):
                call = pm.get(id(par))
                if isinstance(call, ast.Call) and call.func is par:
                    cur, par = call, pm.get(id(call))
            bad = None
            if isinstance(par, ast.Attribute) and par.value is cur and par.attr == "popitem":
                bad = "popitem()"
            elif isinstance(par, ast.Call) and cur in par.args:
                fn = (dotted(par.func) or "").split(".")[-1]
                if fn in POSITIONAL_FUNCS:
                    outer = pm.get(id(par))
                    # iter(d) only matters when consumed by next(); reversed(d) is order-dependent by itself
                    if fn == "reversed" or (isinstance(outer, ast.Call) and (dotted(outer.func) or "") == "next"):
                        bad = f"{fn}(...)"
                elif fn == "next":
                    bad = "next(...)"
                elif fn in ("list", "tuple"):
                    outer = pm.get(id(par))
                    if isinstance(outer, ast.Subscript) and outer.value is par:
                        bad = f"{fn}(...)[{norm(outer.slice)}]"
            elif isinstance(par, ast.Starred):
                outer = pm.get(id(par))
                gp = pm.get(id(outer)) if outer is not None else None
                if isinstance(gp, ast.Subscript) and gp.value is outer:
                    bad = "[*...][k]"
            ctx.check(bad is None, "R09.6", f.short, f"intermediate-values-by-position:{norm(par)[:40] if par is not None else ''}",
                      message=f"{f.name} picks an entry of intermediate_values by its position in the dict ({bad}): which report that is depends on the storage "
                              f"backend (report order in memory / journal, step order from the RDB), so a seeded run differs between backends",
                      how="max()/min()/sorted()/[step]/len()/iteration into an order-free reduction", where=where(f, x))
    ctx.floor("R09.6", "intermediate_values_reads", n_iv, 16)

    ctx.rule("R09.7", "samplers and pruners do not compare values by object identity (`is`): only the in-memory backend hands the same objects "
             "back, every other backend returns decoded copies (None / True / False / Enum members excepted)")
    n_is = 0
    for f in p.iter_funcs(("optuna.samplers", "optuna.pruners")):
        for x in own_nodes(f.node):
            if isinstance(x, ast.Compare) and any(isinstance(o, (ast.Is, ast.IsNot)) for o in x.ops):
                n_is += 1
                operands = [x.left] + list(x.comparators)

                def singleton(e):
                    if isinstance(e, ast.Constant) and (e.value is None or isinstance(e.value, bool) or e.value is Ellipsis):
                        return True
                    if isinstance(e, ast.Attribute) and e.attr.isupper():
                        return True  # Enum member / module constant
                    if isinstance(e, ast.Name) and (e.id.isupper() or e.id in ("NotImplemented",)):
                        return True
                    return False
                ok = any(singleton(e) for e in operands)
                # identity of infrastructure objects (self, study, sampler) is not a value comparison
                infra = all(isinstance(e, (ast.Name, ast.Attribute)) and (dotted(e) or "").split(".")[-1].lstrip("_") in
                            ("self", "study", "sampler", "pruner", "storage", "rng", "cls") for e in operands)
                ctx.check(ok or infra, "R09.7", f.short, f"identity-comparison:{norm(x)[:40]}",
                          message=f"{f.name} compares `{norm(x)[:60]}` by identity: grid values, parameters and attributes read back from RDB / journal / gRPC storages are "
                                  f"decoded copies, so the answer differs from the in-memory backend (a NaN grid value is never recognised as visited)",
                          how="one operand is None / True / False / an Enum member, or both are infrastructure objects", where=where(f, x))
    ctx.floor("R09.7", "identity_comparisons", n_is, 114)

    _r09_8(ctx, p)
    _r09_9(ctx, p)
    _r09_10(ctx, p)
    _r09_11(ctx, p)


ATTR_SOURCES = ("system_attrs", "user_attrs", "get_study_system_attrs", "get_study_user_attrs", "get_trial_system_attrs", "get_trial_user_attrs")
JSON_UNSTABLE = {"tuple", "list", "set", "frozenset"}


def _from_attrs(e) -> bool:
    return any((isinstance(x, ast.Attribute) and x.attr in ATTR_SOURCES) for x in ast.walk(e))


def _attr_tainted(fnode):
    """Locals bound (directly, by unpacking, or through one more assignment) to something read from a study/trial attribute dict."""
    t = set()
    for _ in range(3):
        for n in own_nodes(fnode):
            if isinstance(n, ast.Assign):
                src = _from_attrs(n.value) or any(isinstance(x, ast.Name) and x.id in t for x in ast.walk(n.value))
                if src:
                    for tg in n.targets:
                        for x in ast.walk(tg):
                            if isinstance(x, ast.Name):
                                t.add(x.id)
    return t


def _unstable_type_tests(f):
    out = []
    t = _attr_tainted(f.node)
    for x in own_nodes(f.node):
        if isinstance(x, ast.Call) and dotted(x.func) == "isinstance" and len(x.args) == 2:
            subj, ty = x.args
            names = {(dotted(e) or "").split(".")[-1] for e in (ty.elts if isinstance(ty, ast.Tuple) else [ty])}
            if not (names & JSON_UNSTABLE) or {"tuple", "list"} <= names:
                continue
            if _from_attrs(subj) or any(isinstance(y, ast.Name) and y.id in t for y in ast.walk(subj)):
                out.append((x, sorted(names & JSON_UNSTABLE)))
        if isinstance(x, ast.Compare) and len(x.comparators) == 1:
            sides = [x.left, x.comparators[0]]
            tcall = next((e for e in sides if isinstance(e, ast.Call) and dotted(e.func) == "type" and e.args), None)
            if tcall is None:
                continue
            subj = tcall.args[0]
            names = {(dotted(e) or "") for e in sides if e is not tcall}
            if names & JSON_UNSTABLE and (_from_attrs(subj) or any(isinstance(y, ast.Name) and y.id in t for y in ast.walk(subj))):
                out.append((x, sorted(names & JSON_UNSTABLE)))
    return out


def _r09_8(ctx, p):
    ctx.rule("R09.8", "no decision on the concrete container type of a value read back from study/trial attributes: the in-memory backend returns the object "
             "that was stored (a tuple stays a tuple), every JSON-based backend returns a list (zero-count, with fixture)")
    n = 0
    for f in p.iter_funcs(("optuna.samplers", "optuna.pruners", "optuna.study", "optuna.search_space", "optuna.terminator")):
        for x, names in _unstable_type_tests(f):
            n += 1
            ctx.fail("R09.8", f.short, f"container-type-of-stored-attr:{norm(x)[:50]}",
                     f"{f.name} tests `{norm(x)[:70]}` on a value read from study/trial attributes: a tuple written by the sampler is a tuple only on the in-memory "
                     f"backend and a list after the JSON round trip of RDB / journal / gRPC, so the branch - here typically \"is there a usable cache entry\" - is taken "
                     f"differently per backend and the seeded random stream drifts apart", where=where(f, x))
    if n == 0:
        ctx.ok("R09.8", "optuna/samplers", "no-container-type-test-on-stored-attrs", how="0 isinstance/type tests for tuple|list|set on values derived from attribute dicts")
    from sa.loader import Program as _P
    fx = _P.from_sources({"fx.s": "class S:\n    def f(self, study):\n        attrs = study._storage.get_study_system_attrs(study._study_id)\n        e = attrs.get('k')\n"
                                  "        if not isinstance(e, tuple):\n            e = (-1, [])\n        g, n = e\n        return g\n"})
    ctx.require(len(_unstable_type_tests(next(iter(fx.iter_funcs(("fx",)))))) == 1, "R09.8: positive fixture not flagged (rule is blind)")


def _r09_9(ctx, p):
    ctx.rule("R09.9", "what a sampler stores from a user callable is a snapshot: the result of constraints_func (a list the callable may reuse) is copied into an "
             "immutable tuple before it is handed to set_trial_system_attr - the in-memory backend keeps the very object it is given, the others serialise at once")
    f = p.func("optuna.samplers._base._process_constraints_after_trial")
    defs_all = {}
    for n in own_nodes(f.node):
        if isinstance(n, ast.Assign):
            for tg in n.targets:
                if isinstance(tg, ast.Name):
                    defs_all.setdefault(tg.id, []).append(n.value)
    user_results = {k for k, vs in defs_all.items() if any(isinstance(v, ast.Call) and (dotted(v.func) or "").split(".")[-1].endswith("_func") for v in vs)}
    ctx.require(user_results, "R09.9: the call of constraints_func vanished from _process_constraints_after_trial")
    sets = [c for c in own_nodes(f.node) if isinstance(c, ast.Call) and isinstance(c.func, ast.Attribute) and c.func.attr == "set_trial_system_attr"]
    ctx.require(sets, "R09.9: _process_constraints_after_trial no longer stores the constraints")
    n = 0
    for c in sets:
        val = c.args[2] if len(c.args) > 2 else next((k.value for k in c.keywords if k.arg == "value"), None)
        ctx.require(val is not None, "R09.9: value argument of set_trial_system_attr not found")
        srcs = defs_all.get(val.id, []) if isinstance(val, ast.Name) else [val]
        for v in srcs:
            n += 1
            fresh = (isinstance(v, ast.Constant) or (isinstance(v, ast.Call) and dotted(v.func) in ("tuple",))
                     or isinstance(v, (ast.Tuple,)))
            ctx.check(fresh, "R09.9", f.short, f"constraints-stored-as-snapshot:{norm(v)[:30]}",
                      message=f"_process_constraints_after_trial stores `{norm(v)[:50]}` as the trial's constraints: when that is the object constraints_func returned "
                              f"(a list the callable reuses), every finished trial of an in-memory study aliases one list and all samplers read the latest trial's "
                              f"constraints for the whole history - RDB / journal / gRPC serialise at once and keep the right values",
                      how="every value that reaches set_trial_system_attr is None or tuple(<result>)", where=where(f, v))
    ctx.floor("R09.9", "stored_constraint_values", n, 2)


def _r09_10(ctx, p):
    ctx.rule("R09.10", "every backend hands a trial's params / distributions back in the order they were suggested (dict insertion order in memory and journal, "
             "param_id order from the RDB): samplers that rebuild state by walking trial.params (BruteForceSampler's tree) depend on it - so the gRPC "
             "decoder must not take that order from an unordered protobuf map")
    from sa import proto as protomod
    pr = protomod.load(p.repo)
    f = p.func("optuna.storages._grpc.servicer._from_proto_trial")
    ctx.require(f is not None, "R09.10: _from_proto_trial vanished")
    msg = pr.messages.get("Trial")
    ctx.require(msg is not None, "R09.10: message Trial vanished from api.proto")
    prm = f.params()[0]
    ctor = [c for c in own_nodes(f.node) if isinstance(c, ast.Call) and dotted(c.func) == "FrozenTrial"]
    ctx.require(len(ctor) == 1, "R09.10: _from_proto_trial must construct one FrozenTrial")
    n = 0
    for kw in ("params", "distributions"):
        v = next((k.value for k in ctor[0].keywords if k.arg == kw), None)
        ctx.require(v is not None, f"R09.10: FrozenTrial(..., {kw}=...) not found in _from_proto_trial")
        # the dict is a comprehension, or a local filled by a loop: find what is iterated
        iters = []
        if isinstance(v, (ast.DictComp,)):
            iters = [g.iter for g in v.generators]
        elif isinstance(v, ast.Name):
            for st in own_nodes(f.node):
                if isinstance(st, ast.Assign) and any(isinstance(t, ast.Name) and t.id == v.id for t in st.targets) and isinstance(st.value, ast.DictComp):
                    iters += [g.iter for g in st.value.generators]
                if isinstance(st, ast.For) and any(isinstance(t, ast.Subscript) and isinstance(t.value, ast.Name) and t.value.id == v.id
                                                   for b in ast.walk(st) if isinstance(b, ast.Assign) for t in b.targets):
                    iters.append(st.iter)
        ctx.require(iters, f"R09.10: how `{kw}` is built in _from_proto_trial was not recognised")
        for it in iters:
            flds = [x.attr for x in ast.walk(it) if isinstance(x, ast.Attribute) and isinstance(x.value, ast.Name) and x.value.id == prm and x.attr in msg]
            for fld in flds:
                n += 1
                ctx.check(msg[fld]["kind"] != "map", "R09.10", f.short, f"suggestion-order-preserved:{kw}",
                          message=f"_from_proto_trial builds `{kw}` by iterating `{prm}.{fld}`, declared `{msg[fld]['type']} {fld}` in api.proto: protobuf maps iterate in "
                                  f"hash order, so a trial read through GrpcStorageProxy has its parameters in a different order than on every other backend. "
                                  f"BruteForceSampler walks trial.params to rebuild its tree and raises `ValueError: param_name mismatch` on the second trial of any "
                                  f"objective with two or more parameters; order-dependent samplers draw a different sequence",
                          how="iteration over an ordered (repeated) field, or an explicit order carried in the message", where=where(f, it))
    ctx.floor("R09.10", "decoded_ordered_dicts", n, 2)


def _r09_11(ctx, p):
    ctx.rule("R09.11", "equal objective values: the scan-based best trial (journal, and gRPC in front of it) is the FIRST extremal trial in number order for both "
             "directions - max()/min() over the number-ordered list - as the in-memory cache (strict comparison keeps the earlier trial) gives; a sort-and-index "
             "selection returns the last of equal values for one direction and samplers that start from study.best_trial then differ between backends")
    f = p.func("optuna.storages._base.BaseStorage.get_best_trial")
    rets = [n.value for n in own_nodes(f.node) if isinstance(n, ast.Return) and n.value is not None]
    ctx.require(rets, "R09.11: BaseStorage.get_best_trial returns nothing")
    picks = []
    for n in own_nodes(f.node):
        if isinstance(n, ast.Call) and dotted(n.func) in ("max", "min", "sorted", "np.argmax", "np.argmin", "np.argsort") and n.args:
            picks.append(n)
        if isinstance(n, ast.Call) and isinstance(n.func, ast.Attribute) and n.func.attr == "sort":
            picks.append(n)
    kinds = sorted({(dotted(c.func) or c.func.attr) for c in picks})
    ok = kinds == ["max", "min"] and all(isinstance(c.args[0], ast.Name) for c in picks)
    ctx.check(ok, "R09.11", f.short, "first-extremal-trial-in-number-order",
              message=f"BaseStorage.get_best_trial selects with {kinds}: only max()/min() over the number-ordered trial list return the first of several equally good trials "
                      f"for both directions (sorted(...)[-1] returns the last one for MAXIMIZE) - with duplicate best values the journal backend and the in-memory backend "
                      f"then name different best trials, and everything seeded from study.best_trial diverges",
                      how="max(all_trials, key=value) / min(all_trials, key=value)")

