"""C10 - suggest protocol: stable, fixed wins, stored = returned, relative values contained."""
from __future__ import annotations

import ast

from rules._suggest import suggest_chain
from sa.cfg import CFG
from sa.expr import cmp_atom, edges_where, resolve, single_defs
from sa.loader import Program, dotted, norm, own_nodes
from sa.util import call_sites, kwarg, parent_map, self_attr, where, ancestors

PROPERTY = "C10"
TRIAL = "optuna.trial._trial.Trial"
TRANSFORM = "optuna._transform"
DISTS = ("FloatDistribution", "IntDistribution", "CategoricalDistribution")
NORMAL = lambda a, k, b: k not in ("e", "reraise", "match", "nomatch")  # noqa: E731


def isinstance_classes(e: ast.AST):
    if isinstance(e, ast.Call) and dotted(e.func) == "isinstance" and len(e.args) == 2:
        c = e.args[1]
        elts = c.elts if isinstance(c, ast.Tuple) else [c]
        return [(dotted(x) or "").split(".")[-1] for x in elts]
    return None


def dispatch_coverage(ctx, rule, f, need=DISTS):
    """Every isinstance if/elif chain over distribution classes covers Float/Int/Categorical and
    ends in a raising/asserting default."""
    pm = parent_map(f.node)
    n = 0
    for node in own_nodes(f.node):
        if not isinstance(node, ast.If) or isinstance_classes(node.test) is None:
            continue
        par = pm.get(id(node))
        if isinstance(par, ast.If) and par.orelse == [node]:
            continue  # not the head of the chain
        covered = []
        cur = node
        default = None
        while True:
            cls = isinstance_classes(cur.test)
            if cls is None:
                break
            covered += cls
            if len(cur.orelse) == 1 and isinstance(cur.orelse[0], ast.If):
                cur = cur.orelse[0]
                continue
            default = cur.orelse
            break
        if not any(c in DISTS for c in covered):
            continue
        n += 1
        missing = [c for c in need if c not in covered]
        if not default:
            # fall-through default: the statements after the chain
            blk = None
            for fld in ("body", "orelse"):
                b = getattr(par, fld, None)
                if isinstance(b, list) and node in b:
                    blk = b[b.index(node) + 1:]
            default = blk or []
        raising = any(isinstance(s, ast.Raise) or (isinstance(s, ast.Assert) and isinstance(s.test, ast.Constant) and not s.test.value) for s in default)
        ctx.check(not missing and raising, rule, f.short, f"dispatch:{'+'.join(covered)}",
                  message=f"{f.name}: isinstance dispatch covers {covered}; missing {missing}; default {'raises' if raising else 'does not raise'}",
                  how="covers Float/Int/Categorical and ends in raise/assert False", where=where(f, node))
    return n


def run(ctx):
    p: Program = ctx.program
    ctx.explanation = (
        "The suggest protocol of Trial._suggest decided structurally: a parameter already "
        "suggested in the trial is reused before any sampling branch; fixed -> single -> relative "
        "-> independent priority; the one local that is returned is also what is converted with "
        "to_internal_repr and stored, and what is mirrored into the trial-local cache, with the "
        "store dominating cache update and return; suggest_int wraps in int(); the suggest_* "
        "front-ends build the distribution from their arguments unchanged; a relative value is "
        "used only if the distribution contains it; in the search-space transform math.log and "
        "math.exp are applied under the same predicate and every non-single numeric branch of the "
        "untransform reachable with transform_log=True is bounded by clip/min(nextafter); all "
        "isinstance dispatches over distribution classes are exhaustive with a raising default. "
        "Does NOT decide that each sampler's independent sample lies in [low, high] and on the "
        "step grid - a numerical fact about rounding in TPE/GP/QMC code.")
    ctx.assume("distribution.to_internal_repr validates the value (raises for NaN / non-members) as documented")

    ctx.rule("R10.1", "stability and priority of the suggest chain (reuse -> fixed -> single -> relative -> independent)")
    suggest_chain(ctx, "R10.1")
    from rules._suggest import fixed_iff_rule
    fixed_iff_rule(ctx, "R10.1")

    # ------------------------------------------------------------ R10.3
    ctx.rule("R10.3", "stored = returned = cached: one local flows to set_trial_param (via to_internal_repr), the cache and the return; store dominates both")
    tcls = p.cls(TRIAL)
    f = tcls.methods["_suggest"]
    g = CFG(f.node, name=f.qualname)
    defs = single_defs(f.node)
    rets = [n for n in g.stmt_nodes() if n.kind == "stmt" and isinstance(n.ast, ast.Return)]
    ctx.require(rets, "R10.3: _suggest has no return")
    prm = f.params()
    ctx.require(len(prm) >= 3, "R10.3: _suggest(self, name, distribution) signature changed")
    pname, dname = prm[1], prm[2]
    # the reuse test splits the function into the "already suggested" side and the "new value" side
    reuse_tests = [t for t in g.stmt_nodes() if t.kind == "test" and isinstance(t.expr, ast.Compare) and isinstance(t.expr.ops[0], (ast.In, ast.NotIn))
                   and norm(t.expr.left) == pname and norm(t.expr.comparators[0]).endswith(".distributions")]
    ctx.require(reuse_tests, "R10.3: reuse test vanished")
    t = reuse_tests[0]
    neg = isinstance(t.expr.ops[0], ast.NotIn)
    new_edge = [m for k, m in t.succ if k == ("t" if neg else "f")]
    reuse_edge = [m for k, m in t.succ if k == ("f" if neg else "t")]
    new_side, reuse_side = g.reachable(new_edge), g.reachable(reuse_edge)
    new_rets = [r for r in rets if r in new_side]
    ctx.require(new_rets, "R10.3: no return on the new-value side")
    rv = {norm(r.ast.value) for r in new_rets}
    ctx.check(len(rv) == 1 and all(isinstance(r.ast.value, ast.Name) for r in new_rets), "R10.3", f.short, "single-returned-local",
              message=f"_suggest returns {sorted(rv)} for a newly chosen value", how="one local returned on all new-value paths")
    var = next(iter(rv))
    stores = [(n, c) for n in g.stmt_nodes() for c in n.calls() if isinstance(c.func, ast.Attribute) and c.func.attr == "set_trial_param"]
    ctx.require(len(stores) == 1, "R10.3: expected exactly one set_trial_param call in _suggest")
    sn, sc = stores[0]
    args = [norm(resolve(a, defs)) for a in sc.args]
    want = ["self._trial_id", pname, f"{dname}.to_internal_repr({var})", dname]
    ctx.check(args == want, "R10.3", f.short, "stored-is-returned-value",
              message=f"set_trial_param is called with {args}; the stored value is not to_internal_repr of the returned local `{var}`",
              how=f"set_trial_param(self._trial_id, {pname}, {dname}.to_internal_repr({var}), {dname})", where=where(f, sc))
    ctx.check(norm(resolve(sc.func.value, defs)) == "self.storage", "R10.3", f.short, "stored-in-trial-storage",
              message="value stored in a different storage object", how="self.storage")
    cache_p = [n for n in g.stmt_nodes() if n.kind == "stmt" and isinstance(n.ast, ast.Assign) and norm(n.ast.targets[0]) == f"self._cached_frozen_trial.params[{pname}]"]
    cache_d = [n for n in g.stmt_nodes() if n.kind == "stmt" and isinstance(n.ast, ast.Assign) and norm(n.ast.targets[0]) == f"self._cached_frozen_trial.distributions[{pname}]"]
    ctx.check(bool(cache_p) and all(norm(n.ast.value) == var for n in cache_p), "R10.3", f.short, "cached-is-returned-value",
              message="the trial-local cache is not updated with the returned value", how=f"params[{pname}] = {var}")
    ctx.check(bool(cache_d) and all(norm(n.ast.value) == dname for n in cache_d), "R10.3", f.short, "cached-distribution", message="cache distribution not updated", how=f"distributions[{pname}] = {dname}")
    ctx.check(all(g.dominated_by(n, [sn]) for n in cache_p + cache_d), "R10.3", f.short, "store-before-cache",
              message="the cache is updated before (or without) the value being stored: a failed store leaves a value the study never saw",
              how="set_trial_param dominates the cache updates")
    # on the sampling (non-reuse) side the return is dominated by the store
    r = g.reachable(new_edge, avoid_nodes=[sn], edge_ok=NORMAL)
    ctx.check(g.exit not in r, "R10.3", f.short, "store-before-return",
              message="_suggest can return a newly chosen value to the objective without having stored it", how="on the not-yet-suggested edge every path to return passes set_trial_param",
              witness=g.witness([g.exit], guards=[sn], src=new_edge[0], edge_ok=NORMAL) if g.exit in r else None)
    # the returned local is not re-assigned after the store
    after = g.reachable([sn])
    re_as = [n for n in after if n is not sn and n.kind == "stmt" and isinstance(n.ast, (ast.Assign, ast.AugAssign))
             and any(isinstance(x, ast.Name) and x.id == var for tg in (n.ast.targets if isinstance(n.ast, ast.Assign) else [n.ast.target]) for x in [tg])]
    ctx.check(not re_as, "R10.3", f.short, "no-reassignment-after-store", message=f"`{var}` is re-assigned after being stored", how="no assignment reachable from the store")
    # reuse side: every return hands back the value already stored for the name - either directly
    # (`return trial.params[name]`) or through a local whose reuse-side assignments are that expression
    def _stored(e):
        return isinstance(e, ast.Subscript) and norm(e.slice) == pname and norm(e.value).endswith(".params")
    ok = True
    n_reuse_rets = 0
    for rn in rets:
        if rn not in reuse_side:
            continue
        n_reuse_rets += 1
        v = rn.ast.value
        if v is not None and _stored(v) and rn not in new_side:
            continue
        if isinstance(v, ast.Name):
            ra = [n for n in reuse_side - new_side if n.kind == "stmt" and isinstance(n.ast, ast.Assign) and norm(n.ast.targets[0]) == v.id]
            if ra and all(_stored(n.ast.value) for n in ra):
                continue
        ok = False
    ctx.check(ok and n_reuse_rets > 0, "R10.3", f.short, "reuse-returns-stored-value",
              message=f"on the reuse branch the value is not taken from <trial>.params[{pname}]", how=f"return / assign <trial>.params[{pname}]")
    # front-ends
    fe = {"suggest_float": ("FloatDistribution", {"0": "low", "1": "high", "log": "log", "step": "step"}),
          "suggest_int": ("IntDistribution", {"low": "low", "high": "high", "log": "log", "step": "step"}),
          "suggest_categorical": ("CategoricalDistribution", {"choices": "choices"})}
    for mname, (dcls, argmap) in fe.items():
        mf = tcls.methods.get(mname)
        ctx.require(mf is not None, f"R10.3: Trial.{mname} vanished")
        ctor = [c for c in own_nodes(mf.node) if isinstance(c, ast.Call) and dotted(c.func) == dcls]
        ctx.require(len(ctor) == 1, f"R10.3: {mname} must construct exactly one {dcls}")
        ok = True
        for k, v in argmap.items():
            a = ctor[0].args[int(k)] if k.isdigit() and int(k) < len(ctor[0].args) else kwarg(ctor[0], k)
            ok = ok and a is not None and norm(a) == v
        ctx.check(ok, "R10.3", mf.short, "distribution-from-arguments",
                  message=f"{mname} builds `{norm(ctor[0])}`: the declared domain is not the caller's arguments", how="arguments passed unchanged")
        sug = [c for c in own_nodes(mf.node) if isinstance(c, ast.Call) and self_attr(c.func) == "_suggest"]
        ctx.check(len(sug) == 1 and norm(sug[0].args[0]) == "name", "R10.3", mf.short, "calls-_suggest", message=f"{mname} does not call self._suggest(name, ..) once", how="single call")
        mrets = [n for n in own_nodes(mf.node) if isinstance(n, ast.Return) and n.value is not None]
        mdefs = single_defs(mf.node)
        for r_ in mrets:
            v = resolve(r_.value, mdefs)
            if mname == "suggest_int":
                ok = isinstance(v, ast.Call) and dotted(v.func) == "int" and isinstance(v.args[0], ast.Call) and self_attr(v.args[0].func) == "_suggest"
                ctx.check(ok, "R10.3", mf.short, "int-wrapped", message=f"suggest_int returns `{norm(v)}` (not int(...))", how="int(self._suggest(..))")
            else:
                ok = isinstance(v, ast.Call) and self_attr(v.func) == "_suggest"
                ctx.check(ok, "R10.3", mf.short, "returns-suggested", message=f"{mname} returns `{norm(v)}`", how="the value of self._suggest")

    # ------------------------------------------------------------ R10.4
    ctx.rule("R10.4", "a relative value is admitted only if the distribution contains it; raises if the name is outside the relative search space")
    f = tcls.methods["_is_relative_param"]
    g = CFG(f.node, name=f.qualname)
    defs = single_defs(f.node)
    for n in g.stmt_nodes():
        if n.kind == "stmt" and isinstance(n.ast, ast.Return):
            v = n.ast.value
            if isinstance(v, ast.Constant):
                ctx.check(v.value is False, "R10.4", f.short, "constant-return-False", message="_is_relative_param returns a constant True", how="only False constants")
                if v.value is False:
                    def atom(e):
                        a = cmp_atom(e)
                        if a and a[0] == "name" and a[2] == "self.relative_params":
                            return True if a[1] is ast.In else (False if a[1] is ast.NotIn else None)
                        return None
                    acc = [(t, k, m) for t in g.stmt_nodes() if t.kind == "test" for k, m in t.succ if edges_where(t.expr, atom).get(k) is False]
                    ctx.check(bool(acc) and g.dominated_by(n, [], acc), "R10.4", f.short, "False-only-when-not-relative", message="returns False for a parameter that has a relative value", how="dominated by `name not in self.relative_params`")
            else:
                rv_ = norm(resolve(v, defs))
                ok = rv_ == "distribution._contains(distribution.to_internal_repr(self.relative_params[name]))"
                ctx.check(ok, "R10.4", f.short, "admitted-iff-contained",
                          message=f"_is_relative_param returns `{rv_}`: a relative value outside the declared domain would be handed to the objective",
                          how="distribution._contains(distribution.to_internal_repr(self.relative_params[name]))", where=where(f, n.ast))
    rz = [n for n in g.stmt_nodes() if n.kind == "stmt" and isinstance(n.ast, ast.Raise) and "ValueError" in norm(n.ast)]

    def atom_rs(e):
        a = cmp_atom(e)
        if a and a[0] == "name" and a[2] == "self.relative_search_space":
            return True if a[1] is ast.In else (False if a[1] is ast.NotIn else None)
        return None
    acc = [(t, k, m) for t in g.stmt_nodes() if t.kind == "test" for k, m in t.succ if edges_where(t.expr, atom_rs).get(k) is False]
    ctx.check(bool(rz) and bool(acc) and all(g.dominated_by(r_, [], acc) for r_ in rz), "R10.4", f.short, "raises-outside-relative-space",
              message="no ValueError when the sampler returned a value for a name outside its relative search space", how="raise under `name not in self.relative_search_space`")
    compat = [c for c in own_nodes(f.node) if isinstance(c, ast.Call) and (dotted(c.func) or "").endswith("check_distribution_compatibility")]
    ctx.check(bool(compat), "R10.4", f.short, "compatibility-checked", message="relative distribution compatibility is not checked", how="check_distribution_compatibility call")

    # ------------------------------------------------------------ R10.5 transform
    ctx.rule("R10.5", "transform: log/exp applied under the same predicate per class; untransform bounded by clip/min(nextafter) on every "
             "non-single branch reachable with transform_log=True; exhaustive isinstance dispatch")
    tf = p.func(TRANSFORM + "._transform_numerical_param")
    uf = p.func(TRANSFORM + "._untransform_numerical_param")

    def conditions(func, callee):
        """class -> set of path-condition atoms under which callee is applied."""
        pm = parent_map(func.node)
        out = {}
        for c in own_nodes(func.node):
            if isinstance(c, ast.Call) and dotted(c.func) == callee:
                atoms = set()
                cls_ = None
                child = c
                for a in ancestors(c, pm):
                    if isinstance(a, ast.IfExp):
                        pos = child is a.body or any(x is child for x in ast.walk(a.body))
                        atoms.add(("" if pos else "not ") + norm(a.test))
                    if isinstance(a, ast.If):
                        in_body = any(any(x is c for x in ast.walk(s)) for s in a.body)
                        ic = isinstance_classes(a.test)
                        if ic is not None:
                            if in_body:
                                cls_ = "+".join(ic)
                        else:
                            atoms.add(("" if in_body else "not ") + norm(a.test))
                    child = a
                out.setdefault(cls_, set()).add(frozenset(atoms))
        return out
    lg = conditions(tf, "math.log")
    ex = conditions(uf, "math.exp")
    ctx.require(lg and ex, "R10.5: math.log / math.exp sites vanished")
    for cls_ in sorted(set(lg) | set(ex), key=str):
        ctx.check(lg.get(cls_) == ex.get(cls_), "R10.5", uf.short, f"log-exp-same-predicate:{cls_}",
                  message=f"{cls_}: math.log is applied under {sorted(map(sorted, lg.get(cls_, [])))} but math.exp under {sorted(map(sorted, ex.get(cls_, [])))}",
                  how="identical path conditions (d.log, transform_log)")
    # bounded untransform with transform_log=True
    g = CFG(uf.node, name=uf.qualname)

    def bounded_expr(e):
        """Is the value of e bounded by d.low/d.high?"""
        if isinstance(e, ast.IfExp):
            if norm(e.test) == "transform_log":
                return bounded_expr(e.body)
            return bounded_expr(e.body) and bounded_expr(e.orelse)
        if isinstance(e, ast.Call):
            d = dotted(e.func) or ""
            if d in ("float", "int") and e.args:
                return bounded_expr(e.args[0])
            if d.endswith("clip") and len(e.args) == 3 and norm(e.args[1]) == "d.low" and norm(e.args[2]) == "d.high":
                return True
            if d == "min" and len(e.args) == 2:
                other = [a for a in e.args if "nextafter(d.high" in norm(a) or norm(a) == "d.high"]
                return bool(other)
        return False
    # must-analysis: state = (bounded, single): `param` currently bounded / inside a d.single() branch
    state = {g.entry: (False, False)}
    work = [g.entry]
    while work:
        n = work.pop()
        b, sg = state[n]
        if n.kind == "stmt" and isinstance(n.ast, ast.Assign) and norm(n.ast.targets[0]) == "param":
            b = bounded_expr(n.ast.value) or sg  # a single-point domain: the value is the point
        for k, m in n.succ:
            if n.kind == "test" and norm(n.expr) == "transform_log" and k == "f":
                continue
            if n.kind == "test" and norm(n.expr) == "not transform_log" and k == "t":
                continue
            nb, ns = b, sg
            if n.kind == "test" and norm(n.expr) == "d.single()" and k == "t":
                nb, ns = True, True
            if m not in state:
                state[m] = (nb, ns)
                work.append(m)
            else:
                ob, os_ = state[m]
                jb, js = ob and nb, os_ and ns
                if (jb, js) != (ob, os_):
                    state[m] = (jb, js)
                    work.append(m)
    bad = [n for n in g.stmt_nodes() if n.kind == "stmt" and isinstance(n.ast, ast.Return) and n in state and not state[n][0]]
    ctx.check(not bad, "R10.5", uf.short, "untransform-bounded",
              message="_untransform_numerical_param can return (with transform_log=True, non-single domain) a value that was not clipped to "
                      "[d.low, d.high] / capped below nextafter(d.high): samplers working in the transformed box could return out-of-domain values",
              how="must-dataflow: `param` is clip/min-bounded at every return reachable with transform_log=True")
    # ------------------------------------------------------------ R10.6 transform built from the current distribution
    ctx.rule("R10.6", "samplers: every search-space transform used for bounds/untransform is constructed in the current call from the "
             "distribution(s) passed to that call (no memoisation across trials keyed by parameter name)")
    n_recv = 0
    for sf in p.iter_funcs(("optuna.samplers",)):
        recv = set()
        for x in own_nodes(sf.node):
            if isinstance(x, ast.Attribute) and x.attr in ("untransform", "bounds", "transform") and isinstance(x.value, ast.Name) and isinstance(x.ctx, ast.Load):
                recv.add(x.value.id)
        for name in sorted(recv):
            assigns = [n for n in own_nodes(sf.node) if isinstance(n, (ast.Assign, ast.AnnAssign))
                       and any(isinstance(t, ast.Name) and t.id == name for t in (n.targets if isinstance(n, ast.Assign) else [n.target]))]
            if not assigns:
                if name in sf.params():
                    # a parameter: every caller in the samplers package passes a locally constructed transform (or its own parameter)
                    for cf, c in call_sites(p, sf.name, ("optuna.samplers",)):
                        idx = sf.params().index(name) - (1 if sf.cls is not None else 0)
                        a = kwarg(c, name, idx)
                        if a is None:
                            continue
                        okp = isinstance(a, ast.Name) and (a.id in cf.params() or any(
                            isinstance(n, ast.Assign) and any(isinstance(t, ast.Name) and t.id == a.id for t in n.targets)
                            and isinstance(n.value, ast.Call) and (dotted(n.value.func) or "").endswith("_SearchSpaceTransform") for n in own_nodes(cf.node)))
                        ctx.check(okp, "R10.6", cf.short, f"transform-arg:{sf.name}", message=f"{cf.name} passes `{norm(a)}` as the transform of {sf.name}",
                                  how="argument is a transform constructed in the caller", nontrivial=False)
                continue
            # only names that really hold transforms
            if not any(isinstance(n.value, ast.Call) and (dotted(n.value.func) or "").endswith("_SearchSpaceTransform") for n in assigns if n.value is not None) \
                    and not any("ransform" in norm(n.value) for n in assigns if n.value is not None):
                continue
            n_recv += 1
            bad = [n for n in assigns if not (n.value is not None and isinstance(n.value, ast.Call) and (dotted(n.value.func) or "").endswith("_SearchSpaceTransform"))]
            ctx.check(not bad, "R10.6", sf.short, f"transform-constructed-here:{name}",
                      message=f"{sf.name} takes the search-space transform `{name}` from `{norm(bad[0].value)[:60] if bad else ''}` instead of constructing it from the "
                              f"distribution passed to this call: a value sampled for a different range/step/log setting of the same name is returned (outside the declared domain)",
                      how="all definitions are _SearchSpaceTransform(<current search space>)", where=where(sf, bad[0]) if bad else None)
            for n in assigns:
                if n not in bad and n.value.args:
                    a0 = n.value.args[0]
                    names = {y.id for y in ast.walk(a0) if isinstance(y, ast.Name)}
                    localdefs = single_defs(sf.node)
                    deep = set(names)
                    for nm in list(names):
                        if nm in localdefs:
                            deep |= {y.id for y in ast.walk(localdefs[nm]) if isinstance(y, ast.Name)}
                    okd = bool(deep & set(sf.params()))
                    ctx.check(okd, "R10.6", sf.short, f"transform-from-call-arguments:{name}",
                              message=f"{sf.name} builds its transform from `{norm(a0)[:60]}`, which does not derive from this call's arguments",
                              how="constructor argument derives from the function's parameters", nontrivial=False)
    ctx.floor("R10.6", "transform_receivers", n_recv, 3)

    # transform_log=False only where nothing is untransformed
    nf = 0
    for cf, c in call_sites(p, "_SearchSpaceTransform", ("optuna",)):
        tl = kwarg(c, "transform_log", 1)
        if tl is not None and not (isinstance(tl, ast.Constant) and tl.value is True):
            nf += 1
            uses_un = any(isinstance(x, ast.Call) and isinstance(x.func, ast.Attribute) and x.func.attr == "untransform" for mfn in p.iter_funcs((cf.module.name,)) for x in own_nodes(mfn.node))
            ctx.check(not uses_un and cf.module.name.startswith("optuna.importance"), "R10.5", cf.short, "transform_log=False-never-untransforms",
                      message=f"{cf.name} builds a transform with transform_log={norm(tl)} in a module that also untransforms", how="only optuna.importance, which never untransforms")
    ctx.count("R10.5", "transform_log_false_sites", nf)
    nd = 0
    for q in (TRANSFORM + "._transform_numerical_param", TRANSFORM + "._untransform_numerical_param", TRANSFORM + "._get_search_space_bounds",
              "optuna.samplers._brute_force._enumerate_candidates", "optuna.distributions._get_single_value"):
        if not p.has_func(q):
            continue
        nd += dispatch_coverage(ctx, "R10.5", p.func(q), DISTS)
    ctx.floor("R10.5", "dispatch_chains", nd, 4)

    # ------------------------------------------------------------ R10.7 rounding onto the step grid
    ctx.rule("R10.7", "wherever a sampler or the search-space transform rounds a number onto a step grid, the grid is anchored at the lower bound: "
             "low + round((x - low) / step) * step - rounding to multiples of step leaves values off the grid whenever low is not a multiple of step")
    n_round = 0
    ROUNDERS = {"round", "np.round", "numpy.round", "np.rint", "np.floor", "np.ceil", "math.floor", "math.ceil", "np.around"}
    for f in p.iter_funcs(("optuna.samplers", "optuna._transform", "optuna._gp", "optuna.trial")):
        pm = parent_map(f.node)
        for x in own_nodes(f.node):
            if not (isinstance(x, ast.BinOp) and isinstance(x.op, ast.Mult)):
                continue
            for rnd, stp in ((x.left, x.right), (x.right, x.left)):
                if not (isinstance(stp, ast.Attribute) and stp.attr == "step"):
                    continue
                if not (isinstance(rnd, ast.Call) and (dotted(rnd.func) or "") in ROUNDERS and rnd.args):
                    continue
                q = rnd.args[0]
                if not (isinstance(q, ast.BinOp) and isinstance(q.op, ast.Div) and norm(q.right) == norm(stp)):
                    continue
                n_round += 1
                owner = norm(stp.value)
                low = owner + ".low"
                shifted = isinstance(q.left, ast.BinOp) and isinstance(q.left.op, ast.Sub) and norm(q.left.right) == low
                par = pm.get(id(x))
                added = isinstance(par, ast.BinOp) and isinstance(par.op, ast.Add) and low in (norm(par.left), norm(par.right))
                ctx.check(shifted and added, "R10.7", f.short, f"grid-anchored-at-low:{owner}",
                          message=f"{f.name} rounds with `{norm(par if added else x)[:80]}`: the result is a multiple of {owner}.step, not a point of the grid "
                                  f"{low} + k*step - suggest_int('a', 3, 21, step=6) can return 12, which the distribution does not contain",
                          how=f"{low} + round((x - {low}) / {owner}.step) * {owner}.step", where=where(f, x))
    ctx.floor("R10.7", "step_rounding_sites", n_round, 4)

    # ------------------------------------------------------------ R10.8 TPE samples are clipped into the domain
    ctx.rule("R10.8", "TPE: what _MixtureOfProductDistribution.sample hands back for a numerical parameter is np.clip(<truncated-normal sample>, d.low, d.high): "
             "the inverse CDF in _truncnorm bisects within +-100 sigma only, so with kernel centres far outside the (new) domain the raw sample is mu -+ 100 sigma")
    sf = p.func("optuna.samplers._tpe.probability_distributions._MixtureOfProductDistribution.sample")
    sdefs = {}
    for n in own_nodes(sf.node):
        if isinstance(n, ast.Assign) and len(n.targets) == 1 and isinstance(n.targets[0], ast.Name):
            sdefs.setdefault(n.targets[0].id, []).append(n.value)

    def from_rvs(e, depth=0):
        for x in ast.walk(e):
            if isinstance(x, ast.Call) and (dotted(x.func) or "").endswith("_truncnorm.rvs"):
                return True
            if depth < 3 and isinstance(x, ast.Name) and any(from_rvs(v, depth + 1) for v in sdefs.get(x.id, [])):
                return True
        return False
    n_num = 0
    for n in own_nodes(sf.node):
        if isinstance(n, ast.Assign) and any(isinstance(t, ast.Subscript) and norm(t.value) == "ret" for t in n.targets) and from_rvs(n.value):
            n_num += 1
            v = n.value
            ok = isinstance(v, ast.Call) and dotted(v.func) in ("np.clip", "numpy.clip") and len(v.args) >= 3 \
                and norm(v.args[1]).endswith(".low") and norm(v.args[2]).endswith(".high") and norm(v.args[1])[:-4] == norm(v.args[2])[:-5]
            ctx.check(ok, "R10.8", sf.short, f"truncnorm-sample-clipped:{norm(n.targets[0])}",
                      message=f"sample() stores `{norm(v)[:70]}` for a numerical parameter without clipping it into [d.low, d.high]: when past values of the parameter "
                              f"lie more than 100 sigma from the current domain (the same name suggested earlier with a far-away range) the sample is outside the domain - "
                              f"suggest_float('x', 0, 1) returned 43974.86 after twelve trials in [0, 1e6]",
                      how="np.clip(<sample>, d.low, d.high)", where=where(sf, n))
    ctx.floor("R10.8", "numerical_sample_stores", n_num, 2)

    # ------------------------------------------------------------ R10.9 the cache a repeated suggest answers from cannot be edited from outside
    ctx.rule("R10.9", "the value a repeated suggest_* returns is the one stored: Trial's public properties hand out deep copies of the private cache, "
             "so editing trial.params / trial.distributions cannot change what the next suggest of that name returns")
    from rules.c20 import trial_properties_return_copies
    trial_properties_return_copies(ctx, "R10.9")

    # ------------------------------------------------------------ R10.10 grid membership is tested with a value-independent tolerance
    ctx.rule("R10.10", "FloatDistribution._contains accepts a value as a grid point only if (value - low) / step is within a fixed, value-independent distance "
             "(< 0.5) of an integer: a tolerance that grows with the quotient accepts every value of a fine grid over a large range, and relative samplers' "
             "off-grid values then pass Trial._is_relative_param")
    cf = p.func("optuna.distributions.FloatDistribution._contains")
    cdefs = single_defs(cf.node)
    n_tol = 0
    for x in own_nodes(cf.node):
        if isinstance(x, ast.Compare) and len(x.ops) == 1 and isinstance(x.ops[0], (ast.Lt, ast.LtE, ast.Gt, ast.GtE)):
            sides = [x.left, x.comparators[0]]
            dist = [e for e in sides if isinstance(e, ast.Call) and dotted(e.func) in ("abs", "math.fabs", "np.abs") and any(isinstance(y, ast.Call) and dotted(y.func) in ("round", "np.round", "np.rint") for y in ast.walk(e))]
            if len(dist) != 1:
                continue
            tol = resolve([e for e in sides if e is not dist[0]][0], cdefs, depth=3)
            n_tol += 1
            ok = isinstance(tol, ast.Constant) and isinstance(tol.value, (int, float)) and 0 < tol.value < 0.5
            ctx.check(ok, "R10.10", cf.short, "grid-tolerance-is-a-small-constant",
                      message=f"FloatDistribution._contains compares the distance to the nearest grid index with `{norm(tol)[:50]}`: not a constant below 0.5, so for large "
                              f"(value - low) / step every value between the bounds counts as a grid point (suggest_float('x', 0, 1e6, step=0.001) accepts 155465.31789)",
                      how="abs(k - round(k)) < <constant>", where=where(cf, x))
    ctx.floor("R10.10", "grid_distance_tests", n_tol, 1)

