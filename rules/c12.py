"""C12 - agreement of the sibling best-trial implementations."""
from __future__ import annotations

import ast

from rules.c13 import site_test
from sa import dual
from sa.cfg import CFG
from sa.enumdom import explore
from sa.expr import cmp_atom, edges_where, resolve, single_defs
from sa.loader import Program, dotted, norm, own_nodes
from sa.util import kwarg, parent_map, self_attr, where, ancestors

PROPERTY = "C12"
BASE = "optuna.storages._base.BaseStorage"
INMEM = "optuna.storages._in_memory.InMemoryStorage"
RDB = "optuna.storages._rdb.storage.RDBStorage"
TM = "optuna.storages._rdb.models.TrialModel"
TV = "optuna.storages._rdb.models.TrialValueModel"
STUDY = "optuna.study.study.Study"
NORMAL = lambda a, k, b: k not in ("e", "reraise", "match", "nomatch")  # noqa: E731


def arms_of(func, member="MAXIMIZE"):
    """(max_arm, min_arm) statement lists of the (single) two-armed direction site in func."""
    pm = parent_map(func.node)
    for n in own_nodes(func.node):
        if isinstance(n, ast.If):
            st = site_test(n.test)
            if st is None:
                continue
            m, pos = st
            body, other = n.body, n.orelse
            if not other:
                continue
            if (m == member) == bool(pos):
                return body, other, n
            return other, body, n
    return None, None, None


def names_called(stmts) -> set[str]:
    out = set()
    for s in stmts:
        for x in ast.walk(s):
            if isinstance(x, ast.Call):
                d = dotted(x.func) or ""
                out.add(d.split(".")[-1])
    return out


def complete_updates_cache(ctx, rule, upd_name):
    """In-memory backend: every path of set_trial_state_values on which a trial becomes COMPLETE passes the best-trial cache update after
    the publication (shared by C12 R12.4 and C01 R01.17: get_best_trial has to agree with the base implementation the journal uses and with
    the RDB query)."""
    p = ctx.program
    im = p.cls(INMEM)
    f = im.methods["set_trial_state_values"]
    g = CFG(f.node, name=f.qualname)
    upd = [n for n in g.stmt_nodes() for c in n.calls() if self_attr(c.func) == upd_name]
    pub = [n for n in g.stmt_nodes() for c in n.calls() if self_attr(c.func) == "_set_trial"]
    cur = {norm(x) for x in own_nodes(f.node) if isinstance(x, ast.Attribute) and x.attr == "state" and norm(x.value) not in ("self",) and not norm(x.value).endswith("TrialState")}
    bad = None
    for curst in ("RUNNING", "WAITING"):
        env = {"state": "COMPLETE"}
        for c in cur:
            env[c] = curst
        nodes, edges = explore(g, env, [], return_edges=True)
        ok_edge = lambda a, k, b, edges=edges: (a, k, b) in edges and NORMAL(a, k, b)  # noqa: E731
        r = g.reachable([g.entry], avoid_nodes=upd, edge_ok=ok_edge)
        if g.exit in r:
            bad = g.witness([g.exit], guards=upd, edge_ok=ok_edge)
        # update happens after the publish
        for u in upd:
            if u in nodes and not g.dominated_by(u, pub):
                bad = "update before publish"
    ctx.check(bad is None and bool(upd), rule, f.short, "complete-updates-cache",
              message="set_trial_state_values(COMPLETE) can return without _update_cache after the trial was published: best_trial goes stale",
              how="explored with state=COMPLETE: every normal path to exit passes _update_cache, dominated by _set_trial", witness=bad)


def run(ctx):
    p: Program = ctx.program
    ctx.explanation = (
        "Each backend has its own best-trial code. The five sibling implementations "
        "(BaseStorage.get_best_trial, InMemoryStorage._update_cache, TrialModel.find_max/min + "
        "RDBStorage.get_best_trial, Study.best_trial's feasible fallback, get_all_study_summaries) "
        "are put in one table and compared: all restrict candidates to COMPLETE, the arm selected "
        "by MAXIMIZE is the max / replace-when-larger / desc / find_max one, the SQL inf-type "
        "ranking is the same strictly increasing mapping over exactly the enum's members and is "
        "the primary sort key, the in-memory incremental cache is updated on every path on which a "
        "trial can become COMPLETE, errors mirror the base class, the constraint fallback consults "
        "feasible COMPLETE trials, and the Pareto front filters COMPLETE/feasible and normalises "
        "through _normalize_value. Decides agreement of eligibility, orientation and infinity "
        "ranking; not the vectorised Pareto arithmetic, tie choices or NaN handling in SQL.")

    rows = {}
    # ------------------------------------------------------------ R12.1 eligibility
    ctx.rule("R12.1", "every row restricts candidates to COMPLETE trials")
    f = p.func(BASE + ".get_best_trial")
    calls = [c for c in own_nodes(f.node) if isinstance(c, ast.Call) and self_attr(c.func) == "get_all_trials"]
    ok = any(kwarg(c, "states", 2) is not None and norm(kwarg(c, "states", 2)) in ("[TrialState.COMPLETE]", "(TrialState.COMPLETE,)") for c in calls)
    ctx.check(ok, "R12.1", f.short, "eligible:COMPLETE", message="BaseStorage.get_best_trial does not restrict candidates to COMPLETE trials",
              how="get_all_trials(.., states=[COMPLETE])")
    defs = single_defs(f.node)
    mx, mn, site = arms_of(f)
    ctx.require(mx is not None, "R12.2: direction site in BaseStorage.get_best_trial vanished")
    for arm in (mx, mn):
        for c in [x for s in arm for x in ast.walk(s) if isinstance(x, ast.Call) and dotted(x.func) in ("max", "min")]:
            src = c.args[0] if c.args else None
            ok = isinstance(src, ast.Name) and src.id in defs and isinstance(defs[src.id], ast.Call) and self_attr(defs[src.id].func) == "get_all_trials"
            ctx.check(ok, "R12.1", f.short, f"candidates-from-COMPLETE-list:{dotted(c.func)}",
                      message=f"best trial is chosen from `{norm(src) if src is not None else None}`, not from the COMPLETE listing",
                      how="max/min over the filtered list")
    rows["base"] = {"max_arm": sorted(names_called(mx) & {"max", "min"}), "min_arm": sorted(names_called(mn) & {"max", "min"})}

    # in-memory
    im = p.cls(INMEM)
    # the cache maintainer is found by its role, not its (private) name: the one method of
    # InMemoryStorage that assigns <study>.best_trial_id
    maint = [m for m in im.methods.values() if any(
        isinstance(n, ast.Assign) and any(isinstance(t, ast.Attribute) and t.attr == "best_trial_id" and isinstance(t.ctx, ast.Store) for t in n.targets)
        for n in own_nodes(m.node))]
    ctx.require(len(maint) == 1, f"R12: expected one InMemoryStorage method maintaining best_trial_id, found {[m.name for m in maint]}")
    f = maint[0]
    UPD = f.name
    g = CFG(f.node, name=f.qualname)

    def atom_complete(e):
        a = cmp_atom(e)
        if a and a[0].endswith(".state") and a[2].endswith("TrialState.COMPLETE"):
            return True if a[1] in (ast.Eq, ast.Is) else (False if a[1] in (ast.NotEq, ast.IsNot) else None)
        return None
    acc = []
    for t in g.stmt_nodes():
        if t.kind == "test":
            pol = edges_where(t.expr, atom_complete)
            for k, m in t.succ:
                if pol.get(k) is True:
                    acc.append((t, k, m))
    writes = [n for n in g.stmt_nodes() if n.kind == "stmt" and isinstance(n.ast, ast.Assign)
              and any(isinstance(t, ast.Attribute) and t.attr == "best_trial_id" for t in n.ast.targets)]
    ctx.require(writes, "R12: _update_cache no longer writes best_trial_id")
    ok = bool(acc) and all(g.dominated_by(w, [], acc) for w in writes)
    ctx.check(ok, "R12.1", f.short, "eligible:COMPLETE", message="the in-memory best-trial cache can be set to a trial that is not COMPLETE",
              how="every best_trial_id write dominated by `trial.state == COMPLETE`")
    for w in writes:
        ctx.check(norm(w.ast.value) == "trial_id", "R12.1", f.short, "cache-written-with-this-trial", message=f"best_trial_id set to `{norm(w.ast.value)}`", how="trial_id")
    # the tested trial is the one being cached
    tdef = [n for n in own_nodes(f.node) if isinstance(n, ast.Assign) and norm(n.targets[0]) == "trial"]
    this_trial = bool(tdef) and norm(tdef[0].value) == "self._get_trial(trial_id)"
    if not tdef and "trial" in f.params():
        # the caller hands the trial over instead of the maintainer re-reading it: every call site passes the very
        # object it has just published under trial_id (`self._set_trial(trial_id, x)` / `<study>.trials.append(x)`)
        idx = f.params().index("trial") - 1
        this_trial = True
        n_sites = 0
        for m2 in im.methods.values():
            for c2 in own_nodes(m2.node):
                if isinstance(c2, ast.Call) and self_attr(c2.func) == f.name:
                    n_sites += 1
                    a2 = kwarg(c2, "trial", idx)
                    pubs = [x for x in own_nodes(m2.node) if isinstance(x, ast.Call) and a2 is not None and (
                        (self_attr(x.func) == "_set_trial" and len(x.args) == 2 and norm(x.args[1]) == norm(a2)) or
                        (isinstance(x.func, ast.Attribute) and x.func.attr == "append" and norm(x.func.value).endswith(".trials") and x.args and norm(x.args[0]) == norm(a2)))]
                    this_trial = this_trial and isinstance(a2, ast.Name) and bool(pubs)
        this_trial = this_trial and n_sites > 0
    ctx.check(this_trial, "R12.1", f.short, "tests-this-trial",
              message="the COMPLETE test is not on the trial being cached", how="trial = self._get_trial(trial_id), or the published object handed over by every caller")
    # SQL
    for q in (TM + ".find_max_value_trial_id", TM + ".find_min_value_trial_id"):
        f = p.func(q)
        filt = [norm(c.args[0]) for c in own_nodes(f.node) if isinstance(c, ast.Call) and isinstance(c.func, ast.Attribute) and c.func.attr == "filter" and c.args]
        ctx.check("cls.state == TrialState.COMPLETE" in filt, "R12.1", f.short, "eligible:COMPLETE",
                  message=f"{f.name} does not filter on state == COMPLETE (filters: {filt})", how=".filter(cls.state == COMPLETE)")
        ctx.check("cls.study_id == study_id" in filt and "TrialValueModel.objective == objective" in filt, "R12.1", f.short, "same-study-and-objective",
                  message=f"{f.name} does not restrict to the study/objective (filters: {filt})", how="filters present")
    # Study.best_trial fallback
    st = p.cls(STUDY)
    f = st.methods.get("best_trial")
    ctx.require(f is not None, "R12: Study.best_trial vanished")
    defs = single_defs(f.node)
    c_tr = defs.get("complete_trials")
    ok = isinstance(c_tr, ast.Call) and self_attr(c_tr.func) == "get_trials" and kwarg(c_tr, "states", 1) is not None \
        and "TrialState.COMPLETE" in norm(kwarg(c_tr, "states", 1)) and norm(kwarg(c_tr, "states", 1)).count("TrialState.") == 1
    ctx.check(ok, "R12.1", f.short, "eligible:COMPLETE", message="the feasible fallback is not computed from COMPLETE trials only", how="get_trials(states=[COMPLETE])")
    # summaries
    f = p.func("optuna.study.study.get_all_study_summaries")
    comp = [n for n in own_nodes(f.node) if isinstance(n, ast.Assign) and norm(n.targets[0]) == "completed_trials"]
    ok = bool(comp) and isinstance(comp[0].value, ast.ListComp) and any("TrialState.COMPLETE" in norm(i) and "==" in norm(i) for i in comp[0].value.generators[0].ifs)
    ctx.check(ok, "R12.1", f.short, "eligible:COMPLETE", message="summaries choose the best trial from non-COMPLETE trials", how="completed_trials comprehension")

    # ------------------------------------------------------------ R12.2 orientation
    ctx.rule("R12.2", "the arm selected by MAXIMIZE uses max / replace-when-larger / desc / find_max; arms are dual")
    for q, label, src_name in ((BASE + ".get_best_trial", "base", "all_trials"), (STUDY + ".best_trial", "study-fallback", "feasible_trials"),
                               ("optuna.study.study.get_all_study_summaries", "summaries", "completed_trials")):
        f = p.func(q)
        mx, mn, site = arms_of(f)
        ctx.require(mx is not None, f"R12.2: direction site in {q} vanished")
        cm, cn = names_called(mx) & {"max", "min"}, names_called(mn) & {"max", "min"}
        ctx.check(cm == {"max"} and cn == {"min"}, "R12.2", f.short, "orientation",
                  message=f"{f.name}: under MAXIMIZE the code uses {sorted(cm)} and under MINIMIZE {sorted(cn)}: the worst trial would be reported as best",
                  how="MAXIMIZE -> max, MINIMIZE -> min")
        pairs = dual.match(mx, mn)
        ctx.check(pairs is not None and bool(pairs) and all(x.dual for x in pairs), "R12.2", f.short, "arms-dual", message=f"arms are not mirror images: {pairs}", how=str(pairs))
        # key is the trial value; source is the eligible list
        for arm in (mx, mn):
            for c in [x for s in arm for x in ast.walk(s) if isinstance(x, ast.Call) and dotted(x.func) in ("max", "min")]:
                k = kwarg(c, "key")
                # the key may be a lambda or a named function whose body is one return
                if isinstance(k, ast.Name):
                    kf = p.funcs.get(f"{f.module.name}.{k.id}")
                    body = [st for st in kf.node.body if not (isinstance(st, ast.Expr) and isinstance(st.value, ast.Constant))] if kf is not None else []
                    if len(body) == 1 and isinstance(body[0], ast.Return) and body[0].value is not None and len(kf.node.args.args) == 1:
                        k = ast.Lambda(args=kf.node.args, body=body[0].value)
                okk = isinstance(k, ast.Lambda) and norm(k.body).endswith(f"{k.args.args[0].arg}.value)") or (isinstance(k, ast.Lambda) and norm(k.body) == f"{k.args.args[0].arg}.value")
                ctx.check(bool(okk), "R12.2", f.short, f"key-is-value:{dotted(c.func)}", message=f"best trial selected by key `{norm(k) if k is not None else None}`", how="key=lambda t: t.value")
                ctx.check(bool(c.args) and norm(c.args[0]) == src_name, "R12.2", f.short, f"source:{dotted(c.func)}",
                          message=f"best trial selected from `{norm(c.args[0]) if c.args else None}` instead of {src_name}", how=src_name)
    # in-memory: MAXIMIZE arm replaces when best < new
    f = im.methods[UPD]
    mx, mn, site = arms_of(f)
    ctx.require(mx is not None, "R12.2: direction site in _update_cache vanished")
    defs = single_defs(f.node)

    def replace_cond(arm):
        for s in arm:
            if isinstance(s, ast.If):
                a = cmp_atom(resolve(s.test, defs))
                writes_ = [x for x in ast.walk(s) if isinstance(x, ast.Assign) and any(isinstance(t, ast.Attribute) and t.attr == "best_trial_id" for t in x.targets)]
                if a and writes_:
                    return a
        return None
    am, an = replace_cond(mx), replace_cond(mn)
    bestv, newv = "self._get_trial(self._studies[study_id].best_trial_id).value", "self._get_trial(trial_id).value"

    def orient(a):
        if a is None:
            return None
        l, op, r = a
        new_side = lambda t: ("trial_id).value" in t or t == "trial.value") and "best_trial_id" not in t  # noqa: E731
        if "best_trial_id" in l and new_side(r):
            return "replace-when-new-larger" if op in (ast.Lt, ast.LtE) else ("replace-when-new-smaller" if op in (ast.Gt, ast.GtE) else None)
        if "best_trial_id" in r and "best_trial_id" not in l:
            return "replace-when-new-larger" if op in (ast.Gt, ast.GtE) else ("replace-when-new-smaller" if op in (ast.Lt, ast.LtE) else None)
        return None
    ctx.check(orient(am) == "replace-when-new-larger" and orient(an) == "replace-when-new-smaller", "R12.2", f.short, "orientation",
              message=f"in-memory cache: MAXIMIZE arm {orient(am)}, MINIMIZE arm {orient(an)}", how="MAXIMIZE replaces when best < new; MINIMIZE when best > new")
    rows["in-memory"] = {"max_arm": orient(am), "min_arm": orient(an)}
    # RDB
    f = p.lookup_method(p.cls(RDB), "get_best_trial")
    mx, mn, site = arms_of(f)
    ctx.require(mx is not None, "R12.2: direction site in RDBStorage.get_best_trial vanished")
    ctx.check("find_max_value_trial_id" in names_called(mx) and "find_min_value_trial_id" in names_called(mn), "R12.2", f.short, "orientation",
              message="RDBStorage.get_best_trial calls the min finder for MAXIMIZE (or vice versa)", how="MAXIMIZE -> find_max_value_trial_id")
    for q, want in ((TM + ".find_max_value_trial_id", "desc"), (TM + ".find_min_value_trial_id", "asc")):
        f = p.func(q)
        ob = [c for c in own_nodes(f.node) if isinstance(c, ast.Call) and isinstance(c.func, ast.Attribute) and c.func.attr == "order_by"]
        ctx.require(len(ob) == 1, f"R12.2: {q} must have exactly one order_by")
        keys = ob[0].args
        dirs = [dotted(k.func) if isinstance(k, ast.Call) else None for k in keys]
        ctx.check(len(keys) == 2 and all(d == want for d in dirs), "R12.2", f.short, "orientation",
                  message=f"{f.name} orders by {dirs}; expected both keys {want}", how=f"order_by({want}(type rank), {want}(value))")
        # R12.3
        ctx.rule("R12.3", "SQL inf ranking: same mapping in both siblings, keys = TrialValueType members, strictly increasing "
                 "INF_NEG < FINITE < INF_POS, primary sort key")
        first = keys[0].args[0] if keys and isinstance(keys[0], ast.Call) and keys[0].args else None
        ok = isinstance(first, ast.Call) and dotted(first.func) == "case" and first.args and isinstance(first.args[0], ast.Dict)
        mapping = {}
        if ok:
            for k, v in zip(first.args[0].keys, first.args[0].values):
                try:
                    mapping[k.value] = ast.literal_eval(v)
                except Exception:  # noqa: BLE001
                    ok = False
            val_of = kwarg(first, "value")
            ok = ok and val_of is not None and norm(val_of) == "TrialValueModel.value_type"
        tv = p.cls(TV)
        enum_cls = [n for n in tv.node.body if isinstance(n, ast.ClassDef) and n.name == "TrialValueType"]
        members = [t.id for n in (enum_cls[0].body if enum_cls else []) if isinstance(n, ast.Assign) for t in n.targets if isinstance(t, ast.Name)]
        good = ok and set(mapping) == set(members) and len(members) == 3 and mapping.get("INF_NEG") < mapping.get("FINITE") < mapping.get("INF_POS")
        ctx.check(bool(good), "R12.3", f.short, "inf-rank-mapping",
                  message=f"{f.name}: inf-type ranking {mapping} over enum members {members} is not the strictly increasing INF_NEG < FINITE < INF_POS "
                          f"mapping used as primary sort key: +/-inf values would be ranked wrongly",
                  how="case({INF_NEG:-1, FINITE:0, INF_POS:1}, value=value_type) is the first order_by key")
        second = keys[1].args[0] if len(keys) > 1 and isinstance(keys[1], ast.Call) and keys[1].args else None
        ctx.check(second is not None and norm(second) == "TrialValueModel.value", "R12.3", f.short, "secondary-key-is-value", message="secondary sort key is not the value", how="value")
        rows[f.name] = {"order": dirs, "mapping": mapping}
    # value_to_stored_repr agrees with the mapping's meaning
    f = p.func(TV + ".value_to_stored_repr")
    pairs_ = []
    for n in own_nodes(f.node):
        if isinstance(n, ast.If):
            a = cmp_atom(n.test)
            ret = [x for x in n.body if isinstance(x, ast.Return)]
            if a and ret:
                pairs_.append((a[0] if a[0].startswith("float(") else a[2], norm(ret[0].value)))
    ok = ("float('inf')", "(None, cls.TrialValueType.INF_POS)") in pairs_ and ("float('-inf')", "(None, cls.TrialValueType.INF_NEG)") in pairs_
    ctx.check(ok, "R12.3", f.short, "inf-encoding", message=f"value_to_stored_repr encodes infinities as {pairs_}", how="+inf -> INF_POS, -inf -> INF_NEG")

    # ------------------------------------------------------------ R12.4 cache sees every completion
    ctx.rule("R12.4", "in-memory: every path on which a trial can become COMPLETE passes _update_cache after publication; errors mirror the base")
    complete_updates_cache(ctx, "R12.4", UPD)
    # the cache maintainer reads the current best, compares and writes: it must run in the same critical
    # section that published the trial, otherwise two finishing threads interleave and the better one's
    # update is overwritten by the other's stale comparison
    from sa.util import class_lock_fields, lock_section_of, parent_map
    locks = class_lock_fields(im)
    for mname2 in ("set_trial_state_values", "create_new_trial"):
        f2 = im.methods[mname2]
        pm2 = parent_map(f2.node)
        ucalls = [c for c in own_nodes(f2.node) if isinstance(c, ast.Call) and self_attr(c.func) == UPD]
        pcalls = [c for c in own_nodes(f2.node) if isinstance(c, ast.Call) and (self_attr(c.func) == "_set_trial" or
                  (isinstance(c.func, ast.Attribute) and c.func.attr == "append" and norm(c.func.value).endswith(".trials")))]
        secs = {id(lock_section_of(c, pm2, locks)) for c in ucalls + pcalls}
        ok = bool(locks) and bool(ucalls) and bool(pcalls) and all(lock_section_of(c, pm2, locks) is not None for c in ucalls + pcalls) and len(secs) == 1
        ctx.check(ok, "R12.4", f2.short, "cache-update-in-publishing-critical-section",
                  message=f"InMemoryStorage.{mname2}: the best-trial cache is updated outside the critical section that publishes the trial: "
                          f"concurrent completions can leave best_trial_id pointing at the worse trial", how="publication and cache update inside one `with self._lock` statement")
    f = im.methods["create_new_trial"]
    g = CFG(f.node, name=f.qualname)
    upd = [n for n in g.stmt_nodes() for c in n.calls() if self_attr(c.func) == UPD]
    pub = [n for n in g.stmt_nodes() for c in n.calls() if isinstance(c.func, ast.Attribute) and c.func.attr == "append" and norm(c.func.value).endswith(".trials")]
    ok = bool(upd) and bool(pub) and g.exit not in g.reachable([g.entry], avoid_nodes=upd, edge_ok=NORMAL) and all(g.dominated_by(u, pub) for u in upd)
    ctx.check(ok, "R12.4", f.short, "template-updates-cache",
              message="create_new_trial (a COMPLETE template) can return without _update_cache after appending the trial", how="append dominates _update_cache which is on every normal path")
    for n in upd:
        for c in n.calls():
            if self_attr(c.func) == UPD:
                ctx.check([norm(a) for a in c.args][:2] == ["trial_id", "study_id"], "R12.4", f.short, "update-args", message="cache updated for another trial/study", how="(trial_id, study_id, ...)")
    f = im.methods["get_best_trial"]
    g = CFG(f.node, name=f.qualname)
    raises = {norm(n.ast.exc.func if isinstance(n.ast.exc, ast.Call) else n.ast.exc): n for n in g.stmt_nodes() if n.kind == "stmt" and isinstance(n.ast, ast.Raise) and n.ast.exc is not None}
    ctx.check("ValueError" in raises and "RuntimeError" in raises, "R12.4", f.short, "errors-mirror-base",
              message=f"in-memory get_best_trial raises {sorted(raises)}; the base raises ValueError (none) and RuntimeError (multi-objective)", how="both raises present")
    tests = {norm(t.expr): t for t in g.stmt_nodes() if t.kind == "test"}
    ctx.check(any("best_trial_id is None" in k for k in tests) and any("len(" in k and "directions" in k and "> 1" in k for k in tests), "R12.4", f.short, "error-conditions",
              message=f"error conditions are {sorted(tests)}", how="best_trial_id is None -> ValueError; len(directions) > 1 -> RuntimeError")
    rets = [n for n in own_nodes(f.node) if isinstance(n, ast.Return) and n.value is not None]
    ctx.check(all(norm(r.value) == "self.get_trial(best_trial_id)" for r in rets) and bool(rets), "R12.4", f.short, "returns-cached-best", message="returns something else than the cached best trial", how="self.get_trial(best_trial_id)")
    # multi-objective studies never keep a single best (cache update returns early)
    # RDB errors
    f = p.lookup_method(p.cls(RDB), "get_best_trial")
    ctx.check(any(isinstance(n, ast.Raise) and "RuntimeError" in norm(n) for n in own_nodes(f.node)), "R12.4", f.short, "errors-mirror-base",
              message="RDB get_best_trial does not raise RuntimeError for multi-objective studies", how="raise RuntimeError")
    for q in (TM + ".find_max_value_trial_id", TM + ".find_min_value_trial_id"):
        f = p.func(q)
        ctx.check(any(isinstance(n, ast.Raise) and "ValueError" in norm(n) for n in own_nodes(f.node)), "R12.4", f.short, "errors-mirror-base",
                  message=f"{f.name} does not raise ValueError when no trial is complete", how="raise ValueError")

    # ------------------------------------------------------------ R12.5 constraints / Pareto
    ctx.rule("R12.5", "Study.best_trial falls back to feasible COMPLETE trials and raises when none; Pareto front filters COMPLETE then feasible and normalises")
    f = st.methods["best_trial"]
    g = CFG(f.node, name=f.qualname)
    defs = single_defs(f.node)
    feas = defs.get("feasible_trials")
    ctx.check(isinstance(feas, ast.Call) and dotted(feas.func) == "_get_feasible_trials" and norm(feas.args[0]) == "complete_trials", "R12.5", f.short,
              "fallback-uses-feasible", message="fallback does not compute _get_feasible_trials(complete_trials)", how="call present")
    tests = [t for t in g.stmt_nodes() if t.kind == "test" and "constraints" in norm(t.expr)]
    def _violated(e):
        has_any = any(isinstance(x, ast.Call) and dotted(x.func) == "any" for x in ast.walk(e))
        gt0 = any(isinstance(x, ast.Compare) and len(x.ops) == 1 and isinstance(x.ops[0], ast.Gt) and isinstance(x.comparators[0], ast.Constant)
                  and x.comparators[0].value == 0 for x in ast.walk(e))
        return has_any and gt0
    ok = any(_violated(t.expr) for t in tests)
    ctx.check(ok, "R12.5", f.short, "fallback-trigger", message="fallback is not triggered by a violated constraint (any(x > 0.0))", how="constraints is not None and any(x > 0.0 ...)")
    rz = [n for n in g.stmt_nodes() if n.kind == "stmt" and isinstance(n.ast, ast.Raise) and "ValueError" in norm(n.ast)]
    ok = False
    for r in rz:
        for t in g.stmt_nodes():
            if t.kind == "test" and norm(t.expr) == "len(feasible_trials) == 0" and any(m is r for k, m in t.succ if k == "t"):
                ok = True
    ctx.check(ok, "R12.5", f.short, "raises-when-none-feasible", message="no ValueError when no feasible trial exists", how="len(feasible_trials) == 0 -> raise ValueError")
    # a best-valued trial WITHOUT recorded constraints is not feasible by the library's own predicate (_get_feasible_trials: constraints is not
    # None and all <= 0): returning it unexamined is right only in an unconstrained study, so on the `constraints is None` side some look at the
    # other trials (is the study constrained? / the feasible set) has to precede the return
    from sa.expr import edges_implying

    def _nn(e):
        if isinstance(e, ast.Compare) and len(e.ops) == 1 and isinstance(e.comparators[0], ast.Constant) and e.comparators[0].value is None:
            l = resolve(e.left, defs)
            if "_CONSTRAINTS_KEY" in norm(l) and isinstance(e.ops[0], (ast.IsNot, ast.Is)):
                return ("notnone", isinstance(e.ops[0], ast.IsNot))
        return None
    safe = []
    for t in g.stmt_nodes():
        if t.kind == "test":
            for k in edges_implying(t.expr, _nn, ["notnone"], lambda a: a["notnone"]):
                safe += [(t, k2, m) for k2, m in t.succ if k2 == k]
    consult = [n for n in g.stmt_nodes() if any((dotted(c.func) or "").endswith("_get_feasible_trials") for c in n.calls())
               or any(isinstance(x, ast.Compare) and isinstance(x.ops[0], ast.In) and "_CONSTRAINTS_KEY" in norm(x.left) and norm(x.comparators[0]).endswith(".system_attrs")
                      for x in n.walk())]
    rets = [n for n in g.stmt_nodes() if n.kind == "stmt" and isinstance(n.ast, ast.Return)]
    r_ = g.reachable([g.entry], avoid_nodes=consult, avoid_edges=safe, edge_ok=NORMAL)
    hit = [n for n in rets if n in r_]
    ctx.check(not hit, "R12.5", f.short, "best-without-constraints-is-examined",
              message="Study.best_trial returns the storage's best-valued trial unexamined when that trial has no recorded constraints (key missing, or None because "
                      "constraints_func raised): in a constrained study it is not feasible by _get_feasible_trials' own predicate, so with feasible COMPLETE trials "
                      "present best_trial is an infeasible trial and disagrees with best_trials. Input: values 0.05 (constraints None), 0.3 (violated), 0.7, 0.9 (feasible), "
                      "minimise: best_trial is #0, best_trials is [#2]",
              how="on the `constraints is None` side a test whether any trial has constraints (or the feasible set) precedes the return",
              where=where(f, hit[0].ast) if hit else None)
    f = p.func("optuna.study._constrained_optimization._get_feasible_trials")
    conds = [norm(n.test) for n in own_nodes(f.node) if isinstance(n, ast.If)]

    def _feasible(e):
        has_all = any(isinstance(x, ast.Call) and dotted(x.func) == "all" for x in ast.walk(e))
        le0 = any(isinstance(x, ast.Compare) and len(x.ops) == 1 and isinstance(x.ops[0], ast.LtE) and isinstance(x.comparators[0], ast.Constant)
                  and x.comparators[0].value == 0 for x in ast.walk(e))
        notnone = any(isinstance(x, ast.Compare) and isinstance(x.ops[0], ast.IsNot) and isinstance(x.comparators[0], ast.Constant) and x.comparators[0].value is None for x in ast.walk(e))
        return has_all and le0 and notnone
    # the predicate may be an `if` statement, the filter of a comprehension, or a conditional expression
    preds = [n.test for n in own_nodes(f.node) if isinstance(n, (ast.If, ast.IfExp))]
    for n in own_nodes(f.node):
        if isinstance(n, ast.comprehension) and n.ifs:
            preds.append(n.ifs[0] if len(n.ifs) == 1 else ast.BoolOp(op=ast.And(), values=list(n.ifs)))
    conds = [norm(e) for e in preds]
    ctx.check(any(_feasible(e) for e in preds), "R12.5", f.short, "feasibility-predicate",
              message=f"feasibility is decided by {conds}", how="constraints is not None and all(x <= 0.0)")
    f = p.func("optuna.study._multi_objective._get_pareto_front_trials_by_trials")
    g = CFG(f.node, name=f.qualname)
    filt = [n for n in g.stmt_nodes() if n.kind == "stmt" and isinstance(n.ast, ast.Assign) and norm(n.ast.targets[0]) == "trials" and isinstance(n.ast.value, ast.ListComp)
            and any("TrialState.COMPLETE" in norm(i) and "==" in norm(i) for i in n.ast.value.generators[0].ifs)]
    feasn = [n for n in g.stmt_nodes() if n.kind == "stmt" and isinstance(n.ast, ast.Assign) and "_get_feasible_trials(trials)" == norm(n.ast.value)]
    use = [n for n in g.stmt_nodes() if any(isinstance(c, ast.Call) and (dotted(c.func) or "").endswith("_is_pareto_front") for c in n.calls())]
    ok = bool(filt) and bool(feasn) and bool(use) and all(g.dominated_by(u, filt) for u in use) and all(g.dominated_by(x, filt) for x in feasn)
    ctx.check(ok, "R12.5", f.short, "pareto-eligibility", message="the Pareto front is not computed from COMPLETE (then feasible) trials", how="COMPLETE filter dominates feasibility filter and the front computation")
    ft = [t for t in g.stmt_nodes() if t.kind == "test" and norm(t.expr) == "consider_constraint"]
    ok = bool(ft) and all(g.dominated_by(x, [], [(t, k, m) for t in ft for k, m in t.succ if k == "t"]) for x in feasn)
    ctx.check(ok, "R12.5", f.short, "feasible-only-when-asked", message="feasibility filter is not under `if consider_constraint`", how="dominated by the True edge")
    norm_calls = [c for c in own_nodes(f.node) if isinstance(c, ast.Call) and dotted(c.func) == "_normalize_value"]
    ctx.check(len(norm_calls) >= 1, "R12.5", f.short, "values-normalised", message="objective values are not passed through _normalize_value", how="call present")
    # Study.best_trials: whether the feasibility filter applies is decided over the whole history
    # ("some trial has recorded constraints"), not from one trial: trial 0 may have failed or been added
    # without constraints in a constrained study.
    f = st.methods.get("best_trials")
    ctx.require(f is not None, "R12.5: Study.best_trials vanished")
    bdefs = single_defs(f.node)
    pcalls = [c for c in own_nodes(f.node) if isinstance(c, ast.Call) and (dotted(c.func) or "").endswith("_get_pareto_front_trials")]
    ctx.require(len(pcalls) == 1, "R12.5: Study.best_trials no longer calls _get_pareto_front_trials")
    cc = kwarg(pcalls[0], "consider_constraint", 1)
    e = resolve(cc, bdefs) if cc is not None else None
    ok = False
    if isinstance(e, ast.Call) and dotted(e.func) == "any" and e.args and isinstance(e.args[0], (ast.GeneratorExp, ast.ListComp)):
        comp = e.args[0]
        gen = comp.generators[0]
        itn = resolve(gen.iter, bdefs)
        it = norm(itn)
        elt = comp.elt
        unfiltered = not (isinstance(itn, ast.Call) and kwarg(itn, "states", 1) is not None and not (isinstance(kwarg(itn, "states", 1), ast.Constant) and kwarg(itn, "states", 1).value is None))
        all_trials = (it.startswith("self.get_trials(") or it.startswith("self._get_trials(") or it == "self.trials") and unfiltered
        member = isinstance(elt, ast.Compare) and len(elt.ops) == 1 and isinstance(elt.ops[0], ast.In) and "_CONSTRAINTS_KEY" in norm(elt.left) \
            and norm(elt.comparators[0]).endswith(".system_attrs") and not gen.ifs and len(comp.generators) == 1
        ok = all_trials and member
    ctx.check(ok, "R12.5", f.short, "constrained-iff-any-trial-has-constraints",
              message=f"best_trials decides `consider_constraint` by `{norm(e)[:90] if e is not None else None}`, not by `any(_CONSTRAINTS_KEY in t.system_attrs for t in <all trials>)`: "
                      f"in a constrained study whose inspected trial has no recorded constraints the feasibility filter is switched off and infeasible trials are returned as the Pareto front",
              how="existential test over every trial of the study")
    for name, attr in (("best_value", "value"), ("best_params", "params")):
        f = st.methods.get(name)
        ctx.require(f is not None, f"R12.5: Study.{name} vanished")
        defs = single_defs(f.node)
        rets = [n for n in own_nodes(f.node) if isinstance(n, ast.Return) and n.value is not None]
        ok = bool(rets) and all(norm(resolve(r.value, defs)) == f"self.best_trial.{attr}" for r in rets)
        ctx.check(ok, "R12.5", f.short, f"derived-from-best_trial:{attr}", message=f"Study.{name} is not self.best_trial.{attr}", how="single source of truth")
    ctx.note("sibling_rows", rows)

    # ------------------------------------------------------------ R12.6 infinities in the Pareto code
    ctx.rule("R12.6", "the Pareto-front code orders and compares objective values but never takes their differences: objective values may be "
             "+-inf (the property includes them) and inf - inf is NaN, which is neither equal nor ordered")
    n_fn = 0
    for fn in p.iter_funcs(("optuna.study._multi_objective",)):
        tainted = {a for a in fn.params() if "value" in a or "loss" in a}
        if not tainted:
            continue
        n_fn += 1
        pmf = parent_map(fn.node)

        def touches_values(e, tainted=tainted, pmf=pmf):
            for y in ast.walk(e):
                if isinstance(y, ast.Name) and y.id in tainted:
                    par = pmf.get(id(y))
                    if isinstance(par, ast.Attribute) and par.attr in ("shape", "size", "ndim", "dtype"):
                        continue
                    if isinstance(par, ast.Call) and dotted(par.func) == "len":
                        continue
                    return True
            return False
        changed = True
        while changed:
            changed = False
            for n in own_nodes(fn.node):
                if isinstance(n, ast.Assign) and touches_values(n.value):
                    for t in n.targets:
                        for y in ast.walk(t):
                            if isinstance(y, ast.Name) and y.id not in tainted:
                                # results of shape-like reductions are counts / indices, not values
                                v = n.value
                                if isinstance(v, ast.Call) and (dotted(v.func) or "").split(".")[-1] in ("len", "argsort", "lexsort", "arange", "nonzero", "where", "cumsum", "unique", "zeros", "ones", "empty", "full", "any", "all"):
                                    continue
                                tainted.add(y.id)
                                changed = True
        for n in own_nodes(fn.node):
            bad = None
            if isinstance(n, ast.BinOp) and isinstance(n.op, ast.Sub) and (touches_values(n.left) or touches_values(n.right)):
                bad = norm(n)
            elif isinstance(n, ast.Call) and (dotted(n.func) or "").split(".")[-1] in ("diff", "subtract", "ptp", "ediff1d", "gradient") and any(touches_values(a) for a in n.args):
                bad = norm(n)
            if bad is not None:
                ctx.fail("R12.6", fn.short, f"difference-of-objective-values:{bad[:40]}",
                         f"{fn.name} computes `{bad[:70]}` on objective values: for two equal infinite values the difference is NaN (truthy, unordered), so duplicate or "
                         f"dominated rows are misjudged and best_trials drops a non-dominated trial", where=where(fn, n))
    ctx.ok("R12.6", "optuna/study/_multi_objective.py", "no-differences-of-objective-values", how=f"{n_fn} functions taking value arrays scanned: comparisons / sorting / unique only")
    ctx.floor("R12.6", "pareto_functions", n_fn, 7)
