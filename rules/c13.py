"""C13 - direction-site census and local duality (maximise f == minimise -f)."""
from __future__ import annotations

import ast

from sa import dual
from sa.loader import AnalysisError, Program, dotted, norm, own_nodes
from sa.util import parent_map, ancestors, where, call_sites, kwarg

PROPERTY = "C13"
CORE = ("optuna.samplers", "optuna.pruners", "optuna.storages", "optuna.study")
EXTRA = ("optuna.terminator", "optuna.importance", "optuna.visualization")
FLOORS = {"optuna.samplers": 8, "optuna.pruners": 6, "optuna.storages": 6, "optuna.study": 4}

# pruners whose prune() must consult the direction (order-sensitive on intermediate values)
PRUNERS_NEED_DIRECTION = ["optuna.pruners._percentile.PercentilePruner", "optuna.pruners._successive_halving.SuccessiveHalvingPruner",
                          "optuna.pruners._patient.PatientPruner", "optuna.pruners._wilcoxon.WilcoxonPruner"]
PRUNERS_EXEMPT = {"optuna.pruners._threshold.ThresholdPruner": "absolute bounds: the property mirrors thresholds on the user side",
                  "optuna.pruners._nop.NopPruner": "never prunes",
                  "optuna.pruners._median.MedianPruner": "inherits PercentilePruner.prune",
                  "optuna.pruners._hyperband.HyperbandPruner": "delegates to SuccessiveHalvingPruner"}
SAMPLERS_NEED_DIRECTION = ["optuna.samplers._tpe.sampler.TPESampler", "optuna.samplers._gp.sampler.GPSampler",
                           "optuna.samplers._cmaes.CmaEsSampler", "optuna.samplers.nsgaii._sampler.NSGAIISampler",
                           "optuna.samplers._nsgaiii._sampler.NSGAIIISampler"]
SAMPLERS_EXEMPT = {"optuna.samplers._random.RandomSampler": "never reads objective values",
                   "optuna.samplers._grid.GridSampler": "never reads objective values",
                   "optuna.samplers._brute_force.BruteForceSampler": "never reads objective values",
                   "optuna.samplers._qmc.QMCSampler": "never reads objective values",
                   "optuna.samplers._partial_fixed.PartialFixedSampler": "delegates to the base sampler",
                   "optuna.samplers._base.BaseSampler": "abstract",
                   "optuna.samplers._ga._base.BaseGASampler": "abstract GA base; selection in subclasses",
                   "optuna.samplers._nsgaiii._sampler.NSGAIIISampler": ""}


def direction_member(e: ast.AST) -> str | None:
    d = dotted(e)
    if d and d.split(".")[-1] in ("MAXIMIZE", "MINIMIZE") and "StudyDirection" in d:
        return d.split(".")[-1]
    return None


def site_test(e: ast.AST):
    """(member, positive) if e is `<x> ==/is StudyDirection.M` (positive) or !=/is not."""
    if isinstance(e, ast.Compare) and len(e.ops) == 1:
        for side in (e.comparators[0], e.left):
            m = direction_member(side)
            if m:
                op = e.ops[0]
                if isinstance(op, (ast.Eq, ast.Is)):
                    return m, True
                if isinstance(op, (ast.NotEq, ast.IsNot)):
                    return m, False
                if isinstance(op, (ast.In, ast.NotIn)):
                    return m, None
    return None


class Site:
    def __init__(self, func, node, test, kind):
        self.func = func
        self.node = node  # If / IfExp / Compare
        self.test = test
        self.kind = kind
        self.idiom = None
        self.pairs = []


def find_sites(p: Program, prefixes):
    sites = []
    for f in p.iter_funcs(prefixes):
        pm = parent_map(f.node)
        for n in own_nodes(f.node):
            if not isinstance(n, ast.Compare):
                continue
            st = site_test(n)
            if st is None:
                # membership list containing direction members (validation)
                if any(direction_member(x) for x in ast.walk(n)) and isinstance(n.ops[0], (ast.In, ast.NotIn)):
                    sites.append(Site(f, n, n, "validation"))
                continue
            par = pm.get(id(n))
            if isinstance(par, ast.If) and par.test is n:
                sites.append(Site(f, par, n, "if"))
            elif isinstance(par, ast.IfExp) and par.test is n:
                sites.append(Site(f, par, n, "ifexp"))
            else:
                sites.append(Site(f, n, n, "other"))
    return sites


def rest_of_block(if_node: ast.If, pm) -> list[ast.stmt] | None:
    par = pm.get(id(if_node))
    for fld in ("body", "orelse", "finalbody"):
        blk = getattr(par, fld, None)
        if isinstance(blk, list) and if_node in blk:
            i = blk.index(if_node)
            return blk[i + 1:]
    return None


def classify(ctx, s: Site):
    f = s.func
    pm = parent_map(f.node)
    dual.SORTED_NAMES = {norm(c.func.value) for c in own_nodes(f.node) if isinstance(c, ast.Call) and isinstance(c.func, ast.Attribute)
                         and c.func.attr == "sort"} | {t.id for n in own_nodes(f.node) if isinstance(n, ast.Assign) and isinstance(n.value, ast.Call)
                                                      and dotted(n.value.func) in ("sorted", "np.sort", "numpy.sort") for t in n.targets if isinstance(t, ast.Name)}
    loc = where(f, s.node)
    key = f"{norm(s.test)}"
    if s.kind == "validation":
        s.idiom = "I3"
        return
    if s.kind == "ifexp":
        a, b = s.node.body, s.node.orelse
        ma, mb = direction_member(a), direction_member(b)
        # translation between enums
        if (ma or _enum_like(a)) and (mb or _enum_like(b)):
            s.idiom = "I3"
            m, pos = site_test(s.test)
            want_body = m if pos else ("MINIMIZE" if m == "MAXIMIZE" else "MAXIMIZE")
            got = (dotted(a) or "").split(".")[-1]
            got_else = (dotted(b) or "").split(".")[-1]
            ctx.check(got == want_body and got_else != got, "R13.2", f.short, f"translation:{key}",
                      message=f"enum translation `{norm(s.node)[:70]}` maps {m} to {got}", how="arm under the tested member names the same member",
                      where=loc, nontrivial=False)
            return
        pairs = dual.match(a, b)
        if pairs is None:
            raise AnalysisError(f"R13.1: direction site `{norm(s.node)[:80]}` in {f.short} fits no idiom")
        s.pairs = pairs
        if pairs and all(pp.kind == "sign" for pp in pairs):
            s.idiom = "I2a"
            ctx.check(all(pp.dual for pp in pairs), "R13.2", f.short, f"sign-ternary:{norm(s.node)[:50]}",
                      message=f"sign ternary `{norm(s.node)[:70]}` has equal arms", how="arms are negations of each other", where=loc)
            return
        s.idiom = "I1a"
        _check_pairs(ctx, s, pairs, a, b, loc)
        return
    if s.kind == "if":
        node: ast.If = s.node
        a = node.body
        if node.orelse:
            b = node.orelse
            s.idiom = "I1a"
        else:
            ends = isinstance(a[-1], (ast.Return, ast.Raise, ast.Continue, ast.Break))
            if ends:
                rest = rest_of_block(node, pm)
                if rest is None:
                    raise AnalysisError(f"R13.1: cannot find the fall-through arm of `{key}` in {f.short}")
                b = rest
                s.idiom = "I1b"
            else:
                # one-armed: must be a negation / mirror assignment
                s.idiom = "I2b"
                ok = len(a) == 1 and isinstance(a[0], ast.Assign) and len(a[0].targets) == 1
                if ok:
                    t, v = a[0].targets[0], a[0].value
                    neg = isinstance(v, ast.UnaryOp) and isinstance(v.op, ast.USub) and norm(v.operand) == norm(t)
                    mir = isinstance(v, ast.BinOp) and isinstance(v.op, ast.Sub) and isinstance(v.left, ast.Constant) and norm(v.right) == norm(t)
                    ok = neg or mir
                ctx.check(ok, "R13.2", f.short, f"one-armed:{key}",
                          message=f"one-armed direction site `{norm(node)[:80]}` is not a negation (x = -x) or mirror (x = C - x)",
                          how="normalises to a loss/gain", where=loc)
                return
        pairs = dual.match(a, b)
        if pairs is None:
            # named intermediates inside the arms (`t = nanmin(x) + d; best = nanmin(y); r = t < best`): substitute the
            # arm-local single definitions into the arm's last statement and compare those
            a2, b2 = _inline_arm_temps(a, s.func.node, s.node), _inline_arm_temps(b, s.func.node, s.node)
            if a2 is not None and b2 is not None:
                pairs = dual.match(a2, b2)
                if pairs is not None:
                    a, b = a2, b2
        if pairs is None:
            # sibling-callee form etc. must still match structurally; anything else is unknown
            if dual.order_sensitive(a) or dual.order_sensitive(b):
                # same shape but an unmirrored part? try to explain: report as violation only
                # when the arms are structurally equal apart from order tokens -> handled by
                # match; here the shapes differ
                raise AnalysisError(f"R13.1: direction site `{key}` in {f.short} fits no idiom (arms differ structurally)")
            s.idiom = "I3"
            return
        s.pairs = pairs
        if pairs and all(pp.kind == "sign" for pp in pairs):
            s.idiom = "I2a"
        _check_pairs(ctx, s, pairs, a, b, loc)
        return
    raise AnalysisError(f"R13.1: direction comparison `{norm(s.node)[:60]}` in {f.short} is not a branch condition")


def _inline_arm_temps(arm, func_node, site_node):
    """[t1 = e1, t2 = e2(t1), .., X(t1, t2)] -> [X(e1, e2(e1))] when every ti is a plain name bound once in the arm and
    used nowhere outside the arm; None when the arm is not of that shape."""
    import copy as _copy
    from sa.expr import _Subst
    if len(arm) < 2 or not all(isinstance(st, ast.Assign) and len(st.targets) == 1 and isinstance(st.targets[0], ast.Name) for st in arm[:-1]):
        return None
    # (uses in the other arm of the same site are that arm's own definitions)
    inside = {id(x) for x in ast.walk(site_node)}
    defs = {}
    for st in arm[:-1]:
        t = st.targets[0].id
        if t in defs:
            return None
        # used outside the arm?
        if any(isinstance(x, ast.Name) and x.id == t and id(x) not in inside for x in ast.walk(func_node)):
            return None
        defs[t] = _Subst(dict(defs), 3).visit(_copy.deepcopy(st.value))
    last = _Subst(defs, 3).visit(_copy.deepcopy(arm[-1]))
    return [last]


def _enum_like(e):
    d = dotted(e)
    return bool(d) and d.split(".")[-1] in ("MINIMIZE", "MAXIMIZE")


def _check_pairs(ctx, s, pairs, a, b, loc):
    f = s.func
    key = norm(s.test)
    sens = dual.order_sensitive(a) or dual.order_sensitive(b)
    if not pairs:
        ctx.fail("R13.2", f.short, f"arms-identical:{key}",
                 f"both arms of `{key}` are identical (`{norm(a[0] if isinstance(a, list) else a)[:60]}`): "
                 f"the direction has no effect here", where=loc)
        return
    bad = [pp for pp in pairs if not pp.dual]
    ctx.check(not bad, "R13.2", f.short, f"dual-arms:{key}",
              message=f"direction site `{key}`: arms are not mirror images: " + ", ".join(
                  (f"the mirrored comparisons compare different quantities: `{pp.a}` vs `{pp.b}`" if pp.kind == "asym" else
                   f"{pp.kind} is `{pp.a}` in both arms (`{norm(pp.node_a)[:40]}`)") for pp in bad[:3]),
              how="every order-sensitive token differs between the arms: " + ", ".join(map(repr, pairs[:6])), where=loc)
    # a mirrored index into a sorted array (x[0] vs x[-1]) is a mirror image only if the array holds no NaN: sorting puts
    # NaN last for both directions. Functions whose arrays are NaN-free by construction are tabled.
    IDX_NAN_FREE = {
        "optuna/pruners/_successive_halving.py::_is_trial_promotable_to_next_rung": "rung values come from completed_rung_* system attrs, which are never written for NaN reports",
    }
    idxp = [pp for pp in pairs if pp.kind == "idx" and pp.dual]
    short_fn = f.short.split("::")[0] + "::" + f.short.split("::")[-1].split(".")[-1]  # the same function as a method of its user class
    if idxp and f.module.name.startswith("optuna.pruners"):
        ctx.check(short_fn in IDX_NAN_FREE, "R13.2", f.short, f"mirrored-index-needs-nan-free-array:{key}",
                  message=f"direction site `{key}` takes the first element of a sorted array in one arm and the last in the other (`{norm(idxp[0].node_a)[:40]}` / "
                          f"`{norm(idxp[0].node_b)[:40]}`): reported values may be NaN and NaN sorts last in both directions, so the two arms are not mirror images "
                          f"(use the NaN-aware extrema, or filter NaN first)",
                  how=IDX_NAN_FREE.get(short_fn, "function tabled as working on NaN-free values"), where=loc)
    # consistency: all pairs must point the same way (arm A all 'lo'-like or all 'hi'-like is NOT
    # required across kinds - cmp depends on operand roles - but fn/sort/alt pairs must agree)
    fam = [pp for pp in pairs if pp.kind in ("fn", "sort", "alt") and pp.dual]
    toks = {("lo" if pp.a in ("lo", "asc") else "hi") for pp in fam}
    ctx.check(len(toks) <= 1, "R13.2", f.short, f"consistent-orientation:{key}",
              message=f"direction site `{key}` mixes orientations inside one arm: {fam}", how="min/asc/less all in the same arm", where=loc)


def run(ctx):
    p: Program = ctx.program
    ctx.explanation = (
        "Direction handling is re-implemented at every sampler, pruner and storage. The check "
        "enumerates every comparison with StudyDirection.MAXIMIZE/MINIMIZE in the scoped packages "
        "(census with per-package floors), classifies each site into the idioms the repository "
        "uses (two dual arms, early return + fall-through, sign ternary, one-armed negation, enum "
        "translation) and decides local duality by structural matching of the arms under the "
        "involution min<->max, <<->>, asc<->desc, reverse, less<->greater, x<->-x, a+d<->a-d, "
        "xs[k]<->xs[-(k+1)]; sibling callees (find_max/min_value_trial_id) are matched the same "
        "way; every order-sensitive pruner and value-reading sampler must reach a direction site. "
        "Decides that no site compares the wrong way or forgets its mirror; not run-level equality "
        "of parameter sequences (numerics after normalisation). Tie strictness (< vs <=) is outside "
        "the property (pairwise-distinct values).")
    ctx.assume("orientation (whether MAXIMIZE selects max or min) is checked in C12; C13 only needs the arms to be mirror images")

    ctx.rule("R13.1", "census: every StudyDirection comparison is a branch condition that fits an idiom (else exit 2)")
    ctx.rule("R13.2", "local duality of the arms / sign ternaries / one-armed negations")
    prefixes = CORE + (EXTRA if ctx.tier == "thorough" else ())
    sites = find_sites(p, prefixes)
    per_pkg = {}
    for s in sites:
        pkg = ".".join(s.func.module.name.split(".")[:2])
        per_pkg[pkg] = per_pkg.get(pkg, 0) + 1
    for pkg, fl in FLOORS.items():
        ctx.floor("R13.1", f"sites[{pkg}]", per_pkg.get(pkg, 0), fl)
    idioms = {}
    extra_notes = []
    for s in list(sites):
        if s.func.module.name.startswith(EXTRA):
            # outside the property's anchors (no influence on sampling/pruning decisions):
            # census only, classified on a scratch context so nothing is reported
            scratch = type(ctx)("C13", p, ctx.tier, 0)
            try:
                classify(scratch, s)
                verdict = s.idiom + ("" if not scratch.findings else " NOT-DUAL")
            except AnalysisError:
                verdict = "unclassified"
            extra_notes.append(f"{s.func.short}:{verdict}:{norm(s.test)}")
            sites.remove(s)
            continue
        classify(ctx, s)
        idioms[s.idiom] = idioms.get(s.idiom, 0) + 1
        ctx.ok("R13.1", s.func.short, f"site:{norm(s.test)}:{s.idiom}", how=f"classified as {s.idiom}", nontrivial=False)
    ctx.note("idiom_counts", idioms)
    ctx.note("sites_outside_anchors_census_only", extra_notes)
    ctx.note("sites", [f"{s.func.short}:{s.idiom}:{norm(s.test)}" for s in sites])

    # sibling callees
    ctx.rule("R13.2b", "sibling callee pair find_max/find_min_value_trial_id are mirror images")
    fa = p.func("optuna.storages._rdb.models.TrialModel.find_max_value_trial_id")
    fb = p.func("optuna.storages._rdb.models.TrialModel.find_min_value_trial_id")
    pairs = dual.match(fa.node.body, fb.node.body)
    ctx.check(pairs is not None and pairs and all(pp.dual for pp in pairs), "R13.2b", fa.short, "sibling-callees-dual",
              message=f"find_max_value_trial_id and find_min_value_trial_id are not identical modulo asc/desc: {pairs}",
              how=f"bodies match with pairs {pairs}")

    # ------------------------------------------------------------ R13.3 sign applied
    ctx.rule("R13.3", "sign normalisation is applied by multiplication / negation of the value where it is defined")
    n_sign = 0
    for s in sites:
        stmt_form = None
        if s.kind == "if" and isinstance(s.node, ast.If) and len(s.node.body) == 1 and len(s.node.orelse) == 1 \
                and all(isinstance(x, ast.Assign) and len(x.targets) == 1 and isinstance(x.targets[0], ast.Name) for x in (s.node.body[0], s.node.orelse[0])) \
                and s.node.body[0].targets[0].id == s.node.orelse[0].targets[0].id:
            # `if d == MINIMIZE: sign = 1 else: sign = -1` - the statement spelling of the sign ternary (the loader writes
            # `sign = 1 if .. else -1` this way)
            stmt_form = (s.node.body[0].value, s.node.orelse[0].value, s.node.body[0].targets[0].id)
        if not ((s.idiom == "I2a" and s.kind == "ifexp") or stmt_form is not None):
            continue
        f = s.func
        pm = parent_map(f.node)
        # the ternary is either itself `v if .. else -v` (value-carrying) or a sign constant that
        # must be multiplied with something
        a, b = (s.node.body, s.node.orelse) if stmt_form is None else stmt_form[:2]
        const_sign = all(isinstance(x, ast.Constant) or (isinstance(x, ast.UnaryOp) and isinstance(x.operand, ast.Constant)) for x in (a, b))
        if stmt_form is not None and not const_sign:
            continue
        n_sign += 1
        if not const_sign:
            ctx.ok("R13.3", f.short, f"value-carrying:{norm(s.node)[:40]}", how="ternary yields the normalised value itself")
            continue
        used = False
        # climb: inside a comprehension/array that is an operand of * or *=, or assigned to a name used in *
        cur = s.node
        target_names = set() if stmt_form is None else {stmt_form[2]}
        for anc in ancestors(s.node, pm):
            if isinstance(anc, ast.BinOp) and isinstance(anc.op, ast.Mult):
                used = True
            if isinstance(anc, ast.AugAssign) and isinstance(anc.op, ast.Mult):
                used = True
            if isinstance(anc, ast.Assign):
                target_names |= {t.id for t in anc.targets if isinstance(t, ast.Name)}
        if not used and target_names:
            for x in own_nodes(f.node):
                if isinstance(x, ast.BinOp) and isinstance(x.op, ast.Mult) and any(isinstance(y, ast.Name) and y.id in target_names for y in ast.walk(x)):
                    used = True
                if isinstance(x, ast.AugAssign) and isinstance(x.op, ast.Mult) and any(isinstance(y, ast.Name) and y.id in target_names for y in ast.walk(x.value)):
                    used = True
        if not used and target_names:
            # passed on to a helper that multiplies it in (followed through two call levels)
            def multiplied_in_callee(fn, names, depth=0):
                for x in own_nodes(fn.node):
                    if isinstance(x, ast.Call):
                        for i, a in enumerate(x.args):
                            if isinstance(a, ast.Name) and a.id in names:
                                gname = (dotted(x.func) or "").split(".")[-1]
                                g2 = fn.module.funcs.get(gname)
                                if g2 is None:
                                    continue
                                ps = g2.params()
                                if i >= len(ps):
                                    continue
                                pn = ps[i]
                                derived = {pn}
                                for y in own_nodes(g2.node):
                                    if isinstance(y, ast.Assign) and any(isinstance(z, ast.Name) and z.id in derived for z in ast.walk(y.value)):
                                        derived |= {t.id for t in y.targets if isinstance(t, ast.Name)}
                                for y in own_nodes(g2.node):
                                    if isinstance(y, ast.BinOp) and isinstance(y.op, ast.Mult) and any(isinstance(z, ast.Name) and z.id in derived for z in ast.walk(y)):
                                        return True
                                if depth < 2 and multiplied_in_callee(g2, derived, depth + 1):
                                    return True
                return False
            used = multiplied_in_callee(f, target_names)
        ctx.check(used, "R13.3", f.short, f"sign-applied:{norm(s.node)[:40]}",
                  message=f"the direction sign `{norm(s.node)[:60]}` is never multiplied with the values", how="sign consumed by * / *=",
                  where=where(f, s.node))
    ctx.floor("R13.3", "sign_ternaries", n_sign, 5)

    # ------------------------------------------------------------ R13.3b no second direction handling after normalisation
    by_func = {}
    for s_ in sites:
        by_func.setdefault(s_.func.qualname, []).append(s_)
    for q, ss_ in sorted(by_func.items()):
        signs = [x for x in ss_ if x.idiom in ("I2a", "I2b") and x.kind in ("ifexp", "if")]
        others = [x for x in ss_ if x not in signs and x.idiom in ("I1a", "I1b")]
        if not signs or not others:
            continue
        f = ss_[0].func
        pm = parent_map(f.node)
        # variables derived from the normalised value / the sign
        derived = set()
        for sg in signs:
            for a in ancestors(sg.node, pm):
                if isinstance(a, ast.Assign):
                    derived |= {t.id for t in a.targets if isinstance(t, ast.Name)}
                if isinstance(a, ast.stmt):
                    break
            if isinstance(sg.node, ast.If):
                # statement spelling: the sign / normalised value is what the arms assign
                for arm in (sg.node.body, sg.node.orelse):
                    for st_ in arm:
                        if isinstance(st_, ast.Assign):
                            derived |= {t.id for t in st_.targets if isinstance(t, ast.Name)}
        changed = True
        while changed:
            changed = False
            for n in own_nodes(f.node):
                if isinstance(n, ast.Assign) and any(isinstance(y, ast.Name) and y.id in derived for y in ast.walk(n.value)):
                    for t in n.targets:
                        if isinstance(t, ast.Name) and t.id not in derived:
                            derived.add(t.id)
                            changed = True
        for o in others:
            uses = {y.id for y in ast.walk(o.node) if isinstance(y, ast.Name) and y.id in derived}
            ctx.check(not uses, "R13.3", f.short, f"direction-applied-twice:{norm(o.test)}",
                      message=f"{f.name} normalises the objective by a direction sign and later branches on the direction again over values derived from the "
                              f"normalised ones ({sorted(uses)}): the direction is applied twice, so maximize no longer mirrors minimize",
                      how="code after the sign normalisation is direction-free", where=where(f, o.node))

    # ------------------------------------------------------------ R13.5 pruners: no direction-naive comparison of two value-derived operands
    ctx.rule("R13.5", "pruners: an order comparison whose operands are both derived from reported/objective values sits inside the arms of a direction site")
    n_cmp = 0
    n_signed = 0
    for f in p.iter_funcs(("optuna.pruners",)):
        fsites = [x for x in sites if x.func is f and x.kind in ("if", "ifexp")]
        if not fsites:
            continue
        pm = parent_map(f.node)
        tainted = {a for a in f.params() if "value" in a}

        def is_tainted(e):
            for y in ast.walk(e):
                if isinstance(y, ast.Call) and (dotted(y.func) or "").split(".")[-1] in ("len", "isnan", "isfinite"):
                    continue
                if isinstance(y, ast.Attribute) and y.attr in ("intermediate_values", "value", "values") and isinstance(y.ctx, ast.Load) \
                        and not (isinstance(y.value, ast.Name) and y.value.id == "self"):
                    return True
                if isinstance(y, ast.Name) and y.id in tainted:
                    # not under len()/size
                    par = pm.get(id(y))
                    if isinstance(par, ast.Call) and (dotted(par.func) or "").split(".")[-1] in ("len",):
                        continue
                    if isinstance(par, ast.Attribute) and par.attr in ("size", "shape", "ndim"):
                        continue
                    return True
            return False
        changed = True
        while changed:
            changed = False
            for n in own_nodes(f.node):
                tg = None
                if isinstance(n, ast.Assign):
                    tg, val = n.targets, n.value
                elif isinstance(n, (ast.For, ast.comprehension)):
                    tg, val = [n.target], n.iter
                if tg is None:
                    continue
                if is_tainted(val):
                    for t in tg:
                        for y in ast.walk(t):
                            if isinstance(y, ast.Name) and y.id not in tainted:
                                tainted.add(y.id)
                                changed = True
        site_nodes = [x.node for x in fsites]
        rests = []
        for x in fsites:
            if x.idiom == "I1b" and x.kind == "if":
                r_ = rest_of_block(x.node, pm) or []
                rests += r_
        for n in own_nodes(f.node):
            if isinstance(n, ast.Compare) and any(type(o) in dual.ORDER_OPS for o in n.ops):
                ops = [n.left] + n.comparators
                if sum(1 for o in ops if is_tainted(o)) >= 2:
                    n_cmp += 1
                    inside = any(a in site_nodes for a in ancestors(n, pm)) or any(any(y is n for y in ast.walk(r_)) for r_ in rests)
                    ctx.check(inside, "R13.5", f.short, f"value-comparison-in-site:{norm(n)[:40]}",
                              message=f"{f.name}: `{norm(n)[:70]}` orders two quantities derived from reported values outside any direction branch: the same "
                                      f"comparison is used for maximize and minimize", how="comparison is inside the arms of a direction site", where=where(f, n))
        # sign-asymmetric predicates and extremum selectors applied to reported values must be inside the arms
        # too (sorting is direction-free as long as the index taken afterwards is mirrored - idiom `idx`)
        SIGNED = {"isposinf", "isneginf", "signbit", "nanmax", "nanmin", "amax", "amin", "max", "min", "argmax", "argmin",
                  "nanargmax", "nanargmin", "maximum", "minimum"}
        for n in own_nodes(f.node):
            if isinstance(n, ast.Call) and (dotted(n.func) or "").split(".")[-1] in SIGNED and any(is_tainted(a) for a in n.args):
                # `x.max()` style has the tainted operand as receiver
                inside = any(a in site_nodes for a in ancestors(n, pm)) or any(any(y is n for y in ast.walk(r_)) for r_ in rests)
                n_signed += 1
                ctx.check(inside, "R13.5", f.short, f"signed-op-in-site:{norm(n)[:40]}",
                          message=f"{f.name}: `{norm(n)[:70]}` treats large and small reported values differently (extremum / sign of infinity) outside any "
                                  f"direction branch: maximize f and minimize -f are no longer mirror images", how="call is inside the arms of a direction site",
                          where=where(f, n))
    # mirroring a percentile by `100 - q` is exact only for an interpolation rule that is symmetric under reflection
    for f in p.iter_funcs(("optuna.pruners",)):
        for n in own_nodes(f.node):
            if isinstance(n, ast.Call) and (dotted(n.func) or "").split(".")[-1] in ("nanpercentile", "percentile", "nanquantile", "quantile"):
                m = kwarg(n, "method") or kwarg(n, "interpolation")
                ok = m is None or (isinstance(m, ast.Constant) and m.value in ("linear", "midpoint"))
                ctx.check(ok, "R13.5", f.short, f"percentile-interpolation-symmetric:{norm(m)[:20] if m is not None else 'default'}",
                          message=f"{f.name} computes the percentile with method={norm(m) if m is not None else None}: the maximize case is obtained by asking for the (100 - q)-th percentile, "
                                  f"which mirrors the minimize case only for a reflection-symmetric rule (linear, midpoint); 'nearest' / 'lower' / 'higher' round the same way "
                                  f"in both directions", how="default (linear) or midpoint interpolation", where=where(f, n))
    ctx.floor("R13.5", "value_comparisons_in_pruners", n_cmp, 4)
    ctx.count("R13.5", "signed_ops_in_pruners", n_signed)

    # ------------------------------------------------------------ R13.6 direction-naive consumers of raw objective values
    ctx.rule("R13.6", "samplers / multi-objective code: a function that reads raw trial values and applies an order-sensitive operation "
             "(min/max/arg*/sort) is direction-aware, or receives direction-normalised input, or is tabled as direction-free; the same for a "
             "callee fed directly with the raw-value result of such a function")
    ORDER = {"min", "max", "nanmin", "nanmax", "argmin", "argmax", "sort", "sorted", "argsort", "nanargmin", "nanargmax", "minimum", "maximum"}
    NAIVE_OK = {
        "optuna/samplers/_cmaes.py::CmaEsSampler._get_trials": "max() over (step, value) items picks the last *step*; no objective values are ordered",
        "optuna/samplers/_grid.py::GridSampler.__init__": "sorts the user's grid (dict.values()), no trial values involved",
        "optuna/samplers/_tpe/sampler.py::TPESampler._compare": "argmax over acquisition values of candidates; the direction is folded into the below/above split",
        "optuna/samplers/_nsgaiii/_elite_population_selection_strategy.py::_filter_inf": "clips to [min - margin, max + margin]: symmetric under negation",
    }

    def order_ops(fn):
        return sorted({(x.id if isinstance(x, ast.Name) else x.attr) for x in own_nodes(fn.node)
                       if isinstance(x, (ast.Name, ast.Attribute)) and (x.id if isinstance(x, ast.Name) else x.attr) in ORDER})

    def reads_raw(fn):
        return [x for x in own_nodes(fn.node) if isinstance(x, ast.Attribute) and x.attr in ("values", "value", "intermediate_values")
                and isinstance(x.ctx, ast.Load) and not (isinstance(x.value, ast.Name) and x.value.id == "self")]

    def aware(fn):
        for x in own_nodes(fn.node):
            if isinstance(x, ast.Compare) and site_test(x):
                return True
            if isinstance(x, ast.Attribute) and x.attr in ("direction", "directions"):
                return True
            if isinstance(x, ast.Name) and x.id in ("direction", "directions", "study_direction", "signs", "sign"):
                return True
            if isinstance(x, ast.Call) and (dotted(x.func) or "").split(".")[-1] in ("_normalize_value", "_rank_population", "_dominates"):
                return True
        return False
    scope6 = ("optuna.samplers", "optuna.study._multi_objective", "optuna._hypervolume")
    n_raw = 0
    cands = {}
    for fn in p.iter_funcs(scope6):
        if not reads_raw(fn):
            continue
        n_raw += 1
        if order_ops(fn) and not aware(fn):
            cands[fn.short] = (fn, "orders raw values itself: " + ", ".join(order_ops(fn)))
        # one step along the data flow: the raw-value result passed straight into another function
        if aware(fn):
            continue
        if not any(isinstance(x, ast.Return) and x.value is not None for x in own_nodes(fn.node)):
            continue
        for cf, c in call_sites(p, fn.name, scope6):
            if cf is fn:
                continue
            pm = parent_map(cf.node)
            signed = False
            outer = None
            for a in ancestors(c, pm):
                if isinstance(a, ast.BinOp) and isinstance(a.op, ast.Mult):
                    signed = True
                if isinstance(a, ast.Call) and a is not c and outer is None:
                    outer = a
                if isinstance(a, ast.stmt):
                    break
            if outer is None or signed:
                continue
            gname = (dotted(outer.func) or "").split(".")[-1]
            gfn = cf.module.funcs.get(gname)
            if gfn is not None and order_ops(gfn) and not aware(gfn):
                cands[gfn.short] = (gfn, f"is fed by {cf.name} with the un-normalised result of {fn.name}() and applies " + ", ".join(order_ops(gfn)))
    from sa.util import call_sites as _cs  # noqa: F401
    ctx.floor("R13.6", "functions_reading_raw_values", n_raw, 15)
    for short, (fn, why) in sorted(cands.items()):
        if short in NAIVE_OK:
            ctx.ok("R13.6", short, "direction-free-by-table", how=NAIVE_OK[short], nontrivial=False)
        else:
            ctx.fail("R13.6", short, "direction-naive-consumer",
                     f"{fn.name} {why}, with no direction handling on that path: maximizing f does not behave like minimizing -f", where=where(fn, fn.node))
    for short in NAIVE_OK:
        ctx.check(short in cands or True, "R13.6", short, "table-entry-still-present", how="informational", nontrivial=False)

    # ------------------------------------------------------------ R13.4 coverage of consumers
    ctx.rule("R13.4", "every order-sensitive pruner / value-reading sampler reaches a direction site (module import closure)")
    site_modules = {}
    for s in find_sites(p, ("optuna",)):
        site_modules.setdefault(s.func.module.name, 0)
        site_modules[s.func.module.name] += 1
    # reads of study.direction(s) count as consulting the direction as well
    for f in p.iter_funcs(("optuna.samplers", "optuna.pruners", "optuna.study", "optuna._hypervolume", "optuna._gp")):
        for x in own_nodes(f.node):
            if isinstance(x, ast.Attribute) and x.attr in ("direction", "directions") and isinstance(x.ctx, ast.Load):
                site_modules.setdefault(f.module.name, 0)

    def closure(modname, depth=2):
        seen = {modname}
        frontier = [modname]
        for _ in range(depth):
            nxt = []
            for m in frontier:
                mod = p.modules.get(m)
                if mod is None:
                    continue
                for tgt in mod.imports.values():
                    parts = tgt.split(".")
                    for i in range(len(parts), 1, -1):
                        cand = ".".join(parts[:i])
                        if cand in p.modules and cand not in seen and (cand.startswith("optuna.samplers") or cand.startswith("optuna.pruners")
                                                                       or cand.startswith("optuna.study._multi") or cand.startswith("optuna._hypervolume")):
                            seen.add(cand)
                            nxt.append(cand)
                            break
            frontier = nxt
        return seen

    def prune_reaches(cls):
        """prune() or a module-level function it (transitively) calls contains a direction site / reads study.direction."""
        f = p.lookup_method(cls, "prune")
        if f is None:
            return False
        seen = set()
        work = [f]
        while work:
            g = work.pop()
            if g.qualname in seen:
                continue
            seen.add(g.qualname)
            for x in own_nodes(g.node):
                if isinstance(x, ast.Compare) and site_test(x):
                    return True
                if isinstance(x, ast.Call):
                    nm = dotted(x.func) or ""
                    tgt = g.module.funcs.get(nm.split(".")[-1]) if "." not in nm or nm.startswith("self.") else None
                    if nm.startswith("self."):
                        tgt = p.lookup_method(cls, nm.split(".")[-1])
                    if tgt is not None:
                        work.append(tgt)
        return False

    for q in PRUNERS_NEED_DIRECTION:
        c = p.cls(q)
        ctx.check(prune_reaches(c), "R13.4", c.module.relpath + "::" + c.name, "pruner-consults-direction",
                  message=f"{c.name}.prune orders intermediate values but never reaches a direction site: maximize studies would be pruned like minimize",
                  how="prune() transitively reaches a StudyDirection comparison")
    for q in SAMPLERS_NEED_DIRECTION:
        c = p.cls(q)
        mods = closure(c.module.name)
        ctx.check(any(m in site_modules for m in mods), "R13.4", c.module.relpath + "::" + c.name, "sampler-consults-direction",
                  message=f"{c.name}: no direction site or study.direction read in its module import closure", how=f"closure {sorted(m for m in mods if m in site_modules)[:4]}")
    base_pr = p.cls("optuna.pruners._base.BasePruner")
    base_sa = p.cls("optuna.samplers._base.BaseSampler")
    unl = [c.qualname for c in p.subclasses(base_pr) if c.module.name.startswith("optuna.pruners") and c.qualname not in PRUNERS_NEED_DIRECTION
           and c.qualname not in PRUNERS_EXEMPT and "_BracketStudy" not in c.qualname]
    unl += [c.qualname for c in p.subclasses(base_sa) if c.module.name.startswith("optuna.samplers") and c.qualname not in SAMPLERS_NEED_DIRECTION
            and c.qualname not in SAMPLERS_EXEMPT]
    ctx.check(not unl, "R13.4", "optuna", "consumer-table-complete", message=f"samplers/pruners not classified in the consumer table: {unl}",
              how="every BasePruner/BaseSampler subclass in optuna.pruners / optuna.samplers is listed with a reason")
    _r13_7(ctx, p)
    _r13_8(ctx, p)


def _r13_8(ctx, p):
    ctx.rule("R13.8", "a function that folds the direction into objective values with a sign factor (sign * trial.values[i]) uses every objective value that way: "
             "a raw read next to the signed ones is ordered / subtracted in the wrong orientation for maximised objectives (equality tests and finiteness "
             "predicates are direction-neutral)")
    NEUTRAL_CALLS = {"np.isfinite", "numpy.isfinite", "math.isfinite", "math.isnan", "np.isnan", "numpy.isnan", "len", "np.isinf", "math.isinf"}

    def is_sign(e):
        t = norm(e)
        return t in ("sign", "signs[i]", "self._sign") or t.startswith("sign") or t.startswith("signs[")

    def is_raw(x):
        return isinstance(x, ast.Attribute) and x.attr in ("values", "value") and isinstance(x.ctx, ast.Load) and not (isinstance(x.value, ast.Name) and x.value.id == "self")
    n_fn = n_reads = 0
    for f in p.iter_funcs(("optuna.samplers",)):
        signed = [x for x in own_nodes(f.node) if isinstance(x, ast.BinOp) and isinstance(x.op, ast.Mult) and ((is_sign(x.left) and any(is_raw(y) for y in ast.walk(x.right)))
                                                                                                         or (is_sign(x.right) and any(is_raw(y) for y in ast.walk(x.left))))]
        if not signed:
            continue
        n_fn += 1
        pm = parent_map(f.node)
        for x in own_nodes(f.node):
            if not is_raw(x):
                continue
            n_reads += 1
            ok = False
            for a in ancestors(x, pm):
                if isinstance(a, ast.BinOp) and isinstance(a.op, ast.Mult) and (is_sign(a.left) or is_sign(a.right)):
                    ok = True
                    break
                if isinstance(a, ast.Compare) and all(isinstance(o, (ast.Eq, ast.NotEq, ast.Is, ast.IsNot)) for o in a.ops):
                    ok = True
                    break
                if isinstance(a, ast.Call) and (dotted(a.func) or "") in NEUTRAL_CALLS:
                    ok = True
                    break
                if isinstance(a, (ast.stmt, ast.comprehension)) and not isinstance(a, ast.Expr):
                    # the read is the iterable of `for i in range(len(x.values))` or similar bookkeeping
                    if isinstance(a, ast.For) and any(y is x for y in ast.walk(a.iter)):
                        ok = True
                    break
            ctx.check(ok, "R13.8", f.short, f"objective-value-read-is-signed:{norm(pm.get(id(x), x))[:40]}",
                      message=f"{f.name} multiplies objective values by the direction sign elsewhere but reads `{norm(pm.get(id(x), x))[:50]}` raw: for a maximised "
                              f"objective the raw values run opposite to the signed order the function sorts by, so a positional difference / extremum taken from them has the "
                              f"wrong sign (NSGA-II crowding width becomes negative and the normalisation is silently switched off) - maximize f and minimize -f differ",
                      how="sign * <trial>.values[i], an equality test, or a finiteness predicate", where=where(f, x))
    ctx.floor("R13.8", "sign_applying_functions", n_fn, 1)


def _inf_const(e) -> bool:
    if isinstance(e, ast.UnaryOp) and isinstance(e.op, (ast.USub, ast.UAdd)):
        return _inf_const(e.operand)
    if isinstance(e, ast.Attribute) and e.attr == "inf" and dotted(e) in ("math.inf", "np.inf", "numpy.inf"):
        return True
    if isinstance(e, ast.Call) and dotted(e.func) == "float" and e.args and isinstance(e.args[0], ast.Constant) and str(e.args[0].value).lstrip("+-").lower() in ("inf", "infinity"):
        return True
    return False


def _unsigned_inf_returns(p, prefixes):
    """`return +-inf` in a pruner helper that receives the study direction, outside both arms of a direction test: a raw-space value that the caller
    compares with `<` for one direction and `>` for the other"""
    out = []
    for f in p.iter_funcs(prefixes):
        prm = [a for a in f.params() if a in ("direction", "study_direction")]
        reads = any(isinstance(x, ast.Attribute) and x.attr == "direction" for x in own_nodes(f.node))
        if not prm and not reads:
            continue
        pm = parent_map(f.node)
        for n in own_nodes(f.node):
            if isinstance(n, ast.Return) and n.value is not None and any(_inf_const(x) for x in ([n.value] + (list(n.value.elts) if isinstance(n.value, ast.Tuple) else []))):
                under_dir = any(isinstance(a, ast.If) and "StudyDirection" in norm(a.test) for a in ancestors(n, pm))
                if not under_dir:
                    out.append((f, n))
    return out


def _r13_7(ctx, p):
    ctx.rule("R13.7", "pruner helpers that hand a raw-space reference value to a direction-dependent comparison signal 'no reference' with NaN (both `<` and `>` are "
             "false), never with an infinity chosen for one direction (zero-count, with fixture)")
    hits = _unsigned_inf_returns(p, ("optuna.pruners",))
    for f, n in hits:
        ctx.fail("R13.7", f.short, f"no-reference-is-nan:{norm(n)[:30]}",
                 f"{f.name} returns `{norm(n.value)}` outside a direction test although it serves both directions: the caller prunes when `best < reference` "
                 f"(maximize) resp. `best > reference` (minimize), so an infinite 'no reference yet' prunes every maximised trial and no minimised one - "
                 f"maximize f and minimize -f take different decisions", where=where(f, n))
    if not hits:
        ctx.ok("R13.7", "optuna/pruners", "no-unsigned-infinity-as-reference", how="0 returns of +-inf outside direction arms in direction-consuming pruner helpers")
    from sa.loader import Program as _P
    fx = _P.from_sources({"optuna.pruners.fx": "import math\ndef _ref(values, direction, n_min):\n    if len(values) < n_min:\n        return math.inf\n    return min(values)\n"})
    ctx.require(len(_unsigned_inf_returns(fx, ("optuna.pruners",))) == 1, "R13.7: positive fixture not flagged (rule is blind)")

