"""C16 - protective guards dominate every pruning decision."""
from __future__ import annotations

import ast

from sa.cfg import CFG
from sa.expr import MIRROR, OPSTR, cmp_atom, edges_where, inline_simple_calls, resolve, single_defs
from sa.loader import AnalysisError, Program, dotted, norm, own_nodes
from sa.util import kwarg, self_attr, where

PROPERTY = "C16"
PR = "optuna.pruners."

# class -> protective fields promised by the constructor's documentation
PROTECTIVE = {
    PR + "_percentile.PercentilePruner": ["_n_startup_trials", "_n_warmup_steps", "_interval_steps"],
    PR + "_threshold.ThresholdPruner": ["_n_warmup_steps", "_interval_steps"],
    PR + "_patient.PatientPruner": ["_patience"],
    PR + "_successive_halving.SuccessiveHalvingPruner": ["_min_resource", "_reduction_factor", "_min_early_stopping_rate"],
    PR + "_wilcoxon.WilcoxonPruner": ["_n_startup_steps"],
}
INHERITING = {PR + "_median.MedianPruner": PR + "_percentile.PercentilePruner"}
NEVER = [PR + "_nop.NopPruner"]
DELEGATING = [PR + "_hyperband.HyperbandPruner"]
HELPER_GATES = {"_is_first_in_interval_step"}


def is_false_return(n) -> bool:
    return n.kind == "stmt" and isinstance(n.ast, ast.Return) and isinstance(n.ast.value, ast.Constant) and n.ast.value.value is False


def method_lookup(p: Program, cls):
    """callee resolver for inline_simple_calls: `self.m(..)` -> the method's FunctionDef."""
    def lookup(call):
        f = call.func
        if isinstance(f, ast.Attribute) and isinstance(f.value, ast.Name) and f.value.id == "self":
            m = p.lookup_method(cls, f.attr)
            return m.node if m is not None and f.attr not in HELPER_GATES else None
        if isinstance(f, ast.Name) and f.id.startswith("_") and f.id not in HELPER_GATES:
            # a private module-level helper of the pruner's module or of the shared percentile module (a gate factored out of two pruners)
            for mod in (cls.module.name, PR + "_percentile"):
                if p.has_func(f"{mod}.{f.id}"):
                    return p.func(f"{mod}.{f.id}").node
        return None
    return lookup


def gate_edges(g: CFG, defs, field: str, lookup=None):
    """(pass_edges, gates) for tests mentioning self.<field> one of whose edges goes straight to
    `return False`."""
    pass_edges, gates = [], []
    for t in g.stmt_nodes():
        if t.kind != "test":
            continue
        e = resolve(t.expr, defs, depth=4)
        if lookup is not None:
            e = inline_simple_calls(e, lookup)
        if f"self.{field}" not in norm(e):
            continue
        a0 = cmp_atom(e.operand if isinstance(e, ast.UnaryOp) else e)
        if a0 is not None and a0[1] in (ast.Is, ast.IsNot) and a0[2] == "None":
            continue  # "not configured yet" test, not a protective bound
        prot = [(k, m) for k, m in t.succ if k in ("t", "f") and is_false_return(m)]
        if len(prot) != 1:
            continue
        pk = prot[0][0]
        for k, m in t.succ:
            if k in ("t", "f") and k != pk:
                pass_edges.append((t, k, m))
        gates.append((t, pk, e))
    return pass_edges, gates


def protecting_polarity_ok(e: ast.AST, pk: str, field: str):
    """On the protecting edge `pk` the condition must say 'measure below the protective bound'.
    Returns True / False / None (shape not understood)."""
    def atom(x):
        if isinstance(x, ast.Call) and (dotted(x.func) or "").split(".")[-1] in HELPER_GATES:
            return True  # helper True = a pruning step is reached; protecting when it is False
        a = cmp_atom(x)
        if a is None:
            return None
        l, op, r = a
        if f"self.{field}" in r and f"self.{field}" not in l:
            if op in (ast.Lt, ast.LtE):
                return True
            if op in (ast.Gt, ast.GtE):
                return False
        if f"self.{field}" in l and f"self.{field}" not in r:
            if op in (ast.Gt, ast.GtE):
                return True
            if op in (ast.Lt, ast.LtE):
                return False
        return None
    seen = []

    def atom_rec(x):
        r = atom(x)
        if r is not None:
            seen.append(r)
        return r
    pol = edges_where(e, atom_rec)
    if not seen:
        return None  # no comparison of the field in a shape we understand
    # What protects is what is known on the *pass* edge (the edge that does not return False):
    # there the comparison atom "measure below bound" must be known false (for the helper: known
    # true). `a or <atom>` / `not (<atom>)` / swapped operands all give the same answer; a gate
    # that leaves the atom undetermined on its pass edge (`a and <atom>`) does not protect.
    pass_k = "f" if pk == "t" else "t"
    has_helper = any(isinstance(x, ast.Call) and (dotted(x.func) or "").split(".")[-1] in HELPER_GATES for x in ast.walk(e))
    return (pol.get(pass_k) is True) if has_helper else (pol.get(pass_k) is False)


def run(ctx):
    p: Program = ctx.program
    ctx.explanation = (
        "Pruner.prune methods are sequences of guard clauses, so 'never prunes before X' is a "
        "dominance fact: for every protective constructor parameter (start-up trials, warm-up "
        "steps, interval, patience, min resource / rung arithmetic, start-up steps) every return "
        "that is not the constant False is dominated by the pass edge of a test that reads the "
        "parameter and whose other edge returns False, with the comparison pointing the "
        "protecting way; NopPruner only returns False; ThresholdPruner prunes exactly under "
        "NaN / below lower / above upper; Hyperband delegates to SuccessiveHalving instances built "
        "from its own parameters, returns False while uninitialised, and its bracket id is a pure "
        "function of study name, trial number and configuration. Decides that the gates cannot "
        "be bypassed on any path; not that a strictly-best trial survives percentile/rung "
        "arithmetic with NaNs and ties (numeric).")
    ctx.assume("protective parameter table in rules/c16.py was confirmed by reading the pruners' documentation")

    ctx.rule("R16.1", "protective fields exist and are assigned from the same-named constructor parameter")
    ctx.rule("R16.2", "every non-False return of prune is dominated by the pass edge of a gate on each protective field; "
             "the protecting comparison points the protecting way")
    n_pairs = 0
    for q, fields in sorted(PROTECTIVE.items()):
        cls = p.cls(q)
        init = cls.methods.get("__init__")
        prune = cls.methods.get("prune")
        ctx.require(init is not None and prune is not None, f"R16.1: {q} lost __init__/prune")
        g = CFG(prune.node, name=prune.qualname)
        defs = single_defs(prune.node)
        lookup = method_lookup(p, cls)
        rets = [n for n in g.stmt_nodes() if n.kind == "stmt" and isinstance(n.ast, ast.Return) and not is_false_return(n)]
        ctx.require(rets, f"R16.2: {cls.name}.prune has no pruning return at all")
        for fld in fields:
            n_pairs += 1
            assigns = [n for n in own_nodes(init.node) if isinstance(n, ast.Assign) and any(self_attr(t) == fld for t in n.targets)]
            param = fld.lstrip("_")
            ok = bool(assigns) and all(param in {x.id for x in ast.walk(a.value) if isinstance(x, ast.Name)} for a in assigns) \
                and param in init.params()
            ctx.check(ok, "R16.1", init.short, f"field-from-param:{fld}",
                      message=f"{cls.name}.{fld} is not assigned from constructor parameter `{param}`", how="self._x = x in __init__")
            pass_edges, gates = gate_edges(g, defs, fld, lookup)
            if not gates:
                ctx.fail("R16.2", prune.short, f"gate:{fld}",
                         f"{cls.name}.prune has no guard of the form `if <cond on self.{fld}>: return False`: the pruner can prune "
                         f"regardless of {param}", where=where(prune, prune.node))
                continue
            for r in rets:
                dom = g.dominated_by(r, [], pass_edges)
                ctx.check(dom, "R16.2", prune.short, f"gate-dominates:{fld}:{norm(r.ast)[:40]}",
                          message=f"{cls.name}.prune: `{norm(r.ast)[:60]}` is reachable without passing the {param} gate "
                                  f"(a trial can be pruned before its {param} protection ends)",
                          how="return dominated by the pass edge of the gate", witness=g.witness([r], edges=pass_edges),
                          where=where(prune, r.ast))
            pols = [(t, pk, e, protecting_polarity_ok(e, pk, fld)) for t, pk, e in gates]
            understood = [x for x in pols if x[3] is not None]
            for t, pk, e, pol in pols:
                if pol is None:
                    if understood:
                        continue  # a further test that happens to read the field; the protecting gate is one of the understood ones
                    # the only gate on this field is neither an order comparison against the bound nor the interval helper
                    # (whose contract is: the check due at an unreported step is made at the next reported one)
                    ctx.fail("R16.2", prune.short, f"gate-shape:{fld}",
                             f"{cls.name}.prune: the only guard on {param} is `{norm(e)[:70]}` - not `measure < bound` and not the shared interval helper "
                             f"({', '.join(sorted(HELPER_GATES))}): e.g. a remainder test `(step - warmup) % interval != 0` skips a check that falls on a step the "
                             f"trial did not report instead of postponing it to the next reported step, so with reports at 0, 3, 6, 9, 12 and interval 5 a NaN or "
                             f"out-of-bounds value is never examined", where=where(prune, t.ast))
                    continue
                ctx.check(pol, "R16.2", prune.short, f"gate-direction:{fld}",
                          message=f"{cls.name}.prune: the {param} gate `{norm(e)[:70]}` returns False on the wrong side "
                                  f"(protection is inverted)", how="`measure < / <= bound` (or `not helper`) leads to return False",
                          where=where(prune, t.ast))
    ctx.floor("R16.1", "protective_pairs", n_pairs, 10, exact=True)
    # what is measured against the bound: start-up trials are COMPLETE trials of the study (a FAIL or
    # PRUNED trial contributes nothing to the percentile the pruner compares with), warm-up is measured
    # on the trial's latest reported step
    MEASURES = {
        (PR + "_percentile.PercentilePruner", "_n_startup_trials"): "complete-count",
        (PR + "_percentile.PercentilePruner", "_n_warmup_steps"): "last-step",
        (PR + "_threshold.ThresholdPruner", "_n_warmup_steps"): "last-step",
    }

    def complete_only(x, defs, depth=0):
        """expression is the list of COMPLETE trials of the study"""
        x = resolve(x, defs)
        if isinstance(x, ast.Call) and isinstance(x.func, ast.Attribute) and x.func.attr in ("get_trials", "_get_trials"):
            stv = kwarg(x, "states", 1)
            els = list(stv.elts) if isinstance(stv, (ast.Tuple, ast.List, ast.Set)) else []
            return bool(els) and all(norm(v).endswith("TrialState.COMPLETE") for v in els)
        if isinstance(x, ast.ListComp) and len(x.generators) == 1:
            gen = x.generators[0]
            conds = [cmp_atom(i) for i in gen.ifs]
            return any(a is not None and a[0].endswith(".state") and a[1] in (ast.Eq, ast.Is) and a[2].endswith("TrialState.COMPLETE") for a in conds) \
                or complete_only(gen.iter, defs, depth + 1)
        return False
    for (q, fld), kind in sorted(MEASURES.items()):
        cls = p.cls(q)
        prune = cls.methods["prune"]
        g = CFG(prune.node, name=prune.qualname)
        defs = single_defs(prune.node)
        _pe, gates = gate_edges(g, defs, fld, method_lookup(p, cls))
        n_meas = 0
        for t, pk, e in gates:
            for x in ast.walk(e):  # the gate as resolved / with helper gates inlined
                if not (isinstance(x, ast.Compare) and len(x.ops) == 1):
                    continue
                sides = [x.left, x.comparators[0]]
                if not any(f"self.{fld}" in norm(resolve(sd, defs)) for sd in sides):
                    continue
                meas = [sd for sd in sides if f"self.{fld}" not in norm(resolve(sd, defs))]
                if len(meas) != 1:
                    continue
                n_meas += 1
                m = resolve(meas[0], defs, depth=4)
                if kind == "complete-count":
                    ok = isinstance(m, ast.Call) and dotted(m.func) == "len" and m.args and complete_only(m.args[0], defs)
                    msg = (f"{cls.name}.prune compares `{norm(m)[:70]}` with n_startup_trials: the start-up count is not the number of COMPLETE trials "
                           f"(FAIL/PRUNED/RUNNING trials would end the start-up phase although no completed trial backs the percentile)")
                else:
                    ok = norm(m) in ("trial.last_step",)
                    msg = f"{cls.name}.prune compares `{norm(m)[:70]}` with n_warmup_steps, not the trial's latest reported step"
                ctx.check(ok, "R16.2", prune.short, f"gate-measure:{fld}", message=msg,
                          how="len(<COMPLETE trials of the study>)" if kind == "complete-count" else "trial.last_step", where=where(prune, t.ast))
        ctx.require(n_meas > 0, f"R16.2: no comparison against self.{fld} found in {cls.name}.prune gates")
    # the patience window is the last `patience + 1` *reports*, whatever their step numbers: both slices of the sorted
    # steps cut at index -(patience + 1)
    pcls = p.cls(PR + "_patient.PatientPruner")
    pf = pcls.methods["prune"]
    pdefs = single_defs(pf.node)
    cuts = []
    for x in own_nodes(pf.node):
        if isinstance(x, ast.Subscript) and isinstance(x.slice, ast.Slice):
            for b in (x.slice.lower, x.slice.upper):
                if b is None:
                    continue
                rb = resolve(b, pdefs, depth=4)
                if "self._patience" in norm(rb):
                    cuts.append((x, rb))
    ctx.require(len(cuts) >= 2, "R16.2: PatientPruner.prune no longer slices the reported steps at the patience boundary")
    for x, rb in cuts:
        txt = norm(rb).replace(" ", "")
        ok = txt in ("-self._patience-1", "-(self._patience+1)", "-(1+self._patience)", "-1-self._patience")
        ctx.check(ok, "R16.2", pf.short, f"patience-window-counts-reports:{norm(x)[:40]}",
                  message=f"PatientPruner.prune cuts the reported steps at `{norm(rb)[:60]}`, not at index -(patience + 1): the window is no longer the last patience+1 reports "
                          f"(a trial reporting with gaps between its steps is pruned inside its patience window)",
                  how="slice bound is -(self._patience + 1)", where=where(pf, x))
    # ... and the window is taken in STEP order, not in the order the reports happened to be made (or the backend returns them): what is sliced
    # is the array of step keys after it was sorted, and the scores are looked up by those steps
    gp_ = CFG(pf.node, name=pf.qualname)
    for x, rb in cuts:
        base = x.value
        bname = base.id if isinstance(base, ast.Name) else None
        sorted_before = False
        if bname is not None:
            sorts = [n for n in gp_.stmt_nodes() if any(isinstance(c.func, ast.Attribute) and c.func.attr == "sort" and norm(c.func.value) == bname for c in n.calls())]
            sorted_defs = [n for n in gp_.stmt_nodes() if n.kind == "stmt" and isinstance(n.ast, ast.Assign) and any(isinstance(t, ast.Name) and t.id == bname for t in n.ast.targets)
                           and any(isinstance(c, ast.Call) and (dotted(c.func) or "") in ("sorted", "np.sort", "numpy.sort") for c in ast.walk(n.ast.value))]
            use = [n for n in gp_.stmt_nodes() if any(y is x for y in n.walk())]
            sorted_before = bool(use) and bool(sorts + sorted_defs) and all(gp_.dominated_by(u, sorts + sorted_defs) for u in use)
            src = resolve(ast.Name(id=bname, ctx=ast.Load()), pdefs, depth=4)
            of_steps = ".keys()" in norm(src) or "sorted(" in norm(src)
        else:
            of_steps = False
        ctx.check(sorted_before and of_steps, "R16.2", pf.short, f"patience-window-in-step-order:{norm(x)[:40]}",
                  message=f"PatientPruner.prune cuts its patience window out of `{norm(base)[:40]}`, which is not the sorted array of reported step numbers: the window then "
                          f"follows the order in which the values were reported (or the order the storage hands them back) instead of the step order - a trial that reports "
                          f"out of increasing step order is pruned inside its patience window",
                  how="steps = array of intermediate_values.keys(); steps.sort() before both slices; scores looked up by step", where=where(pf, x))
    # pruner objects keep nothing about the study they were first used with, apart from the tabled lazily computed
    # configuration: a pruner instance may serve several studies (Hyperband shares its SuccessiveHalving pruners)
    LAZY_CONFIG = {
        PR + "_successive_halving.SuccessiveHalvingPruner": {"_min_resource"},  # min_resource="auto": documented, estimated once
        PR + "_hyperband.HyperbandPruner": {"_pruners", "_n_brackets", "_total_trial_allocation_budget", "_trial_allocation_budgets", "_max_resource"},
    }
    from sa.util import field_accesses
    base_pr = p.cls(PR + "_base.BasePruner")
    for c in p.subclasses(base_pr):
        if not c.module.name.startswith("optuna.pruners"):
            continue
        for mname, m in sorted(c.methods.items()):
            if mname == "__init__":
                continue
            for a in field_accesses(m.node):
                if a.kind in ("write", "mutate") and a.field not in LAZY_CONFIG.get(c.qualname, set()):
                    ctx.fail("R16.2", m.short, f"pruner-keeps-no-study-state:{a.field}",
                             f"{c.name}.{mname} writes self.{a.field}: a value remembered from one call (one study) decides later calls - a pruner object used for a second "
                             f"study (other direction, other history) prunes what its contract protects", where=where(m, a.node))
    ctx.ok("R16.2", "optuna/pruners", "pruner-keeps-no-study-state", how="no field writes outside __init__ except the tabled lazy configuration", nontrivial=False)
    # subclasses that only forward constructor arguments
    for q, baseq in INHERITING.items():
        cls, base = p.cls(q), p.cls(baseq)
        ctx.check("prune" not in cls.methods, "R16.2", cls.module.relpath + "::" + cls.name, "inherits-prune",
                  message=f"{cls.name} overrides prune (not analysed against its protective parameters)", how="no override", nontrivial=False)
        init = cls.methods.get("__init__")
        ctx.require(init is not None, f"R16.1: {q}.__init__ vanished")
        sup = [c for c in own_nodes(init.node) if isinstance(c, ast.Call) and isinstance(c.func, ast.Attribute) and c.func.attr == "__init__"]
        ctx.require(len(sup) == 1, f"R16.1: {cls.name} must call super().__init__ once")
        bparams = base.methods["__init__"].params()[1:]
        for i, bp in enumerate(bparams):
            if "_" + bp not in PROTECTIVE[baseq]:
                continue
            a = kwarg(sup[0], bp, i)
            ctx.check(a is not None and norm(a) == bp, "R16.1", init.short, f"forwards:{bp}",
                      message=f"{cls.name} passes `{norm(a) if a is not None else None}` as {bp} to {base.name}", how="same-named argument forwarded")

    # ------------------------------------------------------------ R16.3
    ctx.rule("R16.3", "NopPruner only returns False; ThresholdPruner prunes exactly under isnan / < lower / > upper")
    for q in NEVER:
        f = p.cls(q).methods.get("prune")
        ctx.require(f is not None, f"R16.3: {q}.prune vanished")
        rets = [n for n in own_nodes(f.node) if isinstance(n, ast.Return)]
        ok = bool(rets) and all(isinstance(r.value, ast.Constant) and r.value.value is False for r in rets) \
            and not any(isinstance(n, ast.Raise) for n in own_nodes(f.node))
        ctx.check(ok, "R16.3", f.short, "never-prunes", message="NopPruner.prune can return something else than False", how="all returns are `False`")
    tcls = p.cls(PR + "_threshold.ThresholdPruner")
    f = tcls.methods["prune"]
    g = CFG(f.node, name=f.qualname)
    defs = single_defs(f.node)
    v = "trial.intermediate_values[trial.last_step]"

    def canon(e, positive=True):
        """disjuncts under which the branch is taken, comparisons written with the value on the left"""
        if isinstance(e, ast.UnaryOp) and isinstance(e.op, ast.Not):
            return canon(e.operand, not positive)
        if isinstance(e, ast.BoolOp) and isinstance(e.op, ast.Or) == positive:
            out = []
            for x in e.values:
                out += canon(x, positive)
            return out
        a = cmp_atom(e)
        if a is not None and a[1] in MIRROR:
            l, op, r = a
            if r == v and l != v:
                l, op, r = r, MIRROR[op], l
            if not positive:
                from sa.expr import NEGATE
                op = NEGATE[op]
            return [f"{l} {OPSTR[op]} {r}"]
        return [norm(e) if positive else "not (" + norm(e) + ")"]
    conds = []
    for t in g.stmt_nodes():
        if t.kind == "test":
            for k, m in t.succ:
                if k in ("t", "f") and m.kind == "stmt" and isinstance(m.ast, ast.Return) and isinstance(m.ast.value, ast.Constant) and m.ast.value.value is True:
                    conds += canon(resolve(t.expr, defs), k == "t")
    want = {f"math.isnan({v})", f"{v} < self._lower", f"{v} > self._upper"}
    ctx.check(set(conds) == want, "R16.3", f.short, "threshold-decision",
              message=f"ThresholdPruner prunes under {sorted(conds)}; expected exactly {sorted(want)}",
              how="three-disjunct normal form over the latest value (operand order and negation normalised)")
    other_true = [n for n in g.stmt_nodes() if n.kind == "stmt" and isinstance(n.ast, ast.Return) and not is_false_return(n)
                  and not (isinstance(n.ast.value, ast.Constant) and n.ast.value.value is True)]
    ctx.check(not other_true, "R16.3", f.short, "threshold-returns-constants", message="ThresholdPruner returns a computed value", how="only True/False constants")
    init = tcls.methods["__init__"]
    asg = {self_attr(t): norm(n.value) for n in own_nodes(init.node) if isinstance(n, ast.Assign) for t in n.targets if self_attr(t)}
    ctx.check(asg.get("_lower") == "lower" and asg.get("_upper") == "upper", "R16.3", init.short, "threshold-bounds-stored",
              message=f"bounds stored as {asg.get('_lower')}, {asg.get('_upper')}", how="self._lower = lower; self._upper = upper")
    # a bound is "missing" only when it is None: a truthiness test also drops the legitimate bound 0.0 (and -0.0), after which values beyond
    # a zero bound are no longer pruned
    gi = CFG(init.node, name=init.qualname)
    n_bt = 0
    for t in gi.stmt_nodes():
        if t.kind != "test":
            continue
        for x in ast.walk(t.expr):
            bare = None
            if isinstance(x, ast.Name) and x.id in ("lower", "upper"):
                par_ok = False
                for y in ast.walk(t.expr):
                    if isinstance(y, ast.Compare) and any(z is x for z in ast.walk(y)):
                        par_ok = True  # part of a comparison (is None / is not None / lower > upper)
                    if isinstance(y, ast.Call) and any(z is x for z in ast.walk(y)):
                        par_ok = True  # argument of a call
                if not par_ok:
                    bare = x
            if bare is not None:
                n_bt += 1
                ctx.fail("R16.3", init.short, f"bound-missing-means-None:{bare.id}",
                         f"ThresholdPruner.__init__ decides whether `{bare.id}` was given by its truth value (`{norm(t.expr)[:50]}`): the bound 0.0 counts as missing and "
                         f"becomes an infinity, so values beyond a zero {bare.id} bound are never pruned", where=where(init, t.ast))
    tests_on_bounds = [t for t in gi.stmt_nodes() if t.kind == "test" and any(isinstance(x, ast.Name) and x.id in ("lower", "upper") for x in ast.walk(t.expr))]
    ctx.floor("R16.3", "tests_on_threshold_bounds", len(tests_on_bounds), 3)

    # ------------------------------------------------------------ R16.4 hyperband
    # successive halving: what is recorded as a trial's rung value takes part in every later trial's competition (sorted, then indexed):
    # a NaN there is not ordered - `value <= nan` is False - so a strictly best later trial can be pruned. The NaN exit has to come first.
    ctx.rule("R16.5", "SuccessiveHalvingPruner never records NaN as a rung value: the write of the completed-rung attribute is dominated by the not-NaN edge")
    shp = p.cls(PR + "_successive_halving.SuccessiveHalvingPruner").methods["prune"]
    gsh = CFG(shp.node, name=shp.qualname)
    shdefs = single_defs(shp.node)
    writes_ = [n for n in gsh.stmt_nodes() for c in n.calls() if isinstance(c.func, ast.Attribute) and c.func.attr == "set_trial_system_attr" and len(c.args) >= 3]
    ctx.require(writes_, "R16.5: SuccessiveHalvingPruner.prune no longer records the rung value")
    for wn in writes_:
        for c in wn.calls():
            if isinstance(c.func, ast.Attribute) and c.func.attr == "set_trial_system_attr" and len(c.args) >= 3:
                vname = norm(c.args[2])

                def _nan(e, vname=vname):
                    if isinstance(e, ast.Call) and (dotted(e.func) or "") in ("math.isnan", "np.isnan", "numpy.isnan") and e.args and norm(e.args[0]) == vname:
                        return True
                    return None
                ok_edges = [(t, k, m) for t in gsh.stmt_nodes() if t.kind == "test" for k, m in t.succ if edges_where(t.expr, _nan).get(k) is False]
                ctx.check(bool(ok_edges) and gsh.dominated_by(wn, [], ok_edges), "R16.5", shp.short, "rung-value-recorded-is-not-nan",
                          message=f"SuccessiveHalvingPruner.prune stores `{vname}` as the trial's completed-rung value on a path that has not excluded NaN: later trials of "
                                  f"the rung sort that NaN into their competing values and compare against it (`value <= nan` is False), so a trial that is strictly better "
                                  f"than every reported value can be pruned",
                          how="the set_trial_system_attr(<rung key>, value) call is dominated by the False edge of math.isnan(value)", where=where(shp, c))
    ctx.rule("R16.4", "Hyperband: False while uninitialised, delegates to SuccessiveHalving built from its parameters; "
             "bracket id depends only on study name, trial number and configuration")
    hcls = p.cls(DELEGATING[0])
    f = hcls.methods["prune"]
    g = CFG(f.node, name=f.qualname)
    rets = [n for n in g.stmt_nodes() if n.kind == "stmt" and isinstance(n.ast, ast.Return) and not is_false_return(n)]
    ctx.require(rets, "R16.4: HyperbandPruner.prune has no delegation return")
    for r in rets:
        v = r.ast.value
        ok = isinstance(v, ast.Call) and isinstance(v.func, ast.Attribute) and v.func.attr == "prune" and norm(v.func.value) == "self._pruners[bracket_id]"
        ctx.check(ok, "R16.4", f.short, "delegates-to-bracket-pruner", message=f"Hyperband returns `{norm(v)[:60]}`", how="self._pruners[bracket_id].prune(..)")
        if ok:
            ctx.check(len(v.args) == 2 and norm(v.args[1]) == "trial" and norm(v.args[0]) == "bracket_study", "R16.4", f.short, "delegation-args",
                      message="delegation does not pass (bracket_study, trial)", how="arguments")

    def atom_uninit(e):
        a = cmp_atom(e)
        if a and a[0] == "len(self._pruners)" and a[2] == "0":
            return True if a[1] is ast.Eq else (False if a[1] in (ast.Gt, ast.NotEq) else None)
        return None
    # every delegation is dominated by an edge on which the pruners are initialised
    acc = []
    for t in g.stmt_nodes():
        if t.kind == "test":
            pol = edges_where(t.expr, atom_uninit)
            for k, m in t.succ:
                if pol.get(k) is False:
                    acc.append((t, k, m))
    ok = bool(acc) and all(g.dominated_by(r, [], acc) for r in rets)
    ctx.check(ok, "R16.4", f.short, "false-while-uninitialised",
              message="Hyperband can delegate (index self._pruners) while no bracket pruner exists", how="delegation dominated by `len(self._pruners) != 0`")
    bid = [n for n in g.stmt_nodes() if n.kind == "stmt" and isinstance(n.ast, ast.Assign) and norm(n.ast.targets[0]) == "bracket_id"]
    ctx.check(bool(bid) and all(norm(n.ast.value) == "self._get_bracket_id(study, trial)" for n in bid), "R16.4", f.short, "bracket-from-helper",
              message="bracket id is not computed by _get_bracket_id(study, trial)", how="single assignment")
    ti = hcls.methods.get("_try_initialization")
    ctx.require(ti is not None, "R16.4: _try_initialization vanished")
    # the bracket pruners are built in _try_initialization or in a helper it calls once per bracket
    ctors = [(m, c) for m in hcls.methods.values() for c in own_nodes(m.node) if isinstance(c, ast.Call) and dotted(c.func) == "SuccessiveHalvingPruner"]
    ctx.require(len(ctors) == 1, "R16.4: SuccessiveHalvingPruner construction not found (exactly one expected in HyperbandPruner)")
    cm, ctor0 = ctors[0]

    def bracket_loop_var(fn):
        """loop variables of `for <v> in range(self._n_brackets)` in the function"""
        return {n.target.id for n in own_nodes(fn.node) if isinstance(n, ast.For) and isinstance(n.target, ast.Name)
                and norm(n.iter) == "range(self._n_brackets)"}
    def is_bracket_id(a):
        if not isinstance(a, ast.Name):
            return False
        if a.id in bracket_loop_var(cm):
            return True
        if cm is not ti and a.id in cm.params():
            # helper: every call site in _try_initialization passes the bracket loop variable for that parameter
            idx = cm.params().index(a.id) - 1
            sites = [c for c in own_nodes(ti.node) if isinstance(c, ast.Call) and self_attr(c.func) == cm.name]
            return bool(sites) and all((kwarg(c, a.id, idx) is not None and isinstance(kwarg(c, a.id, idx), ast.Name)
                                        and kwarg(c, a.id, idx).id in bracket_loop_var(ti)) for c in sites)
        return False
    want = {"min_resource": "self._min_resource", "reduction_factor": "self._reduction_factor",
            "min_early_stopping_rate": None, "bootstrap_count": "self._bootstrap_count"}
    for k, v in want.items():
        a = kwarg(ctor0, k)
        ok = a is not None and (norm(a) == v if v is not None else is_bracket_id(a))
        ctx.check(ok, "R16.4", cm.short, f"bracket-pruner-arg:{k}",
                  message=f"bracket pruners are built with {k}={norm(a) if a is not None else None} instead of {v or 'the bracket index'}", how="constructor-argument provenance")
    f = hcls.methods.get("_get_bracket_id")
    ctx.require(f is not None, "R16.4: _get_bracket_id vanished")
    allowed_attrs = {"study.study_name", "trial.number", "self._pruners", "self._n_brackets", "self._total_trial_allocation_budget",
                     "self._trial_allocation_budgets"}
    pure_builtins = {"len", "range", "str", "int", "repr", "format", "abs", "min", "max", "sum", "enumerate", "zip", "bytes"}
    pure_str_methods = {"format", "encode", "join"}
    pure_module_funcs = {"binascii.crc32", "zlib.crc32"}
    locals_ = set(f.params())
    for x in own_nodes(f.node):
        if isinstance(x, ast.Name) and isinstance(x.ctx, ast.Store):
            locals_.add(x.id)
    bad = []
    for x in own_nodes(f.node):
        if isinstance(x, ast.Attribute) and isinstance(x.ctx, ast.Load):
            d = dotted(x)
            if d is None:
                continue
            root = d.split(".")[0]
            if root in ("self", "study", "trial"):
                if d not in allowed_attrs and not any(a.startswith(d + ".") for a in allowed_attrs):
                    bad.append(d)
        if isinstance(x, ast.Call):
            fn = x.func
            if isinstance(fn, ast.Name):
                if fn.id not in pure_builtins:
                    bad.append(fn.id + "()")
            elif isinstance(fn, ast.Attribute):
                d = dotted(fn)
                root = d.split(".")[0] if d else None
                if d in pure_module_funcs:
                    pass
                elif root in ("self", "study", "trial"):
                    bad.append(d + "()")  # a method call on the study / trial / pruner: not a pure read of name and number
                elif fn.attr in pure_str_methods and (root is None or root in locals_):
                    pass  # string building on a literal / f-string / local
                else:
                    bad.append(norm(fn)[:40] + "()")
            else:
                bad.append(norm(fn)[:40] + "()")
        if isinstance(x, ast.Name) and isinstance(x.ctx, ast.Load) and x.id not in locals_ and x.id not in pure_builtins \
                and x.id not in ("binascii", "zlib"):
            bad.append(x.id)
    ctx.check(not bad, "R16.4", f.short, "bracket-id-purity",
              message=f"_get_bracket_id reads {sorted(set(bad))}: the bracket of a trial would depend on more than study name, "
                      f"trial number and pruner configuration", how="backward slice: only study.study_name, trial.number and configuration fields")
    hashed = [c for c in own_nodes(f.node) if isinstance(c, ast.Call) and dotted(c.func) == "binascii.crc32"]
    hdefs = single_defs(f.node)
    ok = len(hashed) == 1 and "study.study_name" in norm(resolve(hashed[0], hdefs)) and "trial.number" in norm(resolve(hashed[0], hdefs))
    ctx.check(ok, "R16.4", f.short, "bracket-hash-input", message="crc32 input is not (study_name, trial.number)", how="crc32('{study_name}_{number}')")
    # configuration fields written only during (re)initialisation
    cfg_fields = {"_n_brackets", "_total_trial_allocation_budget", "_trial_allocation_budgets", "_pruners"}
    writers = set()
    from sa.util import field_accesses
    for m, mf in hcls.methods.items():
        for a in field_accesses(mf.node):
            if a.field in cfg_fields and a.kind in ("write", "mutate"):
                writers.add(m)
    ctx.check(writers <= {"__init__", "_try_initialization"}, "R16.4", hcls.module.relpath + "::" + hcls.name, "bracket-config-writers",
              message=f"bracket configuration is modified in {sorted(writers - {'__init__', '_try_initialization'})}", how="only __init__/_try_initialization write it")
    # _BracketStudy.get_trials filters with the same function
    bs = [fn for q, fn in p.funcs.items() if q.endswith("_BracketStudy.get_trials")]
    ok = False
    if bs:
        for x in own_nodes(bs[0].node):
            if isinstance(x, ast.Compare) and "_get_bracket_id" in norm(x) and "self._bracket_id" in norm(x) and isinstance(x.ops[0], ast.Eq):
                ok = True
    if not bs:
        # nested class inside a method: search the method body
        cb = hcls.methods.get("_create_bracket_study")
        ctx.require(cb is not None, "R16.4: _create_bracket_study vanished")
        for fn_ in [n for n in ast.walk(cb.node) if isinstance(n, ast.FunctionDef)]:
            fdefs_ = single_defs(fn_)
            for x in ast.walk(fn_):
                if isinstance(x, ast.Compare) and isinstance(x.ops[0], ast.Eq):
                    rx = norm(resolve(x, fdefs_))
                    if "_get_bracket_id" in rx and "self._bracket_id" in rx:
                        ok = True
    ctx.check(ok, "R16.4", hcls.module.relpath + "::HyperbandPruner._create_bracket_study", "bracket-study-filter",
              message="_BracketStudy.get_trials does not filter trials by `_get_bracket_id(self, t) == self._bracket_id`", how="same function used for membership")

    # ------------------------------------------------------------ census of pruner classes
    base = p.cls(PR + "_base.BasePruner")
    known = set(PROTECTIVE) | set(INHERITING) | set(NEVER) | set(DELEGATING)
    allp = [c for c in p.subclasses(base)]
    unlisted = [c.qualname for c in allp if c.qualname not in known and c.module.name.startswith("optuna.pruners")
                and not c.qualname.endswith("_BracketStudy")]
    ctx.note("pruners_outside_optuna.pruners_not_analysed", sorted(c.qualname for c in allp if not c.module.name.startswith("optuna.pruners")))
    ctx.note("pruner_classes", sorted(c.qualname for c in allp))
    ctx.check(not unlisted, "R16.1", "optuna/pruners", "all-pruners-in-table",
              message=f"pruner classes without a protective-parameter table entry: {unlisted}", how="every BasePruner subclass classified")
