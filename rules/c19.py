"""C19 - stale-trial recovery: compare-and-set and winner-only clauses."""
from __future__ import annotations

import ast

from rules import _cas, _retry
from sa.cfg import CFG, handler_names
from sa.expr import cmp_atom, edges_implying, edges_where, resolve, single_defs
from sa.loader import Program, dotted, norm, own_nodes
from sa.util import call_sites, kwarg, self_attr, where

PROPERTY = "C19"
HB = "optuna.storages._heartbeat"
CB = "optuna.storages._callbacks.RetryFailedTrialCallback"
RDB = "optuna.storages._rdb.storage.RDBStorage"
CACHED = "optuna.storages._cached_storage._CachedStorage"
NORMAL = lambda a, k, b: k not in ("e", "reraise", "match", "nomatch")  # noqa: E731


def run(ctx):
    p: Program = ctx.program
    ctx.explanation = (
        "At-most-once failure handling of stale trials rests on one compare-and-set: "
        "fail_stale_trials appends an id to the callback list only on the truthy result of "
        "set_trial_state_values(id, FAIL) for that id, tolerates UpdateFinishedTrialError for "
        "losers, hands a deep copy to the callback; the CAS itself (finished guard under a row "
        "lock) exists on every heartbeat-capable storage; the stale query is conservative "
        "(RUNNING, this study, has a heartbeat, strictly older than the grace period); the retry "
        "callback records history before the max_retry test and builds the WAITING trial from the "
        "failed one unchanged; optimize sweeps before ask. Decides these clauses on all paths; "
        "not DB-clock behaviour or worker death between CAS and callback.")
    ctx.assume("UpdateFinishedTrialError is what a storage raises for a finished trial (C01 R01.2)")

    f = p.func(HB + ".fail_stale_trials")
    g = CFG(f.node, name=f.qualname)
    # ------------------------------------------------------------ R19.1 / R19.2
    ctx.rule("R19.1", "failure callback only for compare-and-set winners; callback gets a deep copy")
    ctx.rule("R19.2", "losers tolerated: CAS call inside try/except UpdateFinishedTrialError that does not append")
    cas_calls = [(n, c) for n in g.stmt_nodes() for c in n.calls()
                 if isinstance(c.func, ast.Attribute) and c.func.attr == "set_trial_state_values"]
    ctx.require(len(cas_calls) >= 1, "R19.1: fail_stale_trials no longer calls set_trial_state_values")
    for n, c in cas_calls:
        st = kwarg(c, "state", 1)
        ctx.check(st is not None and norm(st).endswith("TrialState.FAIL"), "R19.1", f.short, "cas-state-is-FAIL",
                  message=f"stale trials are moved to `{norm(st) if st is not None else None}`, not FAIL", how="state=TrialState.FAIL")
    # callback loop iterable
    cb_loops = []
    for lp in [n for n in g.stmt_nodes() if n.kind == "iter"]:
        body_calls = [c for x in ast.walk(lp.ast) if isinstance(x, ast.Call) for c in [x] if isinstance(c.func, ast.Name) and "callback" in c.func.id]
        if body_calls:
            cb_loops.append((lp, body_calls))
    ctx.require(len(cb_loops) == 1, "R19.1: the failure-callback loop was not found")
    lp, cb_calls = cb_loops[0]
    it = lp.ast.iter
    ctx.require(isinstance(it, ast.Name), "R19.1: callback loop does not iterate a named list")
    lst = it.id
    appends = [(n, c) for n in g.stmt_nodes() for c in n.calls()
               if isinstance(c.func, ast.Attribute) and c.func.attr in ("append", "extend", "insert", "add") and norm(c.func.value) == lst]
    other_defs = [n for n in g.stmt_nodes() if n.kind == "stmt" and isinstance(n.ast, (ast.Assign, ast.AugAssign))
                  and any(isinstance(t, ast.Name) and t.id == lst for t in (n.ast.targets if isinstance(n.ast, ast.Assign) else [n.ast.target]))]
    empty_init = [n for n in other_defs if isinstance(n.ast, ast.Assign) and isinstance(n.ast.value, ast.List) and not n.ast.value.elts]
    ctx.check(len(other_defs) == len(empty_init) == 1, "R19.1", f.short, "winner-list-starts-empty",
              message=f"`{lst}` is not initialised to [] exactly once (ids could enter it without winning the CAS)", how="single `= []`")
    ctx.require(appends, "R19.1: nothing is ever appended to the winner list")
    for an, ac in appends:
        arg = ac.args[-1] if ac.args else None
        ok = False
        wit = None
        for cn, cc in cas_calls:
            same_id = arg is not None and cc.args and norm(cc.args[0]) == norm(arg)

            def atom(e, cc=cc):
                return True if e is cc else None
            acc = []
            for t in g.stmt_nodes():
                if t.kind == "test" and any(x is cc for x in ast.walk(t.expr)):
                    pol = edges_where(t.expr, atom)
                    for k, m in t.succ:
                        if pol.get(k) is True:
                            acc.append((t, k, m))
            # within one iteration of the sweep loop: the append is only reachable through the True edge
            heads = [h for h in g.stmt_nodes() if h.kind == "iter" and any(x is cc for x in ast.walk(h.ast))]
            if acc and same_id and heads:
                body0 = [m for k, m in heads[0].succ if k == "loop"]
                r = g.reachable(body0, avoid_nodes=[heads[0]], avoid_edges=acc)
                if an not in r:
                    ok = True
                else:
                    wit = g.witness([an], guards=[heads[0]], edges=acc, src=body0[0])
        ctx.check(ok, "R19.1", f.short, "append-only-for-cas-winner",
                  message=f"`{lst}.append({norm(arg) if arg is not None else ''})` is reachable without "
                          f"set_trial_state_values(<same id>, FAIL) having returned True: two sweeping workers would both "
                          f"run the failure callback (two retries for one failure)",
                  how="append dominated, within the sweep iteration, by the True edge of the CAS on the same id", witness=wit,
                  where=where(f, ac))
    # callback argument: deep copy of storage.get_trial(id) for the loop id
    for c in cb_calls:
        a = c.args[1] if len(c.args) > 1 else None
        defs = {}
        for st in ast.walk(lp.ast):
            if isinstance(st, ast.Assign) and len(st.targets) == 1 and isinstance(st.targets[0], ast.Name):
                defs[st.targets[0].id] = st.value
        v = resolve(a, defs) if a is not None else None
        lv = lp.ast.target.id if isinstance(lp.ast.target, ast.Name) else "?"
        ok = (isinstance(v, ast.Call) and dotted(v.func) == "copy.deepcopy" and v.args and isinstance(v.args[0], ast.Call)
              and isinstance(v.args[0].func, ast.Attribute) and v.args[0].func.attr == "get_trial"
              and v.args[0].args and norm(v.args[0].args[0]) == lv)
        ctx.check(ok, "R19.1", f.short, "callback-gets-deepcopy-of-failed-trial",
                  message=f"the failure callback receives `{norm(v) if v is not None else None}`", how="copy.deepcopy(storage.get_trial(<winner id>))")
        ctx.check(bool(c.args) and norm(c.args[0]) == "study", "R19.1", f.short, "callback-gets-study", message="callback first argument is not the study", how="study")
    # R19.2
    for n, c in cas_calls:
        etgt = [m for k, m in n.succ if k == "e"]
        ok = False
        if etgt and etgt[0].kind == "except":
            m = etgt[0]
            chain = [m]
            while True:
                nxt = [x for k, x in chain[-1].succ if k == "nomatch" and x.kind == "except"]
                if not nxt:
                    break
                chain.append(nxt[0])
            for mt in chain:
                if "UpdateFinishedTrialError" in handler_names(mt.ast.type):
                    body0 = [x for k, x in mt.succ if k == "match"]
                    heads = [h for h in g.stmt_nodes() if h.kind == "iter" and any(x is c for x in ast.walk(h.ast))]
                    r = g.reachable(body0, avoid_nodes=heads)
                    ok = not any(an in r for an, _ in appends) and g.raise_exit not in g.reachable(body0, avoid_nodes=heads, edge_ok=lambda a, k, b: k != "e")
                    # ... and the sweep goes on with the next stale id: the handler sits inside the per-id loop
                    cont = bool(heads) and heads[0] in g.reachable(body0, edge_ok=lambda a, k, b: k != "e")
                    ctx.check(cont, "R19.2", f.short, "sweep-continues-after-lost-race",
                              message="after losing the compare-and-set on one stale trial (UpdateFinishedTrialError) the sweep does not go on to the next id: the remaining "
                                      "stale trials this worker noticed stay RUNNING, with no callback and no retry",
                              how="the except arm leads back to the head of the per-id loop")
        ctx.check(ok, "R19.2", f.short, "loser-tolerated",
                  message="the CAS call is not wrapped by `except UpdateFinishedTrialError` (a worker losing the race would crash its "
                          "optimize loop) or the handler appends the id anyway",
                  how="exception edge reaches an UpdateFinishedTrialError arm that neither appends nor re-raises")
    # heartbeat gating
    tests = [t for t in g.stmt_nodes() if t.kind == "test"]
    gate = [t for t in tests if "is_heartbeat_enabled" in norm(t.expr) or "BaseHeartbeat" in norm(t.expr)]
    sweep = [n for n in g.stmt_nodes() for c in n.calls() if isinstance(c.func, ast.Attribute) and c.func.attr == "_get_stale_trial_ids"]
    ctx.check(len(gate) >= 2 and bool(sweep) and all(g.dominated_by(s, gate) for s in sweep), "R19.1", f.short, "sweep-gated-by-heartbeat",
              message="the sweep runs on storages without heartbeat support", how="isinstance/is_heartbeat_enabled tests dominate the stale query")
    for s in sweep:
        for c in s.calls():
            if isinstance(c.func, ast.Attribute) and c.func.attr == "_get_stale_trial_ids":
                ctx.check(bool(c.args) and norm(c.args[0]) == "study._study_id", "R19.1", f.short, "sweep-this-study",
                          message="stale ids are queried for another study", how="argument study._study_id")

    # ------------------------------------------------------------ R19.3 CAS exists
    ctx.rule("R19.3", "every heartbeat-capable storage fails a stale trial through a finished-guarded, row-locked state write")
    hb_base = p.cls(HB + ".BaseHeartbeat")
    st_base = p.cls("optuna.storages._base.BaseStorage")
    impls = [c for c in p.subclasses(hb_base) if st_base in p.mro(c) and c.module.name.startswith("optuna.storages")]
    ctx.floor("R19.3", "heartbeat_storages", len(impls), 2, exact=True)
    _cas.cas_rule(ctx, "R19.3", label="fail-cas")
    _cas.cas_rdb_atomic_rule(ctx, "R19.3", label="fail-cas")
    _cas.cas_dialect_rule(ctx, "R19.3", label="fail-cas")
    for c in impls:
        f2 = c.methods.get("set_trial_state_values")
        if f2 is None:
            continue
        if c.qualname == RDB:
            g2 = CFG(f2.node, name=f2.qualname)
            lock = [n for n in g2.stmt_nodes() for cc in n.calls() if (dotted(cc.func) or "").endswith("TrialModel.find_or_raise_by_id")
                    and isinstance(kwarg(cc, "for_update", 2), ast.Constant) and kwarg(cc, "for_update", 2).value is True]
            guard = [n for n in g2.stmt_nodes() for cc in n.calls() if self_attr(cc.func) == "check_trial_is_updatable"]
            wr = [n for n in g2.stmt_nodes() if n.kind == "stmt" and isinstance(n.ast, ast.Assign) and any(isinstance(t, ast.Attribute) and t.attr == "state" for t in n.ast.targets)]
            ok = bool(lock) and bool(guard) and all(g2.dominated_by(x, lock) for x in guard) and all(g2.dominated_by(w, guard) for w in wr)
            ctx.check(ok, "R19.3", f2.short, "row-lock-then-guard-then-write",
                      message="RDBStorage.set_trial_state_values does not lock the row, then check updatability, then write",
                      how="for_update fetch dominates the guard which dominates the write")
            # the guard reads the state of the locked row
            for n in guard:
                for cc in n.calls():
                    if self_attr(cc.func) == "check_trial_is_updatable":
                        ctx.check(len(cc.args) >= 2 and norm(cc.args[1]) == "trial.state", "R19.3", f2.short, "guard-reads-locked-row",
                                  message="the finished guard does not test the state of the locked row", how="argument trial.state")
        else:
            rets = [n for n in own_nodes(f2.node) if isinstance(n, ast.Return)]
            ok = len(rets) == 1 and isinstance(rets[0].value, ast.Call) and norm(rets[0].value.func) == "self._backend.set_trial_state_values"
            ctx.check(ok, "R19.3", f2.short, "pure-delegation", message=f"{c.name}.set_trial_state_values is not a pure delegation to the backend",
                      how="single return of the backend call")
    base_guard = p.func("optuna.storages._base.BaseStorage.check_trial_is_updatable")
    g2 = CFG(base_guard.node, name=base_guard.qualname)
    raises = [n for n in g2.stmt_nodes() if n.kind == "stmt" and isinstance(n.ast, ast.Raise) and "UpdateFinishedTrialError" in norm(n.ast)]

    def atom_fin(e):
        if isinstance(e, ast.Call) and isinstance(e.func, ast.Attribute) and e.func.attr == "is_finished" and norm(e.func.value) == "trial_state":
            return True
        return None
    acc = []
    for t in g2.stmt_nodes():
        if t.kind == "test":
            pol = edges_where(t.expr, atom_fin)
            for k, m in t.succ:
                if pol.get(k) is True:
                    acc.append((t, k, m))
    ok = bool(raises) and bool(acc) and all(g2.dominated_by(r, [], acc) for r in raises) and g2.exit not in g2.reachable([m for _, _, m in acc], edge_ok=NORMAL)
    ctx.check(ok, "R19.3", base_guard.short, "guard-raises-iff-finished",
              message="check_trial_is_updatable does not raise UpdateFinishedTrialError exactly for finished states",
              how="raise dominated by is_finished() True edge; that edge never reaches the normal exit")

    # ------------------------------------------------------------ R19.4 stale query
    ctx.rule("R19.4", "stale query is conservative: RUNNING, this study, has a heartbeat, age strictly greater than the grace period")
    f = p.lookup_method(p.cls(RDB), "_get_stale_trial_ids")
    ctx.require(f is not None, "R19.4: RDBStorage._get_stale_trial_ids vanished")
    g = CFG(f.node, name=f.qualname)
    defs = single_defs(f.node)
    filters = [norm(c.args[0]) for c in own_nodes(f.node) if isinstance(c, ast.Call) and isinstance(c.func, ast.Attribute) and c.func.attr == "filter" and c.args]
    ctx.check(any(x.endswith("TrialModel.state == TrialState.RUNNING") for x in filters), "R19.4", f.short, "filter-running",
              message=f"stale query does not restrict to RUNNING trials (filters: {filters})", how=".filter(state == RUNNING)")
    ctx.check(any(x.endswith("TrialModel.study_id == study_id") for x in filters), "R19.4", f.short, "filter-study",
              message="stale query does not restrict to the given study", how=".filter(study_id == study_id)")
    apps = [n for n in g.stmt_nodes() for c in n.calls() if isinstance(c.func, ast.Attribute) and c.func.attr == "append" and norm(c.func.value) == "stale_trial_ids"]
    if not apps:
        # the selection may have been pushed into SQL: then the selected column must be a *trial* id and the age
        # condition a strict comparison in the filter (trials without a heartbeat drop out of the inner join)
        qcols = [c.args[0] for c in own_nodes(f.node) if isinstance(c, ast.Call) and isinstance(c.func, ast.Attribute) and c.func.attr == "query" and c.args]
        id_cols = [q for q in qcols if isinstance(q, ast.Attribute) and q.attr.endswith("_id")]
        ctx.require(id_cols, "R19.4: result append not found and no id column is selected in SQL")
        for q in id_cols:
            ctx.check(q.attr == "trial_id", "R19.4", f.short, "returns-trial-ids",
                      message=f"the stale query selects `{norm(q)}`: what it returns are not trial ids, so a different trial than the stale one is failed and retried "
                              f"(the two id sequences only coincide while every trial records its first heartbeat in creation order)",
                      how="the selected id column is <Model>.trial_id", where=where(f, q))
        strict = any("heartbeat" in x and "grace_period" in x and (" < " in x or " > " in x) and "<=" not in x and ">=" not in x for x in filters)
        ctx.check(strict, "R19.4", f.short, "strictly-older-than-grace", message="the SQL age condition is missing or not strict", how="heartbeat < now - grace (strict)")
        return _c19_tail(ctx, p)
    heads = [h for h in g.stmt_nodes() if h.kind == "iter"]
    ctx.require(len(heads) == 1, "R19.4: expected one loop over running trials")
    body0 = [m for k, m in heads[0].succ if k == "loop"]

    def atom_nohb(e):
        a = cmp_atom(e)
        if a and a[0].startswith("len(") and a[0].endswith(".heartbeats)") and a[2] == "0":
            return True if a[1] is ast.Eq else (False if a[1] in (ast.Gt, ast.NotEq) else None)
        return None

    def atom_old(e):
        a = cmp_atom(e)
        if a and "timedelta" in a[2] and "grace_period" in a[2] and "current_heartbeat" in a[0] and " - " in a[0]:
            if a[1] is ast.Gt:
                return True
            if a[1] is ast.LtE:
                return False
        return None
    for atom, want, detail, msg in ((atom_nohb, False, "needs-heartbeat", "a RUNNING trial without any recorded heartbeat can be reported stale"),
                                    (atom_old, True, "strictly-older-than-grace", "a trial whose heartbeat age does not strictly exceed the grace period can be reported stale")):
        acc = []
        for t in g.stmt_nodes():
            if t.kind == "test":
                pol = edges_where(t.expr, atom)
                for k, m in t.succ:
                    if pol.get(k) is want:
                        acc.append((t, k, m))
        r = g.reachable(body0, avoid_nodes=heads, avoid_edges=acc)
        ctx.check(bool(acc) and not any(a in r for a in apps), "R19.4", f.short, detail, message=msg,
                  how="append unreachable within an iteration once the accepting edge is removed")
    # grace period default and the age is (now - this trial's heartbeat)
    gp = [n for n in own_nodes(f.node) if isinstance(n, ast.Assign) and any(isinstance(t, ast.Name) and t.id == "grace_period" for t in n.targets)]
    vals = sorted(norm(n.value) for n in gp)
    ctx.check(vals == ["2 * self.heartbeat_interval", "self.grace_period"], "R19.4", f.short, "grace-period-default",
              message=f"grace period is computed as {vals}", how="self.grace_period or 2 * heartbeat_interval")
    for a in apps:
        for c in a.calls():
            if isinstance(c.func, ast.Attribute) and c.func.attr == "append":
                lv = heads[0].ast.target.id if isinstance(heads[0].ast.target, ast.Name) else "?"
                ctx.check(norm(c.args[0]) == f"{lv}.trial_id", "R19.4", f.short, "appends-this-trial", message="appends a different id", how="loop trial's id")
    return _c19_tail(ctx, p)


def _db_clock(e) -> bool:
    """`session.execute(sqlalchemy.func.now()).scalar()` / `func.current_timestamp()`: a reading of the database server's clock."""
    for x in ast.walk(e):
        if isinstance(x, ast.Call) and (dotted(x.func) or "").split(".")[-2:] in (["func", "now"], ["func", "current_timestamp"]):
            return True
    return False


def _r19_7(ctx, p):
    ctx.rule("R19.7", "one clock: a heartbeat's age is the difference of two readings of the database clock - every stored heartbeat value and the "
             "`now` of the stale query come from func.now()/func.current_timestamp(), never from a worker's own clock or time zone")
    f = p.lookup_method(p.cls(RDB), "_get_stale_trial_ids")
    defs = single_defs(f.node)
    n_src = 0
    # (a) the minuend of the age
    mins = set()
    for x in own_nodes(f.node):
        if isinstance(x, ast.Compare):
            for side in [x.left] + x.comparators:
                side = resolve(side, defs, depth=2)
                if isinstance(side, ast.BinOp) and isinstance(side.op, ast.Sub) and any("heartbeat" in norm(y) for y in (side.left, side.right)):
                    if isinstance(side.left, ast.Name):
                        mins.add(side.left.id)
    in_sql = not mins
    for v in sorted(mins):
        asg = [n.value for n in own_nodes(f.node) if isinstance(n, ast.Assign) and any(isinstance(t, ast.Name) and t.id == v for t in n.targets)]
        n_src += len(asg)
        bad = [a for a in asg if not (_db_clock(a) or (isinstance(a, ast.Call) and isinstance(a.func, ast.Attribute) and a.func.attr == "replace"
                                                    and norm(a.func.value) == v))]
        ctx.check(bool(asg) and not bad, "R19.7", f.short, "now-is-the-database-clock",
                  message=f"the stale query measures age from `{norm(bad[0]) if bad else '?'}`: heartbeats are stamped by the database server, so a worker whose "
                          f"clock or time zone differs from the server's sees fresh heartbeats as stale (live trials are failed and retried) or stale ones as fresh",
                  how="every assignment of the minuend is session.execute(func.now()).scalar() (or its tz-stripped self)")
    if in_sql:
        filters = [c.args[0] for c in own_nodes(f.node) if isinstance(c, ast.Call) and isinstance(c.func, ast.Attribute) and c.func.attr == "filter" and c.args
                   and "heartbeat" in norm(c.args[0]) and "grace" in norm(c.args[0])]
        for flt in filters:
            n_src += 1
            ctx.check(_db_clock(resolve(flt, defs, depth=3)), "R19.7", f.short, "now-is-the-database-clock",
                      message=f"the SQL age condition `{norm(flt)[:80]}` does not read the database clock", how="func.now() inside the filter")
    # (b) stored heartbeat values
    col = None
    hb = p.cls("optuna.storages._rdb.models.TrialHeartbeatModel")
    ctx.require(hb is not None, "R19.7: TrialHeartbeatModel vanished")
    for st in hb.node.body:
        if isinstance(st, ast.Assign) and any(isinstance(t, ast.Name) and t.id == "heartbeat" for t in st.targets):
            col = st.value
    ctx.require(isinstance(col, ast.Call), "R19.7: heartbeat column definition vanished")
    dflt = next((k.value for k in col.keywords if k.arg in ("default", "server_default")), None)
    n_src += 1
    ctx.check(dflt is not None and _db_clock(dflt), "R19.7", "optuna/storages/_rdb/models.py::TrialHeartbeatModel", "first-beat-from-database-clock",
              message=f"the heartbeat column's default is `{norm(dflt) if dflt is not None else None}`, not the database's current timestamp",
              how="default=func.current_timestamp()")
    for fn in p.iter_funcs(("optuna.storages._rdb",)):
        fdefs = None
        for x in own_nodes(fn.node):
            val = None
            if isinstance(x, ast.Assign) and any(isinstance(t, ast.Attribute) and t.attr == "heartbeat" for t in x.targets):
                val = x.value
            elif isinstance(x, ast.Call) and (dotted(x.func) or "").endswith("TrialHeartbeatModel"):
                val = next((k.value for k in x.keywords if k.arg == "heartbeat"), None)
            if val is None:
                continue
            n_src += 1
            fdefs = fdefs if fdefs is not None else single_defs(fn.node)
            ctx.check(_db_clock(resolve(val, fdefs, depth=3)), "R19.7", fn.short, "beat-stamped-by-database-clock",
                      message=f"{fn.name} stores the heartbeat `{norm(val)[:60]}`: a time read on the worker, while the stale query compares against the database "
                              f"server's clock - with a clock or time-zone offset between the two a beating trial is failed and retried by the next sweep "
                              f"(or a dead one is never recovered)", how="stored value is session.execute(func.now()).scalar()", where=where(fn, x))
    ctx.floor("R19.7", "clock_sources", n_src, 4)


def _c19_tail(ctx, p):
    _r19_7(ctx, p)
    # ------------------------------------------------------------ R19.5 retry construction
    ctx.rule("R19.5", "RetryFailedTrialCallback: history appended before the max_retry test; add_trial dominated by it; "
             "WAITING trial built from the failed trial unchanged")
    cb = p.cls(CB)
    f = cb.methods.get("__call__")
    ctx.require(f is not None, "R19.5: RetryFailedTrialCallback.__call__ vanished")
    g = CFG(f.node, name=f.qualname)
    app = [n for n in g.stmt_nodes() for c in n.calls() if isinstance(c.func, ast.Attribute) and c.func.attr == "append" and "retry_history" in norm(c.func.value)
           and c.args and norm(c.args[0]) == "trial.number"]
    tests = [t for t in g.stmt_nodes() if t.kind == "test" and "_max_retry" in norm(t.expr) and "len(" in norm(t.expr)]
    add = [n for n in g.stmt_nodes() for c in n.calls() if isinstance(c.func, ast.Attribute) and c.func.attr == "add_trial"]
    ctx.require(add, "R19.5: add_trial call vanished")
    ctx.check(bool(app) and bool(tests) and all(g.dominated_by(t, app) for t in tests), "R19.5", f.short, "history-before-limit-test",
              message="the failed trial's number is not appended to retry_history before the max_retry test (off-by-one: one retry too many)",
              how="append dominates the test")

    fdefs = single_defs(f.node)

    def classify(e):
        a = cmp_atom(resolve(e, fdefs)) if isinstance(e, ast.Compare) else None
        if a is None:
            return None
        l, op, r = a
        if l == "self._max_retry" and r == "None" and op in (ast.Is, ast.IsNot, ast.Eq, ast.NotEq):
            return ("none", op in (ast.Is, ast.Eq))
        hist_l = "len(" in l and "retry_history" in l
        hist_r = "len(" in r and "retry_history" in r
        if l == "self._max_retry" and hist_r:
            if op in (ast.Lt, ast.GtE):
                return ("exceeded", op is ast.Lt)
        if r == "self._max_retry" and hist_l:
            if op in (ast.Gt, ast.LtE):
                return ("exceeded", op is ast.Gt)
        return None
    # an edge is accepted when taking it implies "no limit configured, or the limit is not exceeded"
    acc = []
    none_edges = []
    for t in g.stmt_nodes():
        if t.kind == "test":
            for k in edges_implying(t.expr, classify, ["none", "exceeded"], lambda asg: asg["none"] or not asg["exceeded"]):
                for kk, m in t.succ:
                    if kk == k:
                        acc.append((t, k, m))
    ok = bool(acc) and all(g.dominated_by(n, [], acc + none_edges) for n in add)
    ctx.check(ok, "R19.5", f.short, "retry-bounded-by-max_retry",
              message="add_trial is reachable although len(retry_history) exceeds max_retry (or the comparison is not `max_retry < len(history)`)",
              how="add_trial dominated by the not-exceeded edge (or max_retry is None)")
    cts = [c for c in own_nodes(f.node) if isinstance(c, ast.Call) and (dotted(c.func) or "").endswith("create_trial")]
    ctx.require(len(cts) == 1, "R19.5: create_trial call not found")
    c = cts[0]
    want = {"state": lambda v: norm(v).endswith("TrialState.WAITING"), "params": lambda v: norm(v) == "trial.params",
            "distributions": lambda v: norm(v) == "trial.distributions", "user_attrs": lambda v: norm(v) == "trial.user_attrs",
            "system_attrs": lambda v: norm(v) == "system_attrs"}
    for k, pred in want.items():
        v = kwarg(c, k)
        ctx.check(v is not None and pred(v), "R19.5", f.short, f"retry-field:{k}",
                  message=f"the retry trial is created with {k}={norm(v) if v is not None else None}", how="taken unchanged from the failed trial")
    vals = {k.arg for k in c.keywords if k.arg in ("value", "values")}
    ctx.check(not vals, "R19.5", f.short, "retry-has-no-values", message="retry trial created with objective values", how="no value(s) keyword")
    # system_attrs dict: failed_trial default, retry_history default, then **trial.system_attrs
    sd = [n for n in own_nodes(f.node) if isinstance(n, (ast.Assign, ast.AnnAssign)) and isinstance(getattr(n, "value", None), ast.Dict)
          and norm(n.targets[0] if isinstance(n, ast.Assign) else n.target) == "system_attrs"]
    ok = False
    if sd:
        d = sd[0].value
        keys = [(k.value if isinstance(k, ast.Constant) else None) for k in d.keys]
        vals_ = [norm(v) for v in d.values]
        ok = keys == ["failed_trial", "retry_history", None] and vals_ == ["trial.number", "[]", "trial.system_attrs"]
    ctx.check(ok, "R19.5", f.short, "retry-system-attrs",
              message="system_attrs of the retry is not {'failed_trial': trial.number, 'retry_history': [], **trial.system_attrs} "
                      "(spread last, so the first failure's number and the accumulated history are kept)",
              how="dict display with the spread after the defaults")

    _retry.retry_keeps_queue_entry(ctx, "R19.5")

    # ------------------------------------------------------------ R19.6 sweep before ask
    ctx.rule("R19.6", "optimize sweeps stale trials before every ask; Study.ask does not sweep")
    f = p.func("optuna.study._optimize._run_trial")
    g = CFG(f.node, name=f.qualname)
    sw = [n for n in g.stmt_nodes() for c in n.calls() if (dotted(c.func) or "").endswith("fail_stale_trials")]
    ask = [n for n in g.stmt_nodes() for c in n.calls() if norm(c.func) == "study.ask"]
    gate = [t for t in g.stmt_nodes() if t.kind == "test" and "is_heartbeat_enabled" in norm(t.expr)]
    ctx.require(ask, "R19.6: _run_trial no longer calls study.ask()")
    ok = bool(sw) and bool(gate)
    if ok:
        true_edges = [(t, k, m) for t in gate for k, m in t.succ if k == "t"]
        false_edges = [(t, k, m) for t in gate for k, m in t.succ if k == "f"]
        # on the heartbeat-enabled edge the sweep precedes ask
        r = g.reachable([m for _, _, m in true_edges], avoid_nodes=sw)
        ok = not any(a in r for a in ask) and all(g.dominated_by(a, gate) for a in ask)
    ctx.check(ok, "R19.6", f.short, "sweep-dominates-ask",
              message="_run_trial can call study.ask() on a heartbeat-enabled storage without having swept stale trials first",
              how="on the is_heartbeat_enabled True edge fail_stale_trials precedes ask")
    askf = p.func("optuna.study.study.Study.ask")
    ctx.check(not any(isinstance(c, ast.Call) and (dotted(c.func) or "").endswith("fail_stale_trials") for c in own_nodes(askf.node)),
              "R19.6", askf.short, "ask-does-not-sweep", message="Study.ask sweeps stale trials itself (double sweep per trial)", how="no call", nontrivial=False)
