"""C20 - copy / replace-on-write discipline (objects read from a study are snapshots)."""
from __future__ import annotations

import ast

from sa import alias as A
from sa.alias import CLEAN, SHALLOW, SHARED, LEVEL_NAME
from sa.cfg import CFG
from sa.loader import AnalysisError, Program, dotted, norm, own_nodes
from sa.util import init_fields, kwarg, self_attr, where

PROPERTY = "C20"

INMEM = "optuna.storages._in_memory.InMemoryStorage"
REPLAY = "optuna.storages.journal._storage.JournalStorageReplayResult"
JOURNAL = "optuna.storages.journal._storage.JournalStorage"
CACHED = "optuna.storages._cached_storage._CachedStorage"
GRPC = "optuna.storages._grpc.client.GrpcStorageProxy"
GRPC_CACHE = "optuna.storages._grpc.client.GrpcClientCache"
RDB = "optuna.storages._rdb.storage.RDBStorage"
STUDY = "optuna.study.study.Study"

TRIAL_CONTAINERS = {"trials", "_trials"}


def _is_trial_container(e: ast.AST) -> bool:
    return isinstance(e, ast.Attribute) and e.attr in TRIAL_CONTAINERS


# ------------------------------------------------------------------------------------------------
class StoragePolicy(A.Policy):
    """Inside a storage class: elements of trial containers and results of get_trial helpers
    are shared; storing a local into a trial container publishes it."""

    def __init__(self, container_level=SHALLOW, consts=None, summaries=None):
        self.container_level = container_level
        self.consts = consts or {}
        self.summaries = summaries  # callable(call) -> level | None

    def source_level(self, e, ev):
        if _is_trial_container(e):
            return self.container_level
        if isinstance(e, ast.Subscript) and _is_trial_container(e.value):
            if isinstance(e.slice, ast.Slice):
                return SHALLOW  # a slice is a new list of shared elements
            return SHARED
        if isinstance(e, ast.Call) and isinstance(e.func, ast.Attribute):
            f = e.func
            if f.attr in ("_get_trial", "get_trial", "_get_cached_trial") and dotted(f.value) == "self":
                return SHARED
            if _is_trial_container(f.value):
                if f.attr in ("get", "pop", "__getitem__", "setdefault"):
                    return SHARED
                if f.attr in ("values", "items"):
                    return SHALLOW
            if self.summaries is not None:
                s = self.summaries(e)
                if s is not None:
                    return s
        return None

    def is_publish(self, x):
        out = []
        if isinstance(x, ast.Call) and isinstance(x.func, ast.Attribute):
            if self_attr(x.func) == "_set_trial" and len(x.args) >= 2:
                out.append(x.args[1])
            if x.func.attr in ("append", "insert", "add") and _is_trial_container(x.func.value) and x.args:
                out.append(x.args[-1])
        if isinstance(x, ast.Assign):
            for t in x.targets:
                if isinstance(t, ast.Subscript) and _is_trial_container(t.value):
                    out.append(x.value)
        return [o for o in out if isinstance(o, (ast.Name, ast.Attribute))]


def check_storage_class(ctx, rule, cls, min_mut, label):
    p = ctx.program
    pol = StoragePolicy()
    n_mut = 0
    n_pub = 0
    for mname, f in sorted(cls.methods.items()):
        g = CFG(f.node, name=f.qualname)
        pre = A.analyse(g, pol)
        for n in g.stmt_nodes():
            for x in n.walk():
                n_pub += len(pol.is_publish(x))
        for m in A.mutations(g, pre, pol):
            base_txt = norm(m.base)
            if base_txt == "self" or base_txt.startswith("self.__dict__"):
                continue
            n_mut += 1
            ctx.check(m.level != SHARED, rule, f.short, f"{m.kind}:{base_txt}",
                      message=(f"{cls.name}.{mname}: `{norm(m.stmt)[:80]}` mutates `{base_txt}`, an object "
                               f"owned by the storage that readers may hold (must be replaced by a "
                               f"fresh copy, never changed in place)"),
                      how=f"base is {LEVEL_NAME[m.level]} at this point (copy / rebinding on every path)",
                      where=where(f, m.stmt), nontrivial=(m.level == SHALLOW or "." in base_txt))
    ctx.floor(rule, f"mutation_sites[{label}]", n_mut, min_mut)
    return n_mut, n_pub


# ------------------------------------------------------------------------------------------------
STORAGE_RECV = {"storage", "_storage", "_backend"}
OBJ_GETTERS = {"get_trial", "get_best_trial", "get_study_user_attrs", "get_study_system_attrs",
               "get_study_directions"}
LIST_GETTERS = {"get_all_trials", "_get_trials", "get_trials"}


class ClientPolicy(A.Policy):
    """Code that uses a storage/study: results of storage getters are shared unless deep-copied."""

    def __init__(self, fields=None, consts=None, in_study_class=False):
        self.fields = fields or {}
        self.consts = consts or {}
        self.in_study_class = in_study_class
        self.sources_seen = 0

    def _recv_is_storage(self, recv: ast.AST) -> bool:
        d = dotted(recv)
        return d is not None and d.split(".")[-1] in STORAGE_RECV

    def _recv_is_study(self, recv: ast.AST) -> bool:
        d = dotted(recv)
        if d is None:
            return False
        last = d.split(".")[-1]
        return last in ("study", "_study") or (self.in_study_class and d == "self")

    def source_level(self, e, ev):
        if isinstance(e, ast.Call) and isinstance(e.func, ast.Attribute):
            f = e.func
            if f.attr in OBJ_GETTERS and self._recv_is_storage(f.value):
                self.sources_seen += 1
                return SHARED
            if f.attr in LIST_GETTERS and (self._recv_is_storage(f.value) or self._recv_is_study(f.value)):
                pos = {"get_all_trials": 1, "_get_trials": 0, "get_trials": 0}[f.attr]
                if f.attr == "_get_trials" and self._recv_is_storage(f.value):
                    return SHALLOW  # RDB internal fetch: fresh list of fresh objects, conservative
                dc = kwarg(e, "deepcopy", pos)
                self.sources_seen += 1
                if dc is None:
                    return CLEAN  # default deepcopy=True
                t = A.truth_under(dc, self.consts)
                if t is True:
                    return CLEAN
                return SHALLOW
        return None

    def field_level(self, path):
        return self.fields.get(path)


def client_field_levels(ctx, cls, in_study_class) -> dict[str, int]:
    """Class-wide level of every `self.<path>` (max over all assignments in all methods)."""
    fields: dict[str, int] = {}
    for _ in range(2):
        pol = ClientPolicy(fields, in_study_class=in_study_class)
        new = dict(fields)
        for mname, f in cls.methods.items():
            g = CFG(f.node, name=f.qualname)
            pre = A.analyse(g, pol)
            for n in g.stmt_nodes():
                if n.kind == "stmt" and isinstance(n.ast, (ast.Assign, ast.AnnAssign)) and n in pre:
                    tg = n.ast.targets if isinstance(n.ast, ast.Assign) else [n.ast.target]
                    val = n.ast.value
                    if val is None:
                        continue
                    lvl = A.Evaluator(pre[n], pol).level(val)
                    for t in tg:
                        pth = dotted(t)
                        if pth and pth.startswith("self."):
                            new[pth] = max(new.get(pth, CLEAN), lvl)
        fields = new
    return fields


def trial_properties_return_copies(ctx, rule):
    """Every public property of Trial that hands out a container (params, distributions, user_attrs, system_attrs) returns a deep copy of what the
    Trial keeps: the private frozen-trial cache is what a repeated suggest_* answers from and what report() / set_user_attr() extend, so a caller
    editing the returned dict would change the value a later suggest of the same name returns (shared by C20 R20.9 and C10 R10.9)."""
    p = ctx.program
    tr = p.cls("optuna.trial._trial.Trial")
    ctx.require(tr is not None, f"{rule}: Trial vanished")
    summaries = {}

    class _Pol(ClientPolicy):
        def source_level(self, e, ev):
            if isinstance(e, ast.Call) and self_attr(e.func) in tr.methods and self_attr(e.func) not in ("_suggest",):
                m = self_attr(e.func)
                if m not in summaries:
                    summaries[m] = CLEAN  # recursion guard
                    fm = tr.methods[m]
                    gm = CFG(fm.node, name=fm.qualname)
                    prem = A.analyse(gm, self)
                    lv = CLEAN
                    for n_ in gm.stmt_nodes():
                        if n_.kind == "stmt" and isinstance(n_.ast, ast.Return) and n_.ast.value is not None and n_ in prem:
                            lv = max(lv, A.Evaluator(prem[n_], self).level(n_.ast.value))
                    summaries[m] = lv
                return summaries[m] if summaries[m] != CLEAN else None
            return super().source_level(e, ev)
    pol = _Pol(fields={"self._cached_frozen_trial": SHARED}, in_study_class=False)
    n_props = 0
    for name, f in sorted(tr.methods.items()):
        if name.startswith("_") or "property" not in " ".join(f.decorators()) or f.node.returns is None:
            continue
        if not norm(f.node.returns).startswith(("dict", "list", "Dict", "List")):
            continue
        n_props += 1
        g = CFG(f.node, name=f.qualname)
        pre = A.analyse(g, pol)
        for n in g.stmt_nodes():
            if n.kind == "stmt" and isinstance(n.ast, ast.Return) and n.ast.value is not None:
                lvl = A.Evaluator(pre.get(n, {}), pol).level(n.ast.value)
                ctx.check(lvl == CLEAN, rule, f.short, "trial-property-returns-copy",
                          message=f"Trial.{name} returns `{norm(n.ast.value)[:60]}` ({LEVEL_NAME[lvl]}): a container of the Trial's private cache (or of a shallow copy of it). "
                                  f"A caller that edits the returned dict changes what a later suggest_* of the same name returns and what the trial reports as its "
                                  f"parameters, while the storage keeps the value that was stored",
                          how="copy.deepcopy(self._cached_frozen_trial.<field>)", where=where(f, n.ast))
    ctx.floor(rule, "trial_container_properties", n_props, 4)


def check_client_function(ctx, rule, f, pol, counters, init=None):
    g = CFG(f.node, name=f.qualname)
    pre = A.analyse(g, pol, init)
    for m in A.mutations(g, pre, pol):
        counters["mutations"] += 1
        if m.level == SHARED:
            base_txt = norm(m.base)
            ctx.fail(rule, f.short, f"{m.kind}:{base_txt}",
                     f"{f.name}: `{norm(m.stmt)[:80]}` mutates `{base_txt}`, which was obtained from a "
                     f"storage getter without copy.deepcopy - on in-memory and journal storages this is "
                     f"the storage's own object, so previously read trials/attrs change",
                     where=where(f, m.stmt))
            counters["bad"] += 1


FIXTURE_CLIENT = '''
import copy
class Trial:
    def __init__(self, study, trial_id):
        self.storage = study._storage
        self._trial_id = trial_id
        self._cached_frozen_trial = self.storage.get_trial(self._trial_id)
    def set_user_attr(self, key, value):
        self.storage.set_trial_user_attr(self._trial_id, key, value)
        self._cached_frozen_trial.user_attrs[key] = value
def tweak(study):
    for t in study.get_trials(deepcopy=False):
        t.params["x"] = 0
def fine(study):
    t = copy.deepcopy(study._storage.get_trial(0))
    t.user_attrs["a"] = 1
'''


def run(ctx):
    p: Program = ctx.program
    ctx.explanation = (
        "Copy discipline that makes objects read from a study snapshots: storages replace "
        "trial objects instead of mutating them (freshness typestate as a forward dataflow: "
        "SHARED / SHALLOW / CLEAN levels per local and per attribute path, publish makes an "
        "object SHARED), get_all_trials honours deepcopy=True and returns a fresh list for "
        "deepcopy=False in every backend, the Study API returns deep copies wherever a backend "
        "hands out its own objects, and no client code (trial, study, samplers, pruners, "
        "heartbeat, callbacks) mutates a reference obtained from a storage getter without a "
        "deep copy. Decides absence of in-place mutation of objects a reader may hold; does not "
        "decide user code mutating deepcopy=False results, nor study-attribute dict aliasing "
        "below the Study API (in-memory/journal update those dicts in place by design).")
    ctx.assume("copy.deepcopy yields an object graph disjoint from its argument; copy.copy a new "
               "top-level object sharing its fields")
    ctx.assume("results of unknown (non-getter) calls are treated as private; receivers named "
               "storage/_storage/_backend are storages, study/_study are studies")

    # ------------------------------------------------------------- R20.1 replace-on-write
    ctx.rule("R20.1", "InMemoryStorage / JournalStorageReplayResult: every attribute store, item "
             "store or mutating call has a base that is not SHARED (element of a trial container, "
             "get_trial result, published object)")
    check_storage_class(ctx, "R20.1", p.cls(INMEM), 25, "InMemoryStorage")
    check_storage_class(ctx, "R20.1", p.cls(REPLAY), 20, "JournalStorageReplayResult")
    # setters really do copy: count of copy.copy-based replacements per class (instance floor)
    for q, minimum in ((INMEM, 6), (REPLAY, 5)):
        c = p.cls(q)
        n_setters = 0
        for mname, f in c.methods.items():
            pub = any(StoragePolicy().is_publish(x) for x in own_nodes(f.node))
            if pub:
                n_setters += 1
        ctx.floor("R20.1", f"publishing methods[{c.name}]", n_setters, minimum)

    # ------------------------------------------------------------- R20.6 cache layers
    ctx.rule("R20.6", "_CachedStorage / GrpcClientCache only rebind map entries; cached trial "
             "objects are never mutated")
    check_storage_class(ctx, "R20.6", p.cls(CACHED), 8, "_CachedStorage")
    check_storage_class(ctx, "R20.6", p.cls(GRPC_CACHE), 4, "GrpcClientCache")

    # ------------------------------------------------------------- R20.2 / R20.3 get_all_trials
    ctx.rule("R20.2", "deep copies at the Study API and get_all_trials(deepcopy=True) in every "
             "backend (function specialised for deepcopy=True: every return is CLEAN)")
    ctx.rule("R20.3", "get_all_trials(deepcopy=False) never returns a storage-owned list "
             "(specialised for deepcopy=False: returned reference is not SHARED)")
    attr_types = {}

    def resolve_callee(cls, call):
        """self.m(..) / self.<attr>.m(..) -> Func in the repo (attr type from __init__)."""
        f = call.func
        if not isinstance(f, ast.Attribute):
            return None, None
        recv = dotted(f.value)
        if recv == "self":
            m = p.lookup_method(cls, f.attr)
            return (cls, m) if m else (None, None)
        if recv and recv.startswith("self.") and recv.count(".") == 1:
            fld = recv.split(".")[1]
            key = (cls.qualname, fld)
            if key not in attr_types:
                t = None
                for k in p.mro(cls):
                    v = init_fields(k).get(fld)
                    if isinstance(v, ast.Call):
                        t = p.resolve_class(k.module, dotted(v.func) or "")
                    if t is None and "__init__" in k.methods:
                        # annotation of the constructor parameter assigned to the field
                        init = k.methods["__init__"]
                        if isinstance(v, ast.Name):
                            for a in init.node.args.args + init.node.args.kwonlyargs:
                                if a.arg == v.id and a.annotation is not None:
                                    t = p.resolve_class(k.module, dotted(a.annotation) or "")
                    if t is not None:
                        break
                attr_types[key] = t
            t = attr_types[key]
            if t is not None:
                m = p.lookup_method(t, f.attr)
                return (t, m) if m else (None, None)
        return None, None

    memo = {}

    def return_level(cls, f, consts, container_level, depth=0):
        key = (f.qualname, tuple(sorted(consts.items())), container_level)
        if key in memo:
            return memo[key]
        memo[key] = CLEAN
        if depth > 3:
            return CLEAN

        def summaries(call):
            c2, m2 = resolve_callee(cls, call)
            if m2 is None or m2 is f:
                return None
            if m2.name in ("_get_trial", "get_trial", "_get_cached_trial"):
                return None
            sub_consts = {}
            dc = kwarg(call, "deepcopy", 1 if m2.name == "get_all_trials" else None)
            if dc is not None:
                t = A.truth_under(dc, consts)
                if t is not None:
                    sub_consts["deepcopy"] = t
            return return_level(c2, m2, sub_consts, container_level, depth + 1)

        pol = StoragePolicy(container_level=container_level, consts=consts, summaries=summaries)
        g = CFG(f.node, name=f.qualname)
        pre = A.analyse(g, pol)
        lvl = CLEAN
        for n in g.stmt_nodes():
            if n.kind == "stmt" and isinstance(n.ast, ast.Return) and n.ast.value is not None and n in pre:
                lvl = max(lvl, A.Evaluator(pre[n], pol).level(n.ast.value))
        memo[key] = lvl
        return lvl

    base = p.cls("optuna.storages._base.BaseStorage")
    impls = [c for c in p.subclasses(base) if "get_all_trials" in c.methods]
    if ctx.tier == "quick":
        impls = [c for c in impls if c.module.name.startswith("optuna.storages")]
    ctx.floor("R20.2", "get_all_trials_impls", len(impls), 5, exact=True)
    for c in impls:
        f = c.methods["get_all_trials"]
        ctx.require("deepcopy" in f.params(), f"R20.2: {c.name}.get_all_trials lost its deepcopy parameter")
        lt = return_level(c, f, {"deepcopy": True}, SHARED)
        ctx.check(lt == CLEAN, "R20.2", f.short, "honours-deepcopy=True",
                  message=f"{c.name}.get_all_trials(deepcopy=True) can return references that are not deep "
                          f"copies ({LEVEL_NAME[lt]})", how="every return is CLEAN when specialised for deepcopy=True")
        lf = return_level(c, f, {"deepcopy": False}, SHARED)
        ctx.check(lf != SHARED, "R20.3", f.short, "fresh-list-for-deepcopy=False",
                  message=f"{c.name}.get_all_trials(deepcopy=False) returns a list object owned by the "
                          f"storage (later writes would change the caller's list)",
                  how=f"returned reference is {LEVEL_NAME[lf]} (copy/list()/sorted()/new list)")

    # Study API
    study = p.cls(STUDY)
    # fields the Study object caches from storage getters (self._directions = storage.get_study_directions(..)) are as shared as the getter's result
    spol = ClientPolicy(fields=client_field_levels(ctx, study, True), in_study_class=True)

    def _immutable_elements(f_):
        """`list[X]` / `Sequence[X]` with X an Enum class of the package or a builtin scalar: a fresh list is a full copy"""
        ann = f_.node.returns
        if not (isinstance(ann, ast.Subscript) and norm(ann.value) in ("list", "List", "Sequence", "tuple")):
            return False
        el = dotted(ann.slice) or ""
        if el in ("str", "int", "float", "bool"):
            return True
        k = p.resolve_class(f_.module, el)
        return k is not None and any((dotted(b) or "").split(".")[-1] in ("Enum", "IntEnum") for b in k.node.bases)
    # every public property of Study (best_trial, trials, user_attrs, system_attrs, metric_names, ...): enumerated, not listed
    props = sorted(n_ for n_, f_ in study.methods.items() if not n_.startswith("_") and "property" in " ".join(f_.decorators()))
    for must in ("best_trial", "user_attrs", "system_attrs", "trials"):
        ctx.require(must in props, f"R20.2: Study.{must} vanished (or is no longer a property)")
    ctx.floor("R20.2", "study_properties", len(props), 10)
    for name in props:
        f = study.methods.get(name)
        g = CFG(f.node, name=f.qualname)
        pre = A.analyse(g, spol)
        rets = [n for n in g.stmt_nodes() if n.kind == "stmt" and isinstance(n.ast, ast.Return) and n.ast.value is not None]
        ctx.require(rets, f"R20.2: Study.{name} has no return")
        for n in rets:
            lvl = A.Evaluator(pre.get(n, {}), spol).level(n.ast.value)
            if lvl == SHALLOW and _immutable_elements(f):
                lvl = CLEAN
            ctx.check(lvl == CLEAN, "R20.2", f.short, "returns-deep-copy",
                      message=f"Study.{name} returns a reference that may be owned by the storage "
                              f"({LEVEL_NAME[lvl]}): `{norm(n.ast.value)[:70]}`",
                      how="returned value is a deep copy / deepcopy=True fetch", where=where(f, n.ast))
    ctx.floor("R20.2", "study_getter_sources", spol.sources_seen, 3)
    # pass-through of the flag: Study.get_trials / _get_trials specialised for deepcopy=True
    for name in ("get_trials", "_get_trials"):
        f = study.methods.get(name)
        ctx.require(f is not None, f"R20.2: Study.{name} vanished")
        pol = ClientPolicy(in_study_class=True, consts={"deepcopy": True},
                           fields={"self._thread_local.cached_all_trials": SHALLOW})
        g = CFG(f.node, name=f.qualname)
        pre = A.analyse(g, pol)
        for n in g.stmt_nodes():
            if n.kind == "stmt" and isinstance(n.ast, ast.Return) and n.ast.value is not None and n in pre:
                lvl = A.Evaluator(pre[n], pol).level(n.ast.value)
                ctx.check(lvl == CLEAN, "R20.2", f.short, "honours-deepcopy=True",
                          message=f"Study.{name}(deepcopy=True) can return shared trial objects: `{norm(n.ast.value)[:70]}`",
                          how="CLEAN when specialised for deepcopy=True", where=where(f, n.ast))
    # ... and so does every Study wrapper elsewhere in the package that overrides the trial getters (the per-bracket study view that
    # HyperbandPruner hands to samplers and pruners): a wrapper that drops the flag hands out the storage's own trial objects as "copies"
    class _WrapPolicy(ClientPolicy):
        def _recv_is_study(self, recv):
            return (isinstance(recv, ast.Call) and dotted(recv.func) == "super") or super()._recv_is_study(recv)
    n_wrap = 0
    for m_ in p.modules.values() if hasattr(p, "modules") else []:
        if not m_.name.startswith("optuna.") or m_.name.startswith(("optuna.storages", "optuna.study.study")):
            continue
        for fn in ast.walk(m_.tree):
            if isinstance(fn, ast.FunctionDef) and fn.name in ("get_trials", "_get_trials") and any(a.arg == "deepcopy" for a in fn.args.args + fn.args.kwonlyargs):
                n_wrap += 1
                pol = _WrapPolicy(in_study_class=True, consts={"deepcopy": True})
                g = CFG(fn, name=f"{m_.name}.{fn.name}")
                pre = A.analyse(g, pol)
                for n in g.stmt_nodes():
                    if n.kind == "stmt" and isinstance(n.ast, ast.Return) and n.ast.value is not None and n in pre:
                        lvl = A.Evaluator(pre[n], pol).level(n.ast.value)
                        ctx.check(lvl == CLEAN, "R20.2", f"{m_.relpath}::{fn.name}", "wrapper-honours-deepcopy=True",
                                  message=f"the Study wrapper's {fn.name}(deepcopy=True) in {m_.relpath} can return shared trial objects (`{norm(n.ast.value)[:70]}`): "
                                          f"samplers and pruners that modify 'their copies' from study.get_trials() / study.trials then change what the real study returns",
                                  how="the deepcopy flag is passed on to the wrapped getter (CLEAN when specialised for deepcopy=True)",
                                  where=f"{m_.relpath}:{n.ast.lineno}")
    ctx.floor("R20.2", "study_wrapper_getters", n_wrap, 1)
    # best_trials is computed from study.trials (deep copies)
    pf = p.func("optuna.study._multi_objective._get_pareto_front_trials")
    srcs = [norm(a) for n in own_nodes(pf.node) if isinstance(n, ast.Call) for a in n.args]
    ctx.check("study.trials" in srcs, "R20.2", pf.short, "pareto-from-deep-copies",
              message="_get_pareto_front_trials no longer computes best_trials from study.trials (deep copies)",
              how="argument is study.trials")
    bt = study.methods.get("best_trials")
    ctx.require(bt is not None, "R20.2: Study.best_trials vanished")
    rets = [n.value for n in own_nodes(bt.node) if isinstance(n, ast.Return) and n.value is not None]
    ok = all(isinstance(r, ast.Call) and (dotted(r.func) or "").endswith("_get_pareto_front_trials") for r in rets)
    ctx.check(ok and bool(rets), "R20.2", bt.short, "best_trials-via-pareto-helper",
              message="Study.best_trials returns something else than _get_pareto_front_trials(self, ..)",
              how="returns the helper computed from study.trials")

    # ------------------------------------------------------------- R20.4 clients
    ctx.rule("R20.4", "no client code mutates a reference obtained from a storage getter without "
             "copy.deepcopy (locals flow-sensitively, self.<field> paths class-wide)")
    prefixes = ["optuna.trial", "optuna.study", "optuna.samplers", "optuna.pruners",
                "optuna.storages._heartbeat", "optuna.storages._callbacks", "optuna.search_space"]
    if ctx.tier == "thorough":
        prefixes += ["optuna.terminator", "optuna.importance", "optuna.visualization",
                     "optuna.integration", "optuna._gp", "optuna.artifacts", "optuna.cli"]
    counters = {"mutations": 0, "bad": 0, "functions": 0, "sources": 0}
    field_cache = {}
    for f in p.iter_funcs(tuple(prefixes)):
        in_study = f.cls is not None and f.cls.qualname == STUDY
        fields = {}
        if f.cls is not None:
            if f.cls.qualname not in field_cache:
                field_cache[f.cls.qualname] = client_field_levels(ctx, f.cls, in_study)
            fields = field_cache[f.cls.qualname]
        pol = ClientPolicy(fields, in_study_class=in_study)
        # a trial object handed to the study layer may be a storage's own object (copy_study and
        # add_trials(other.get_trials(deepcopy=False)) pass exactly that): it is as shared as a getter result
        init = None
        if f.module.name.startswith("optuna.study"):
            init = {a.arg: SHARED for a in f.node.args.args + f.node.args.kwonlyargs
                    if a.annotation is not None and "FrozenTrial" in norm(a.annotation) and "Callable" not in norm(a.annotation)}
        check_client_function(ctx, "R20.4", f, pol, counters, init)
        counters["functions"] += 1
        counters["sources"] += pol.sources_seen
    ctx.floor("R20.4", "functions_analysed", counters["functions"], 450)
    ctx.floor("R20.4", "mutation_sites", counters["mutations"], 300)
    ctx.floor("R20.4", "getter_source_evaluations", counters["sources"], 40)
    if counters["bad"] == 0:
        ctx.ok("R20.4", "client packages", "no-mutation-of-getter-results",
               how=f"{counters['mutations']} mutation sites in {counters['functions']} functions, none with a SHARED base")
    shared_fields = {f"{c}:{k}": LEVEL_NAME[v] for c, d in field_cache.items() for k, v in d.items() if v != CLEAN}
    ctx.note("client_fields_not_clean", shared_fields)
    # the Trial's private copy (instance that F2 repaired): must stay CLEAN
    tfields = field_cache.get("optuna.trial._trial.Trial")
    ctx.require(tfields is not None and "self._cached_frozen_trial" in tfields,
                "R20.4: Trial._cached_frozen_trial anchor vanished")
    ctx.check(tfields["self._cached_frozen_trial"] == CLEAN, "R20.4", "optuna/trial/_trial.py::Trial.__init__",
              "private-copy:_cached_frozen_trial",
              message="Trial._cached_frozen_trial is the storage's own object (no deep copy at acquisition) "
                      "and Trial mutates it in suggest/report/set_user_attr",
              how="assigned from copy.deepcopy(storage.get_trial(..))")
    # positive fixture (zero-count rule must still see the F2 shape)
    fx = Program.from_sources({"fx.client": FIXTURE_CLIENT})
    fc = {"mutations": 0, "bad": 0}
    fctx = type(ctx)("C20", fx, ctx.tier, 0)
    for f in fx.iter_funcs(("fx.client",)):
        fields = client_field_levels(fctx, f.cls, False) if f.cls is not None else {}
        check_client_function(fctx, "R20.4", f, ClientPolicy(fields), fc)
    ctx.require(fc["bad"] == 2, f"R20.4: positive fixture not flagged as expected ({fc['bad']} != 2): rule is blind")
    ctx.count("R20.4", "fixture_flagged", fc["bad"])

    # other deep-copy hand-over points
    for q, what in (("optuna.study._tell._tell_with_warning", "return"),
                    ("optuna.storages._heartbeat.fail_stale_trials", "callback")):
        f = p.func(q)
        pol = ClientPolicy()
        g = CFG(f.node, name=f.qualname)
        pre = A.analyse(g, pol)
        if what == "return":
            for n in g.stmt_nodes():
                if n.kind == "stmt" and isinstance(n.ast, ast.Return) and n.ast.value is not None and n in pre:
                    lvl = A.Evaluator(pre[n], pol).level(n.ast.value)
                    ctx.check(lvl == CLEAN, "R20.2", f.short, "returns-deep-copy",
                              message=f"{f.name} returns a storage-owned trial object", how="deep copy returned",
                              where=where(f, n.ast))
        else:
            n_cb = 0
            for n in g.stmt_nodes():
                for c in n.calls():
                    if isinstance(c.func, ast.Name) and "callback" in c.func.id and n in pre:
                        n_cb += 1
                        for a in c.args[1:]:
                            lvl = A.Evaluator(pre[n], pol).level(a)
                            ctx.check(lvl == CLEAN, "R20.2", f.short, "callback-gets-deep-copy",
                                      message="fail_stale_trials hands a storage-owned trial to the callback",
                                      how="argument is a deep copy", where=where(f, c))
            ctx.require(n_cb >= 1, "R20.2: failed-trial callback invocation not found")

    # ------------------------------------------------------------- R20.7 study objects
    ctx.rule("R20.7", "get_all_studies hands out study objects whose attribute dicts are not the storage's own (in-memory / journal mutate those dicts in place)")
    f = p.func(INMEM + "._build_frozen_study")
    ctor = [c for c in own_nodes(f.node) if isinstance(c, ast.Call) and dotted(c.func) == "FrozenStudy"]
    ctx.require(len(ctor) == 1, "R20.7: _build_frozen_study must construct one FrozenStudy")
    for k in ("user_attrs", "system_attrs"):
        v = kwarg(ctor[0], k)
        ok = isinstance(v, ast.Call) and dotted(v.func) == "copy.deepcopy"
        ctx.check(ok, "R20.7", f.short, f"study-attrs-copied:{k}",
                  message=f"InMemoryStorage builds FrozenStudy with {k}=`{norm(v) if v is not None else None}`: the returned study object aliases the dict that set_study_{k[:-1]} mutates in place",
                  how="copy.deepcopy(study." + k + ")")
    f = p.func(JOURNAL + ".get_all_studies")
    rets = [n for n in own_nodes(f.node) if isinstance(n, ast.Return) and n.value is not None]
    ok = bool(rets) and all(isinstance(r.value, ast.Call) and dotted(r.value.func) == "copy.deepcopy" for r in rets)
    ctx.check(ok, "R20.7", f.short, "studies-deep-copied", message="JournalStorage.get_all_studies returns the replay result's own FrozenStudy objects (their attr dicts are updated in place by later records)",
              how="copy.deepcopy(...)")
    # Study.user_attrs/system_attrs deep copy is R20.2; FrozenStudy snapshots through optuna.get_all_study_summaries use these

    # a trial stored from a template shares no object with the template the caller keeps (RDB / journal serialise; the
    # in-memory backend has to deep-copy): otherwise editing the object one added changes what the study returns
    imc = p.func(INMEM + ".create_new_trial")
    tprm = imc.params()[2] if len(imc.params()) > 2 else "template_trial"
    kept = [n for n in own_nodes(imc.node) if isinstance(n, ast.Assign) and isinstance(n.value, ast.Call) and n.value.args and norm(n.value.args[0]) == tprm]
    okc = bool(kept) and all(dotted(n.value.func) in ("copy.deepcopy", "deepcopy") for n in kept)
    ctx.check(okc, "R20.1", imc.short, "template-deep-copied",
              message=f"InMemoryStorage.create_new_trial stores `{norm(kept[0].value) if kept else tprm}`: the stored trial shares nested objects (values list, params / attrs dicts) with the "
                      f"template, so modifying a trial that was read with a deep copy and then added to another study changes what that study returns",
              how="trial = copy.deepcopy(template_trial)")
    from rules._template import template_copies_are_deep
    template_copies_are_deep(ctx, "R20.1", "Editing the trial object one has added (or adding it again elsewhere after an edit) then changes what the study returns")
    # ------------------------------------------------------------- R20.8 study attribute dicts are replaced, not mutated
    ctx.rule("R20.8", "a study's user/system attribute dict that a storage getter hands out by reference is never mutated in place: writers "
             "replace it (copy-on-write), so the reference a reader holds - and copies outside the storage lock - is a snapshot")
    from sa.util import MUTATING_METHODS, parent_map as _pm
    n_sites = 0
    for clsq, getter_owner in ((INMEM, INMEM), (REPLAY, JOURNAL)):
        wcls, gcls = p.cls(clsq), p.cls(getter_owner)
        for attr, getter in (("user_attrs", "get_study_user_attrs"), ("system_attrs", "get_study_system_attrs")):
            gf = gcls.methods.get(getter)
            ctx.require(gf is not None, f"R20.8: {gcls.name}.{getter} vanished")
            rets = [n.value for n in own_nodes(gf.node) if isinstance(n, ast.Return) and n.value is not None]
            by_ref = any(isinstance(r, ast.Attribute) and r.attr == attr for r in rets)  # `return <study>.user_attrs` without a copy
            inplace = []
            for m in wcls.methods.values():
                pm = _pm(m.node)
                for x in own_nodes(m.node):
                    if not (isinstance(x, ast.Attribute) and x.attr == attr and isinstance(x.ctx, ast.Load)):
                        continue
                    par = pm.get(id(x))
                    if isinstance(par, ast.Subscript) and par.value is x and isinstance(par.ctx, (ast.Store, ast.Del)):
                        inplace.append((m, par))
                    elif isinstance(par, ast.Attribute) and par.value is x and par.attr in MUTATING_METHODS and isinstance(pm.get(id(par)), ast.Call) \
                            and pm.get(id(par)).func is par:
                        inplace.append((m, par))
            # only study-level dicts: the object is reached through self._studies
            inplace = [(m, nd) for m, nd in inplace if "_studies" in norm(nd) or any(
                isinstance(a, ast.Assign) and "_studies" in norm(a.value) and any(isinstance(t, ast.Name) and norm(nd).startswith(t.id + ".") for t in a.targets)
                for a in own_nodes(m.node))]
            n_sites += 1
            for m, nd in inplace:
                ctx.check(not by_ref, "R20.8", m.short, f"in-place:{attr}",
                          message=f"{wcls.name}.{m.name} mutates a study's {attr} dict in place (`{norm(nd)[:60]}`) while {gcls.name}.{getter} hands that dict out by reference: "
                                  f"Study.{attr} deep-copies it after the storage lock was released, so a concurrent write raises `dictionary changed size during iteration` "
                                  f"(or yields a torn snapshot), and a sampler holding the dict sees later writes",
                          how="the writer builds a new dict and rebinds the attribute, or the getter returns a copy made under the lock", where=where(m, nd))
            if not inplace or not by_ref:
                ctx.ok("R20.8", gf.short, f"snapshot:{attr}", how="no in-place mutation of the dict handed out" if by_ref else "getter returns a copy")
    ctx.floor("R20.8", "study_attr_dicts", n_sites, 4, exact=True)

    # ------------------------------------------------------------- R20.5 per-thread cache
    ctx.rule("R20.9", "Trial's public container properties return deep copies of its private cache")
    trial_properties_return_copies(ctx, "R20.9")
    ctx.rule("R20.5", "Study's trial cache is thread-local and reset in ask and tell before use")
    tl = p.cls("optuna.study.study._ThreadLocalStudyAttribute")
    ctx.check(any(b in ("threading.local", "local") for b in tl.bases), "R20.5", tl.module.relpath + "::" + tl.name,
              "is-threading.local", message="_ThreadLocalStudyAttribute is not a threading.local subclass",
              how="base class threading.local")
    for m in ("__init__", "__setstate__"):
        f = study.methods.get(m)
        ctx.require(f is not None, f"R20.5: Study.{m} vanished")
        ok = any(isinstance(n, ast.Assign) and dotted(n.targets[0]) == "self._thread_local"
                 and isinstance(n.value, ast.Call) and dotted(n.value.func) == "_ThreadLocalStudyAttribute"
                 for n in own_nodes(f.node))
        ctx.check(ok, "R20.5", f.short, "thread-local-instance",
                  message=f"Study.{m} does not bind _thread_local to a _ThreadLocalStudyAttribute()",
                  how="constructor call assigned")
    for q, recv in ((STUDY + ".ask", "self"), ("optuna.study._tell._tell_with_warning", "study")):
        f = p.func(q)
        g = CFG(f.node, name=f.qualname)
        resets = [n for n in g.stmt_nodes() if n.kind == "stmt" and isinstance(n.ast, ast.Assign)
                  and dotted(n.ast.targets[0]) == f"{recv}._thread_local.cached_all_trials"
                  and isinstance(n.ast.value, ast.Constant) and n.ast.value.value is None]
        # every storage access / trial construction in the function comes after the reset
        later = [n for n in g.stmt_nodes() for c in n.calls()
                 if (dotted(c.func) or "").split(".")[-1] in ("Trial", "_pop_waiting_trial_id", "create_new_trial", "after_trial", "_filter_study")]
        ok = bool(resets) and all(g.dominated_by(n, resets) for n in later)
        ctx.check(ok and bool(later), "R20.5", f.short, "cache-reset-first",
                  message=f"{f.name}: the per-thread trial cache is not invalidated before samplers/storage run",
                  how="reset dominates trial construction / sampler hooks")
