"""Static-analysis engine for the Optuna property checks (pure stdlib `ast`)."""
