"""A small abstract interpreter over the CFG for the finalisation-path rule of C02.

Abstract values describe what is known about a Python value *structurally* (is it None, an
untrusted object returned by the objective, a sequence of untrusted elements, validated
floats, a TrialState member ...).  Exploration is path-sensitive over (node, environment,
stored-flag, in-flight exception) states; repo callees listed in an inline table are explored
recursively and summarised by their outcomes.  Nothing is executed.
"""
from __future__ import annotations

import ast
from collections import deque

from .cfg import CFG, Node, handler_names
from .loader import AnalysisError, dotted, norm

# abstract values (strings keep states hashable and printable)
NONE, RAW, RAWNN, SEQ_RAW, SCALAR_RAW, LIST_RAW, VALIDATED, LIST_FLOAT, FLOAT, STR, TRUE, FALSE, BOOL, TRIALOBJ, INTV, OTHER = (
    "None", "raw?", "raw", "seq[raw]", "scalar-raw", "list[raw]", "validated-seq", "list[float]", "float", "str", "True", "False", "bool",
    "Trial", "int", "other")
UNTRUSTED = {RAW, RAWNN, SCALAR_RAW}


def enum_av(member: str) -> str:
    return "TrialState." + member


def is_enum(av: str) -> bool:
    return av.startswith("TrialState.")


EXC_PARENT = {
    "BaseException": None, "Exception": "BaseException", "KeyboardInterrupt": "BaseException", "SystemExit": "BaseException",
    "ValueError": "Exception", "TypeError": "Exception", "ArithmeticError": "Exception", "OverflowError": "ArithmeticError",
    "AssertionError": "Exception", "KeyError": "LookupError", "LookupError": "Exception", "RuntimeError": "Exception",
    "TrialPruned": "OptunaError", "OptunaError": "Exception", "UpdateFinishedTrialError": "RuntimeError", "AttributeError": "Exception",
    "StorageInternalError": "OptunaError", "IndexError": "LookupError", "ZeroDivisionError": "ArithmeticError",
}


def exc_isa(exc: str, cls: str) -> bool:
    seen = 0
    while exc is not None and seen < 10:
        if exc == cls:
            return True
        exc = EXC_PARENT.get(exc, "Exception" if exc not in ("BaseException",) else None)
        seen += 1
    return False


def elem_of(av: str) -> str:
    return {SEQ_RAW: RAWNN, LIST_RAW: RAW, VALIDATED: FLOAT, LIST_FLOAT: FLOAT}.get(av, OTHER)


class Outcome:
    __slots__ = ("kind", "value", "exc", "stored", "trace", "param_refine")

    def __init__(self, kind, value=None, exc=None, stored=False, trace=(), param_refine=()):
        self.kind, self.value, self.exc, self.stored, self.trace, self.param_refine = kind, value, exc, stored, trace, param_refine

    def key(self):
        return (self.kind, self.value, self.exc, self.stored, self.param_refine)


class Interp:
    """Configured by the rule: which callees are inlined, which calls are untrusted, which call
    is the store, and edge effects."""

    def __init__(self, program, inline: dict[str, object], max_states=20000):
        self.p = program
        self.inline = inline  # simple callee name -> Func
        self.cfgs: dict[str, CFG] = {}
        self.memo = {}
        self.max_states = max_states
        self.store_args: list[tuple[str, str, str, str]] = []  # (func, state av, values av, where)
        self.n_states = 0
        self.n_paths = 0
        self.total_assumed: set[str] = set()

    # ------------------------------------------------------------------ hooks (rule overrides)
    def untrusted_call(self, call: ast.Call, env) -> set[str] | None:
        """Exception classes an untrusted call may raise (None if the call is not untrusted)."""
        return None

    def is_store(self, call: ast.Call) -> bool:
        return False

    def edge_effect(self, node: Node, kind: str, stored: bool) -> bool:
        return stored

    def post_call(self, callee_name: str, call: ast.Call, outcome: "Outcome", env: dict) -> dict:
        """Refine the caller's environment after an inlined call returned `outcome`."""
        return env

    # ------------------------------------------------------------------ evaluation
    def ev(self, e, env, calls) -> str:
        if e is None:
            return NONE
        if isinstance(e, ast.Constant):
            v = e.value
            if v is None:
                return NONE
            if v is True:
                return TRUE
            if v is False:
                return FALSE
            if isinstance(v, str):
                return STR
            if isinstance(v, float):
                return FLOAT
            if isinstance(v, int):
                return INTV
            return OTHER
        if isinstance(e, ast.JoinedStr):
            return STR
        if isinstance(e, ast.Name):
            return env.get(e.id, OTHER)
        if isinstance(e, ast.Attribute):
            d = dotted(e)
            if d and d.split(".")[-2:-1] == ["TrialState"]:
                return enum_av(d.split(".")[-1])
            return OTHER
        if isinstance(e, ast.List) or isinstance(e, ast.Tuple):
            if len(e.elts) == 1:
                el = self.ev(e.elts[0], env, calls)
                if el in UNTRUSTED or el == NONE:
                    return LIST_RAW
                if el == FLOAT:
                    return LIST_FLOAT
            return OTHER
        if isinstance(e, ast.ListComp) and len(e.generators) == 1:
            src = self.ev(e.generators[0].iter, env, calls)
            el = elem_of(src)
            sub = dict(env)
            for t in ast.walk(e.generators[0].target):
                if isinstance(t, ast.Name):
                    sub[t.id] = el
            r = self.ev(e.elt, sub, calls)
            if r == FLOAT:
                # float(x) over elements that were not validated: floats, but possibly NaN / wrong count
                return LIST_FLOAT if src in (VALIDATED, LIST_FLOAT) else "list[float-unchecked]"
            return LIST_RAW if r in UNTRUSTED else OTHER
        if isinstance(e, ast.Call):
            if id(e) in calls:
                return calls[id(e)]
            d = dotted(e.func) or ""
            if d == "float":
                return FLOAT
            if d in ("copy.deepcopy", "copy.copy") and e.args:
                return self.ev(e.args[0], env, calls)
            if d in ("isinstance", "math.isnan", "math.isfinite"):
                t = self.test(e, env, calls)
                return TRUE if t is True else (FALSE if t is False else BOOL)
            if d in ("len",):
                return INTV
            if d in ("repr", "str"):
                return STR
            return OTHER
        if isinstance(e, ast.Subscript):
            base = norm(e.value)
            if base.endswith(".intermediate_values"):
                return FLOAT  # stored by Trial.report, which converts with float()
            return OTHER
        if isinstance(e, ast.IfExp):
            t = self.test(e.test, env, calls)
            if t is True:
                return self.ev(e.body, env, calls)
            if t is False:
                return self.ev(e.orelse, env, calls)
            a, b = self.ev(e.body, env, calls), self.ev(e.orelse, env, calls)
            return a if a == b else OTHER
        if isinstance(e, (ast.Compare, ast.BoolOp)) or (isinstance(e, ast.UnaryOp) and isinstance(e.op, ast.Not)):
            t = self.test(e, env, calls)
            return TRUE if t is True else (FALSE if t is False else BOOL)
        return OTHER

    def test(self, e, env, calls):
        """True / False / None."""
        if isinstance(e, ast.UnaryOp) and isinstance(e.op, ast.Not):
            t = self.test(e.operand, env, calls)
            return None if t is None else (not t)
        if isinstance(e, ast.BoolOp):
            vals = [self.test(v, env, calls) for v in e.values]
            if isinstance(e.op, ast.And):
                if any(v is False for v in vals):
                    return False
                return True if all(v is True for v in vals) else None
            if any(v is True for v in vals):
                return True
            return False if all(v is False for v in vals) else None
        if isinstance(e, ast.Compare) and len(e.ops) == 1:
            op = e.ops[0]
            a, b = self.ev(e.left, env, calls), self.ev(e.comparators[0], env, calls)
            if isinstance(op, (ast.Is, ast.IsNot, ast.Eq, ast.NotEq)):
                pos = isinstance(op, (ast.Is, ast.Eq))
                if b == NONE or a == NONE:
                    x = a if b == NONE else b
                    if x == NONE:
                        return pos
                    if x in (RAW, OTHER, BOOL):
                        return None
                    return not pos  # definitely not None
                if is_enum(a) and is_enum(b):
                    return (a == b) == pos
                if (is_enum(a) and b in (STR, FLOAT, INTV, TRUE, FALSE)) or (is_enum(b) and a in (STR, FLOAT, INTV, TRUE, FALSE)):
                    return not pos
                return None
            if isinstance(op, (ast.In, ast.NotIn)) and isinstance(e.comparators[0], (ast.Tuple, ast.List)):
                pos = isinstance(op, ast.In)
                ms = [self.ev(x, env, calls) for x in e.comparators[0].elts]
                if (is_enum(a) or a == NONE) and all(is_enum(m) or m == NONE for m in ms):
                    return (a in ms) == pos
                return None
            return None
        if isinstance(e, ast.Call):
            d = dotted(e.func) or ""
            if d == "isinstance" and len(e.args) == 2:
                x = self.ev(e.args[0], env, calls)
                cls = norm(e.args[1])
                last = cls.split(".")[-1]
                if last == "Sequence":
                    if x in (SEQ_RAW, LIST_RAW, VALIDATED, LIST_FLOAT):
                        return True
                    if x in (SCALAR_RAW, FLOAT, INTV, NONE, TRIALOBJ):
                        return False
                    return None
                if last == "Trial":
                    return True if x == TRIALOBJ else (False if x in (INTV, NONE, STR, FLOAT) else None)
                if last == "int":
                    return True if x == INTV else (False if x in (TRIALOBJ, NONE, STR) else None)
                return None
            if id(e) in calls:
                v = calls[id(e)]
                return True if v == TRUE else (False if v in (FALSE, NONE) else None)
            return None
        v = self.ev(e, env, calls)
        if v == TRUE:
            return True
        if v in (FALSE, NONE):
            return False
        return None

    def refine(self, e, env, truth: bool) -> dict:
        """Environment refined by knowing that test e is `truth`."""
        env = dict(env)
        if isinstance(e, ast.UnaryOp) and isinstance(e.op, ast.Not):
            return self.refine(e.operand, env, not truth)
        if isinstance(e, ast.BoolOp):
            if (isinstance(e.op, ast.And) and truth) or (isinstance(e.op, ast.Or) and not truth):
                for v in e.values:
                    env = self.refine(v, env, truth)
            return env
        if isinstance(e, ast.Compare) and len(e.ops) == 1 and isinstance(e.left, ast.Name):
            op = e.ops[0]
            rhs = self.ev(e.comparators[0], env, {})
            name = e.left.id
            cur = env.get(name, OTHER)
            if rhs == NONE and isinstance(op, (ast.Is, ast.IsNot, ast.Eq, ast.NotEq)):
                is_none = isinstance(op, (ast.Is, ast.Eq)) == truth
                if is_none:
                    env[name] = NONE
                elif cur == RAW:
                    env[name] = RAWNN
            return env
        if isinstance(e, ast.Call) and dotted(e.func) == "isinstance" and len(e.args) == 2 and isinstance(e.args[0], ast.Name):
            name = e.args[0].id
            cur = env.get(name, OTHER)
            if norm(e.args[1]).split(".")[-1] == "Sequence" and cur in (RAW, RAWNN):
                env[name] = SEQ_RAW if truth else SCALAR_RAW
            return env
        return env

    # ------------------------------------------------------------------ raise model
    def op_raises(self, node: Node, env, calls) -> set[str]:
        """Exception classes the non-call operations of this node may raise on untrusted operands."""
        out: set[str] = set()
        for x in node.walk():
            if isinstance(x, ast.Call):
                d = dotted(x.func) or ""
                args = [self.ev(a, env, calls) for a in x.args]
                if d in ("float", "int") and args and (args[0] in UNTRUSTED or args[0] in (NONE,)):
                    # the documented conversion errors, and whatever a user-defined __float__ / __int__ raises
                    out |= {"ValueError", "TypeError", "OverflowError", "Exception"}
                elif d in ("math.isnan", "math.isfinite", "math.isinf") and args and (args[0] in UNTRUSTED or args[0] == NONE):
                    out |= {"TypeError", "OverflowError"}
                elif d in ("len", "iter", "list", "tuple", "sorted", "sum", "max", "min") and args and args[0] in UNTRUSTED:
                    out |= {"TypeError"}
                elif d in ("repr", "str", "isinstance", "type", "id") or d.endswith(".format"):
                    self.total_assumed.add(d or "format")
            elif isinstance(x, (ast.BinOp, ast.UnaryOp)) and not (isinstance(x, ast.UnaryOp) and isinstance(x.op, ast.Not)):
                ops = [x.left, x.right] if isinstance(x, ast.BinOp) else [x.operand]
                if any(self.ev(o, env, calls) in UNTRUSTED for o in ops):
                    out |= {"TypeError"}
            elif isinstance(x, ast.Compare):
                if any(not isinstance(o, (ast.Is, ast.IsNot)) for o in x.ops):
                    if any(self.ev(o, env, calls) in UNTRUSTED for o in [x.left] + x.comparators):
                        out |= {"TypeError"}
            elif isinstance(x, (ast.Subscript, ast.Attribute)) and isinstance(x.ctx, ast.Load):
                if self.ev(x.value, env, calls) in UNTRUSTED:
                    out |= {"TypeError", "AttributeError"}
            elif isinstance(x, ast.comprehension):
                if self.ev(x.iter, env, calls) in UNTRUSTED:
                    out |= {"TypeError"}
            elif isinstance(x, ast.ListComp) and len(x.generators) == 1:
                src = self.ev(x.generators[0].iter, env, calls)
                sub = dict(env)
                for t in ast.walk(x.generators[0].target):
                    if isinstance(t, ast.Name):
                        sub[t.id] = elem_of(src)
                fake = Node(-1, "stmt", ast.Expr(value=x.elt))
                out |= self.op_raises(fake, sub, calls)
        if node.kind == "iter":
            if self.ev(node.expr[0], env, calls) in UNTRUSTED:
                out |= {"TypeError"}
        return out

    # ------------------------------------------------------------------ exploration
    def cfg_of(self, func) -> CFG:
        if func.qualname not in self.cfgs:
            self.cfgs[func.qualname] = CFG(func.node, may_raise=lambda n: True, name=func.qualname)
        return self.cfgs[func.qualname]

    def explore(self, func, env0: dict, stored0: bool, start: Node | None = None, depth=0) -> list[Outcome]:
        key = (func.qualname, tuple(sorted(env0.items())), stored0, start.id if start else -1)
        if key in self.memo:
            return self.memo[key]
        if depth > 6:
            raise AnalysisError("absint: inlining depth exceeded")
        self.memo[key] = []
        g = self.cfg_of(func)
        outcomes: dict[tuple, Outcome] = {}
        init = (start or g.entry, tuple(sorted(env0.items())), stored0, None, None, None)
        seen = {init}
        prev = {init: None}
        dq = deque([init])

        inner_traces = {}

        def trace(st):
            out = []
            while st is not None and len(out) < 80:
                n = st[0]
                if st in inner_traces:
                    out.extend(reversed(inner_traces[st]))
                if n.kind not in ("join", "entry") and n.lineno:
                    tag = f"{func.module.relpath}:{n.lineno}"
                    if not out or out[-1] != tag:
                        out.append(tag)
                st = prev[st]
            return tuple(reversed(out))

        def push(st, frm):
            if st not in seen:
                seen.add(st)
                prev[st] = frm
                dq.append(st)
                self.n_states += 1
                if self.n_states > self.max_states:
                    raise AnalysisError("absint: state explosion")

        while dq:
            st = dq.popleft()
            n, envt, stored, infl, caught, retv = st
            env = dict(envt)
            if n is g.exit:
                o = Outcome("return", retv if retv is not None else NONE, None, stored, trace(st), tuple(sorted((k, v) for k, v in env.items() if k in func.params())))
                outcomes.setdefault(o.key(), o)
                continue
            if n is g.raise_exit:
                o = Outcome("raise", None, infl or "Exception", stored, trace(st))
                outcomes.setdefault(o.key(), o)
                continue
            if n.kind == "except":
                names = handler_names(n.ast.type)
                for k, m in n.succ:
                    if k == "match" and (infl is None or any(exc_isa(infl, c) for c in names)):
                        e2 = dict(env)
                        if n.ast.name:
                            e2[n.ast.name] = OTHER
                        push((m, tuple(sorted(e2.items())), stored, None, infl, retv), st)
                    if k == "nomatch" and (infl is None or not any(exc_isa(infl, c) for c in names)):
                        push((m, envt, stored, infl, caught, retv), st)
                continue
            if n.kind in ("join", "entry", "with_enter", "with_exit"):
                for k, m in n.succ:
                    if k == "e":
                        continue  # trusted context managers do not raise
                    push((m, envt, stored, infl, caught, retv), st)
                continue
            # ---- statement / test / iter nodes
            call_results: list[tuple[dict, bool, dict]] = [({}, stored, env)]  # (calls map, stored, env)
            raised: list[tuple[str, bool]] = []
            inl = [c for c in n.calls() if (dotted(c.func) or "").split(".")[-1] in self.inline]
            if len(inl) > 1:
                raise AnalysisError(f"absint: more than one inlined call in `{norm(n.exprs()[0])[:60]}`")
            for c in inl:
                callee = self.inline[(dotted(c.func) or "").split(".")[-1]]
                params = callee.params()
                cenv = {}
                for i, a in enumerate(c.args):
                    if i < len(params):
                        cenv[params[i]] = self.ev(a, env, {})
                for kw in c.keywords:
                    if kw.arg:
                        cenv[kw.arg] = self.ev(kw.value, env, {})
                # defaults
                dnode = callee.node.args
                defaults = dict(zip([a.arg for a in dnode.args][len(dnode.args) - len(dnode.defaults):], dnode.defaults))
                for pn, dv in defaults.items():
                    cenv.setdefault(pn, self.ev(dv, {}, {}))
                cenv = {k: v for k, v in cenv.items() if v != OTHER}
                res = self.explore(callee, cenv, stored, None, depth + 1)
                call_results = []
                for o in res:
                    if o.kind == "raise":
                        raised.append((o.exc, o.stored, o.trace))
                    else:
                        e2 = dict(env)
                        # sanitiser-style refinement: arguments that are plain names get the
                        # callee's final knowledge about the parameter
                        for i, a in enumerate(c.args):
                            if isinstance(a, ast.Name) and i < len(params):
                                for pk, pv in o.param_refine:
                                    if pk == params[i] and pv != OTHER:
                                        e2[a.id] = pv
                        e2 = self.post_call((dotted(c.func) or "").split(".")[-1], c, o, e2)
                        call_results.append(({id(c): o.value}, o.stored, e2))
            for exc, st2, tr in raised:
                for k, m in n.succ:
                    if k == "e":
                        ns = (m, envt, st2, exc, caught, retv)
                        if ns not in seen:
                            inner_traces[ns] = tr
                        push(ns, st)
            for calls, stored_c, env_c in call_results:
                # untrusted calls / explicit raises / operations on untrusted values
                rs: set[str] = set()
                for c in n.calls():
                    u = self.untrusted_call(c, env_c)
                    if u:
                        rs |= u
                rs |= self.op_raises(n, env_c, calls)
                stored_n = stored_c
                for c in n.calls():
                    if self.is_store(c):
                        stored_n = True
                        self.store_args.append((func.qualname, self.ev(c.args[1], env_c, calls) if len(c.args) > 1 else "?",
                                                self.ev(c.args[2], env_c, calls) if len(c.args) > 2 else NONE, f"{func.module.relpath}:{n.lineno}"))
                if n.kind == "stmt" and isinstance(n.ast, ast.Raise):
                    if n.ast.exc is None:
                        exc = caught or "Exception"
                    else:
                        ex = n.ast.exc
                        nm = dotted(ex.func) if isinstance(ex, ast.Call) else dotted(ex)
                        exc = (nm or "Exception").split(".")[-1]
                        if isinstance(ex, ast.Name) and not exc[0].isupper():
                            exc = "Exception"  # re-raising a stored exception object
                    for k, m in n.succ:
                        if k == "e":
                            push((m, tuple(sorted(env_c.items())), stored_n, exc, caught, retv), st)
                    continue
                if n.kind == "stmt" and isinstance(n.ast, ast.Assert):
                    t = self.test(n.ast.test, env_c, calls)
                    if t is not True:
                        rs |= {"AssertionError"}
                    if t is False:
                        for exc in rs:
                            for k, m in n.succ:
                                if k == "e":
                                    push((m, tuple(sorted(env_c.items())), stored_n, exc, caught, retv), st)
                        continue
                for exc in sorted(rs):
                    for k, m in n.succ:
                        if k == "e":
                            # the store inside this very node happened before/after? a raising
                            # untrusted call precedes nothing else in these statements
                            push((m, tuple(sorted(env_c.items())), stored_c, exc, caught, retv), st)
                # normal continuation
                e2 = dict(env_c)
                rv = retv
                if n.kind == "stmt":
                    s = n.ast
                    if isinstance(s, ast.Assign):
                        v = self.ev(s.value, env_c, calls)
                        for t in s.targets:
                            if isinstance(t, ast.Name):
                                e2[t.id] = v
                    elif isinstance(s, ast.AnnAssign) and isinstance(s.target, ast.Name):
                        if s.value is not None:
                            e2[s.target.id] = self.ev(s.value, env_c, calls)
                    elif isinstance(s, ast.Return):
                        rv = self.ev(s.value, env_c, calls) if s.value is not None else NONE
                elif n.kind == "iter":
                    el = elem_of(self.ev(n.expr[0], env_c, calls))
                    for t in ast.walk(n.expr[1]):
                        if isinstance(t, ast.Name):
                            e2[t.id] = el
                e2 = {k: v for k, v in e2.items() if v != OTHER}
                decided = self.test(n.expr, env_c, calls) if n.kind == "test" else None
                keep = infl if n.copy_kind == "exc" else None  # inside a finally suite run for a pending exception
                for k, m in n.succ:
                    if k in ("e",):
                        continue
                    if n.kind == "test":
                        if decided is True and k == "f":
                            continue
                        if decided is False and k == "t":
                            continue
                        e3 = self.refine(n.expr, e2, k == "t")
                        e3 = {a: b for a, b in e3.items() if b != OTHER}
                        push((m, tuple(sorted(e3.items())), self.edge_effect(n, k, stored_n), keep, caught, rv), st)
                    else:
                        push((m, tuple(sorted(e2.items())), stored_n, keep, caught, rv), st)
        res = list(outcomes.values())
        self.memo[key] = res
        self.n_paths += len(res)
        return res

