"""Freshness / sharing levels of object references (A6 of DESIGN.md) as a forward dataflow.

Level of a reference:
  CLEAN   - private to this activation (constants, deep copies, unknown call results)
  SHALLOW - the object itself is private (copy.copy, list(..), display, comprehension) but what
            it references may be shared
  SHARED  - the object is (or may be) owned by someone else: obtained from a source expression
            (storage getter, element of a trial container, a published object)

A mutation (`b.a = e`, `b[k] = e`, `del b[k]`, `b.m(..)` with a mutating method m) is legal iff
the level of its base expression `b` is not SHARED.  Dereferencing (`x.a`, `x[k]`, iteration
element) of a SHARED or SHALLOW reference gives SHARED, unless that access path was re-bound to
something fresher earlier on every path (`trial.params = copy.copy(trial.params)`).
"""
from __future__ import annotations

import ast
from typing import Callable

from .cfg import CFG, Node
from .loader import dotted, norm
from .util import MUTATING_METHODS

CLEAN, SHALLOW, SHARED = 0, 1, 2
LEVEL_NAME = {0: "CLEAN", 1: "SHALLOW", 2: "SHARED"}

SHALLOW_CTORS = {"list", "dict", "set", "tuple", "sorted", "reversed", "frozenset", "copy.copy",
                 "OrderedDict", "collections.OrderedDict", "defaultdict"}
SCALAR_FUNCS = {"len", "int", "float", "str", "bool", "repr", "isinstance", "sum",
                "abs", "any", "all", "id", "hash", "type"}
SELECTORS = {"max", "min", "next", "random.choice"}  # hand back one of the elements of their argument
DEREF_METHODS = {"get", "values", "items", "keys", "pop", "copy", "__getitem__", "setdefault"}


def chain_path(e: ast.AST) -> str | None:
    """Dotted text for pure Name/Attribute chains (`trial.params`, `self._x.y`)."""
    return dotted(e)


class Policy:
    """What counts as a source / a publish for one rule instance."""

    def source_level(self, e: ast.AST, ev: "Evaluator") -> int | None:
        """Level if expression e is a source of shared references, else None."""
        return None

    def is_publish(self, call_or_assign: ast.AST) -> list[ast.AST]:
        """Expressions that become shared (published) by this statement/call."""
        return []

    def field_level(self, path: str) -> int | None:
        """Level of a `self.<...>` path (class-wide summary), else None."""
        return None


class Evaluator:
    def __init__(self, env: dict[str, int], policy: Policy):
        self.env = env
        self.policy = policy

    def level(self, e: ast.AST) -> int:
        pol = self.policy
        s = pol.source_level(e, self)
        if s is not None:
            return s
        if isinstance(e, ast.Constant):
            return CLEAN
        if isinstance(e, ast.Name):
            return self.env.get(e.id, CLEAN)
        if isinstance(e, ast.Attribute):
            p = chain_path(e)
            if p is not None:
                if p in self.env:
                    return self.env[p]
                fl = pol.field_level(p)
                if fl is not None:
                    return fl
            base = self.level(e.value)
            return SHARED if base >= SHALLOW else CLEAN
        if isinstance(e, ast.Subscript):
            base = self.level(e.value)
            return SHARED if base >= SHALLOW else CLEAN
        if isinstance(e, ast.Starred):
            return self.level(e.value)
        if isinstance(e, ast.IfExp):
            t = truth_under(e.test, getattr(pol, "consts", None) or {})
            if t is True:
                return self.level(e.body)
            if t is False:
                return self.level(e.orelse)
            return max(self.level(e.body), self.level(e.orelse))
        if isinstance(e, ast.BoolOp):
            return max(self.level(v) for v in e.values)
        if isinstance(e, ast.NamedExpr):
            return self.level(e.value)
        if isinstance(e, (ast.List, ast.Tuple, ast.Set)):
            m = max([self.level(x) for x in e.elts] or [CLEAN])
            return SHALLOW if m >= SHALLOW else CLEAN
        if isinstance(e, ast.Dict):
            parts = [v for v in e.values] + [k for k in e.keys if k is not None]
            m = CLEAN
            for k, v in zip(e.keys, e.values):
                lv = self.level(v)
                if k is None:  # {**x}: elements of x are referenced
                    lv = SHARED if lv >= SHALLOW else CLEAN
                m = max(m, lv)
            return SHALLOW if m >= SHALLOW else CLEAN
        if isinstance(e, (ast.ListComp, ast.SetComp, ast.DictComp, ast.GeneratorExp)):
            sub = dict(self.env)
            ev = Evaluator(sub, pol)
            for gen in e.generators:
                it = ev.level(gen.iter)
                el = SHARED if it >= SHALLOW else CLEAN
                for t in ast.walk(gen.target):
                    if isinstance(t, ast.Name):
                        sub[t.id] = el
            if isinstance(e, ast.DictComp):
                m = max(ev.level(e.key), ev.level(e.value))
            else:
                m = ev.level(e.elt)
            return SHALLOW if m >= SHALLOW else CLEAN
        if isinstance(e, ast.Call):
            fn = dotted(e.func) or ""
            if fn in ("copy.deepcopy", "deepcopy"):
                # a pre-seeded memo makes the "copy" share whatever the memo maps to
                memo = e.args[1] if len(e.args) > 1 else next((k.value for k in e.keywords if k.arg == "memo"), None)
                if memo is not None and self.level(memo) >= SHALLOW:
                    return SHALLOW
                return CLEAN
            if fn in SHALLOW_CTORS:
                m = max([self.level(a) for a in e.args] or [CLEAN])
                return SHALLOW if m >= SHALLOW else CLEAN
            if fn in SCALAR_FUNCS:
                return CLEAN
            if fn in SELECTORS:
                m = max([self.level(a) for a in e.args] or [CLEAN])
                return SHARED if m >= SHALLOW else CLEAN
            if isinstance(e.func, ast.Attribute) and e.func.attr in DEREF_METHODS:
                base = self.level(e.func.value)
                if e.func.attr == "copy":
                    return SHALLOW if base >= SHALLOW else CLEAN
                return SHARED if base >= SHALLOW else CLEAN
            if fn in ("enumerate", "zip", "iter", "filter", "map", "itertools.chain"):
                m = max([self.level(a) for a in e.args] or [CLEAN])
                return SHALLOW if m >= SHALLOW else CLEAN
            if isinstance(e.func, ast.Name) and not fn[:1].isupper():
                # a plain function applied to a container of shared objects is assumed to hand (some of)
                # them back in a new container (filters such as _get_feasible_trials); constructors
                # (CamelCase) build a new object
                m = max([self.level(a) for a in e.args] + [self.level(k.value) for k in e.keywords] or [CLEAN])
                return SHALLOW if m >= SHALLOW else CLEAN
            return CLEAN
        return CLEAN


def _kill(env: dict[str, int], name: str) -> None:
    for k in [k for k in env if k == name or k.startswith(name + ".")]:
        del env[k]


def _bind(env, target: ast.AST, lvl: int, ev: Evaluator, elementwise=False):
    if isinstance(target, ast.Name):
        _kill(env, target.id)
        if lvl != CLEAN:
            env[target.id] = lvl
    elif isinstance(target, (ast.Tuple, ast.List)):
        el = SHARED if lvl >= SHALLOW else CLEAN
        for t in target.elts:
            _bind(env, t, el, ev)
    elif isinstance(target, ast.Attribute):
        p = chain_path(target)
        if p is not None:
            _kill(env, p)
            env[p] = lvl  # explicit entry even when CLEAN (overrides deref-of-base)
    elif isinstance(target, ast.Starred):
        _bind(env, target.value, lvl, ev)


def transfer(node: Node, env: dict[str, int], policy: Policy) -> dict[str, int]:
    env = dict(env)
    ev = Evaluator(env, policy)
    st = node.ast
    if node.kind == "stmt":
        if isinstance(st, ast.Assign):
            lvl = ev.level(st.value)
            for t in st.targets:
                _bind(env, t, lvl, ev)
        elif isinstance(st, ast.AnnAssign) and st.value is not None:
            _bind(env, st.target, ev.level(st.value), ev)
        elif isinstance(st, ast.AugAssign):
            pass
        # walrus targets
        for x in node.walk():
            if isinstance(x, ast.NamedExpr) and isinstance(x.target, ast.Name):
                _bind(env, x.target, ev.level(x.value), ev)
    elif node.kind == "iter":
        it, tgt = node.expr[0], node.expr[1]
        lvl = ev.level(it)
        el = SHARED if lvl >= SHALLOW else CLEAN
        _bind(env, tgt, SHALLOW if False else el, ev)
        # tuple targets of .items()/enumerate(): every component may be an element
        for t in ast.walk(tgt):
            if isinstance(t, ast.Name):
                _kill(env, t.id)
                if el != CLEAN:
                    env[t.id] = el
    elif node.kind == "with_enter":
        item = node.extra
        if item is not None and item.optional_vars is not None:
            _bind(env, item.optional_vars, ev.level(item.context_expr), ev)
    elif node.kind == "except":
        h = node.ast
        if getattr(h, "name", None):
            _kill(env, h.name)
    # storing a shared reference into a private container/object makes it SHALLOW
    ev0 = Evaluator(dict(env), policy)
    def _raise(base):
        pth = chain_path(base)
        if pth is None or pth == "self":
            return
        cur = ev0.level(base)
        if cur < SHALLOW:
            env[pth] = SHALLOW
    if node.kind == "stmt" and isinstance(st, (ast.Assign, ast.AugAssign, ast.AnnAssign)):
        val = st.value
        tgs = st.targets if isinstance(st, ast.Assign) else [st.target]
        if val is not None and ev0.level(val) >= SHALLOW:
            for t in tgs:
                if isinstance(t, (ast.Subscript, ast.Attribute)) and chain_path(t) is None or isinstance(t, ast.Subscript):
                    _raise(t.value)
    for c in node.calls():
        if isinstance(c.func, ast.Attribute) and c.func.attr in ("append", "extend", "add", "insert", "update", "setdefault", "appendleft"):
            if any(ev0.level(a) >= SHALLOW for a in c.args):
                _raise(c.func.value)
    # publishes (after the statement's own bindings)
    for x in node.walk():
        for pub in policy.is_publish(x):
            p = chain_path(pub)
            if p is not None:
                _kill(env, p)
                env[p] = SHARED
    return env


def truth_under(e: ast.AST, consts: dict[str, bool]):
    """Truth value of a test under assumed constant names, or None."""
    if isinstance(e, ast.Name) and e.id in consts:
        return consts[e.id]
    if isinstance(e, ast.UnaryOp) and isinstance(e.op, ast.Not):
        t = truth_under(e.operand, consts)
        return None if t is None else (not t)
    if isinstance(e, ast.Constant):
        return bool(e.value)
    return None


def analyse(cfg: CFG, policy: Policy, init: dict[str, int] | None = None):
    """Fixpoint: returns {node: env_before_node}.  Branches decided by policy.consts (assumed
    constant names, e.g. deepcopy=True) are pruned."""
    consts = getattr(policy, "consts", None) or {}
    pre: dict[Node, dict[str, int]] = {cfg.entry: dict(init or {})}
    work = [cfg.entry]
    while work:
        n = work.pop()
        out = transfer(n, pre[n], policy)
        decided = None
        if consts and n.kind == "test":
            decided = truth_under(n.expr, consts)
        for k, m in n.succ:
            if decided is True and k == "f":
                continue
            if decided is False and k == "t":
                continue
            src = out
            if k in ("e",):
                # the statement may have raised before completing: join pre and post
                src = _join(pre[n], out)
            if m not in pre:
                pre[m] = dict(src)
                work.append(m)
            else:
                j = _join(pre[m], src)
                if j != pre[m]:
                    pre[m] = j
                    work.append(m)
    return pre


def _join(a: dict[str, int], b: dict[str, int]) -> dict[str, int]:
    """Pointwise max.  A path present on one side only: explicit entries for attribute paths
    (which may be CLEAN overrides) only survive if present on both sides."""
    out = {}
    for k in set(a) | set(b):
        if "." in k:
            if k in a and k in b:
                out[k] = max(a[k], b[k])
            # else: fall back to deref-of-base on the side where it is absent -> drop override
            else:
                base = k.split(".")[0]
                other = a if k in b else b
                # if the base object is CLEAN on the other side the deref is CLEAN: keep max
                present = a[k] if k in a else b[k]
                base_lvl = other.get(base, CLEAN)
                deref = SHARED if base_lvl >= SHALLOW else CLEAN
                v = max(present, deref)
                out[k] = v
        else:
            out[k] = max(a.get(k, CLEAN), b.get(k, CLEAN))
    return out


class Mutation:
    __slots__ = ("node", "stmt", "base", "kind", "level")

    def __init__(self, node, stmt, base, kind, level):
        self.node = node
        self.stmt = stmt
        self.base = base
        self.kind = kind
        self.level = level


def mutations(cfg: CFG, pre, policy: Policy) -> list[Mutation]:
    """All mutation sites with the level of their base expression at that point."""
    out = []
    for n in cfg.stmt_nodes():
        if n not in pre:
            continue  # unreachable
        ev = Evaluator(pre[n], policy)
        st = n.ast
        targets = []
        if n.kind == "stmt":
            if isinstance(st, ast.Assign):
                targets = list(st.targets)
            elif isinstance(st, (ast.AugAssign, ast.AnnAssign)):
                targets = [st.target]
            elif isinstance(st, ast.Delete):
                targets = list(st.targets)
        flat = []
        for t in targets:
            if isinstance(t, (ast.Tuple, ast.List)):
                flat += list(t.elts)
            else:
                flat.append(t)
        for t in flat:
            if isinstance(t, (ast.Attribute, ast.Subscript)):
                base = t.value
                kind = "attr-store" if isinstance(t, ast.Attribute) else "item-store"
                if isinstance(st, ast.Delete):
                    kind = "del-" + kind.split("-")[0]
                out.append(Mutation(n, st, base, kind, ev.level(base)))
        for c in n.calls():
            if isinstance(c.func, ast.Attribute) and c.func.attr in MUTATING_METHODS:
                out.append(Mutation(n, st, c.func.value, "call-" + c.func.attr, ev.level(c.func.value)))
    return out
