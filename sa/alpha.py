"""Alpha-normalisation of function-local names against the reference naming.

The rules are written against the local-variable names of the tree they were confirmed on.  Renaming a
local is the most common behaviour-preserving edit there is, so before any rule looks at a module every
function's locals are renamed back to the reference names *when they can be recognised*: a local is
recognised by the fingerprint of its first binding - the kind of binding and the bound expression with
all local names blanked out - which a pure rename leaves unchanged.  Locals whose fingerprint is not in
the reference table (new or rewritten code) keep their own name.  The renaming is a capture-free
bijection on locals, i.e. an alpha-conversion: the program analysed is equivalent to the program on disk.

Reference table: sa/localnames.json, generated from the pinned tree by tools/gen_localnames.py.
"""
from __future__ import annotations

import ast
import copy

SCOPES = (ast.FunctionDef, ast.AsyncFunctionDef, ast.Lambda, ast.ClassDef)


def _own(fn):
    """nodes of a function without descending into nested function/class scopes (comprehensions are
    walked: their targets are renamed consistently with the function's locals)"""
    stack = list(fn.body)
    while stack:
        n = stack.pop()
        yield n
        for ch in ast.iter_child_nodes(n):
            if isinstance(ch, SCOPES):
                for sub in getattr(ch, "decorator_list", []):
                    stack.append(sub)
            else:
                stack.append(ch)


def _params(fn) -> set[str]:
    a = fn.args
    out = {x.arg for x in a.posonlyargs + a.args + a.kwonlyargs}
    if a.vararg:
        out.add(a.vararg.arg)
    if a.kwarg:
        out.add(a.kwarg.arg)
    return out


def local_names(fn) -> set[str]:
    """names bound by plain stores in the function body that can be renamed without touching any other
    scope: not parameters, not global/nonlocal, not imported, not exception names, and not bound again by
    a nested function/class/lambda"""
    stores, skip = set(), set(_params(fn))
    for n in _own(fn):
        if isinstance(n, ast.Name) and isinstance(n.ctx, (ast.Store, ast.Del)):
            stores.add(n.id)
        elif isinstance(n, (ast.Global, ast.Nonlocal)):
            skip |= set(n.names)
        elif isinstance(n, (ast.Import, ast.ImportFrom)):
            skip |= {(a.asname or a.name).split(".")[0] for a in n.names}
        elif isinstance(n, ast.ExceptHandler) and n.name:
            skip.add(n.name)
        elif isinstance(n, (ast.MatchAs, ast.MatchStar)) and getattr(n, "name", None):
            skip.add(n.name)
    for n in ast.walk(fn):
        if n is fn:
            continue
        if isinstance(n, (ast.FunctionDef, ast.AsyncFunctionDef, ast.Lambda)):
            skip |= _params(n)
            if not isinstance(n, ast.Lambda):
                skip.add(n.name)
                for m in ast.walk(n):
                    if isinstance(m, (ast.Global, ast.Nonlocal)):
                        skip |= set(m.names)
                    if isinstance(m, ast.Name) and isinstance(m.ctx, ast.Store):
                        skip.add(m.id)
        elif isinstance(n, ast.ClassDef):
            skip.add(n.name)
            for m in ast.walk(n):
                if isinstance(m, ast.Name) and isinstance(m.ctx, ast.Store):
                    skip.add(m.id)
    return {s for s in stores if s not in skip and not s.startswith("__")}


class _Blank(ast.NodeTransformer):
    def __init__(self, names):
        self.names = names

    def visit_Name(self, node):
        if node.id in self.names:
            return ast.copy_location(ast.Name(id="_", ctx=node.ctx), node)
        return node


def _blank(e: ast.AST, names: set[str]) -> str:
    """text of the expression with local names blanked, in the loader's canonical spelling (so the
    fingerprint does not depend on operand order either, which itself may depend on the names)"""
    from .loader import _Canon
    try:
        return ast.unparse(_Canon().visit(_Blank(names).visit(copy.deepcopy(e))))
    except Exception:  # pragma: no cover
        return "?"


def fingerprints(fn) -> list[tuple[str, str]]:
    """[(fingerprint, name)] for the function's locals in order of first binding."""
    names = local_names(fn)
    if not names:
        return []
    pm: dict[int, ast.AST] = {}
    for n in _own(fn):
        for ch in ast.iter_child_nodes(n):
            pm[id(ch)] = n
    for st in fn.body:
        pm.setdefault(id(st), fn)
    first: dict[str, ast.Name] = {}
    for n in _own(fn):
        if isinstance(n, ast.Name) and isinstance(n.ctx, ast.Store) and n.id in names:
            cur = first.get(n.id)
            if cur is None or (n.lineno, n.col_offset) < (cur.lineno, cur.col_offset):
                first[n.id] = n
    out = []
    seen: dict[str, int] = {}
    for name, node in sorted(first.items(), key=lambda kv: (kv[1].lineno, kv[1].col_offset)):
        # climb to the binding construct
        cur, path = node, []
        par = pm.get(id(cur))
        while par is not None and isinstance(par, (ast.Tuple, ast.List, ast.Starred)):
            path.append(par.elts.index(cur) if hasattr(par, "elts") else 0)
            cur, par = par, pm.get(id(par))
        pos = ".".join(str(i) for i in reversed(path))
        if isinstance(par, ast.Assign):
            fp = f"assign[{pos}]:{_blank(par.value, names)}"
        elif isinstance(par, ast.AnnAssign):
            fp = f"assign[{pos}]:{_blank(par.value, names) if par.value is not None else ''}"
        elif isinstance(par, ast.AugAssign):
            fp = f"aug:{_blank(par.value, names)}"
        elif isinstance(par, (ast.For, ast.AsyncFor)):
            fp = f"for[{pos}]:{_blank(par.iter, names)}"
        elif isinstance(par, ast.comprehension):
            fp = f"comp[{pos}]:{_blank(par.iter, names)}"
        elif isinstance(par, ast.withitem):
            fp = f"with[{pos}]:{_blank(par.context_expr, names)}"
        elif isinstance(par, ast.NamedExpr):
            fp = f"walrus:{_blank(par.value, names)}"
        else:
            fp = f"other:{type(par).__name__}"
        k = seen.get(fp, 0)
        seen[fp] = k + 1
        out.append((f"{fp}#{k}", name))
    return out


def iter_functions(tree: ast.AST):
    """(qualname, FunctionDef) for every function in the module, outer functions first."""
    def rec(node, prefix):
        for ch in ast.iter_child_nodes(node):
            if isinstance(ch, (ast.FunctionDef, ast.AsyncFunctionDef)):
                q = f"{prefix}{ch.name}"
                yield q, ch
                yield from rec(ch, q + ".<locals>.")
            elif isinstance(ch, ast.ClassDef):
                yield from rec(ch, f"{prefix}{ch.name}.")
            else:
                yield from rec(ch, prefix)
    yield from rec(tree, "")


def table_for(tree: ast.AST) -> dict[str, list[list[str]]]:
    out = {}
    counts: dict[str, int] = {}
    for q, fn in iter_functions(tree):
        k = counts.get(q, 0)
        counts[q] = k + 1
        key = q if k == 0 else f"{q}@{k}"  # overloads / redefinitions
        fps = fingerprints(fn)
        if fps:
            out[key] = [[fp, name] for fp, name in fps]
    return out


def normalise(tree: ast.AST, reference: dict[str, list[list[str]]]) -> int:
    """Rename recognised locals to their reference names, in place. Returns the number of renamed names."""
    renamed = 0
    counts: dict[str, int] = {}
    for q, fn in iter_functions(tree):
        k = counts.get(q, 0)
        counts[q] = k + 1
        key = q if k == 0 else f"{q}@{k}"
        ref = reference.get(key)
        if not ref:
            continue
        want = {fp: name for fp, name in ref}
        mapping = {}
        for fp, name in fingerprints(fn):
            tgt = want.get(fp)
            if tgt is not None and tgt != name:
                mapping[name] = tgt
        if not mapping:
            continue
        # capture-freedom: a target name must not be in use by anything that keeps its name
        used = {n.id for n in ast.walk(fn) if isinstance(n, ast.Name)} | {a.arg for n in ast.walk(fn) if isinstance(n, ast.arguments)
                                                                             for a in n.posonlyargs + n.args + n.kwonlyargs}
        changed = True
        while changed:
            changed = False
            targets = list(mapping.values())
            for src, tgt in list(mapping.items()):
                if targets.count(tgt) > 1 or (tgt in used and tgt not in mapping):
                    del mapping[src]
                    changed = True
                    break
        if not mapping:
            continue
        for n in ast.walk(fn):
            if isinstance(n, ast.Name) and n.id in mapping:
                n.id = mapping[n.id]
        renamed += len(mapping)
    return renamed


# ---------------------------------------------------------------------------------------------------
# Private function / method names
#
# A private helper (`_update_cache`, `_sync_with_backend`) may be renamed by a maintainer without any
# change of behaviour.  The rules anchor such helpers by name - the property anchors do too - so a pure
# rename is undone before the rules run: a private function that is *new* (not in the reference table)
# and whose body - with local names and all private-function names blanked - equals the body of a
# reference function that is *missing* from the same class / module gets the reference name back,
# together with every reference to it in the package.  Only unambiguous cases are renamed.

def _is_private(name: str) -> bool:
    return name.startswith("_") and not (name.startswith("__") and name.endswith("__"))


class _BlankPrivate(ast.NodeTransformer):
    """blank every private-looking identifier (`_x`, not dunder): private helpers of this and other modules
    may have been renamed too, and private fields add nothing to telling two helpers of one class apart"""

    def visit_Name(self, node):
        if _is_private(node.id):
            return ast.copy_location(ast.Name(id="_F", ctx=node.ctx), node)
        return node

    def visit_Attribute(self, node):
        self.generic_visit(node)
        if _is_private(node.attr):
            node.attr = "_F"
        return node

    def visit_FunctionDef(self, node):
        self.generic_visit(node)
        if _is_private(node.name):
            node.name = "_F"
        return node

    visit_AsyncFunctionDef = visit_FunctionDef


def _body_fingerprint(fn, private: set[str]) -> str:
    import hashlib
    from .loader import canonicalise
    t = copy.deepcopy(fn)
    t.name = "_F"
    if t.body and isinstance(t.body[0], ast.Expr) and isinstance(t.body[0].value, ast.Constant) and isinstance(t.body[0].value.value, str):
        t.body = t.body[1:] or [ast.Pass()]
    names = local_names(t)
    t = _Blank(names).visit(t)
    t = _BlankPrivate().visit(t)
    mod = canonicalise(ast.Module(body=[t], type_ignores=[]))
    return hashlib.sha256(ast.unparse(mod).encode()).hexdigest()[:16]


def private_function_table(tree: ast.AST, extra_private: set[str] = frozenset()) -> dict[str, str]:
    """qualname -> body fingerprint for the private functions / methods of a module."""
    funcs = list(iter_functions(tree))
    private = {q.split(".")[-1] for q, _ in funcs if _is_private(q.split(".")[-1])} | set(extra_private)
    out = {}
    for q, fn in funcs:
        if _is_private(fn.name) and q not in out:
            out[q] = _body_fingerprint(fn, private)
    return out


def private_renames(tree: ast.AST, ref_funcs: dict[str, str]) -> list[tuple[str, str]]:
    """[(new simple name, reference simple name)] - one entry per renamed private function of this module."""
    cur = private_function_table(tree)
    missing = {q: fp for q, fp in ref_funcs.items() if q not in cur}
    new = {q: fp for q, fp in cur.items() if q not in ref_funcs}
    out = []
    used = set()
    for q, fp in sorted(new.items()):
        scope = q.rsplit(".", 1)[0] if "." in q else ""
        cands = [m for m, mfp in missing.items() if mfp == fp and (m.rsplit(".", 1)[0] if "." in m else "") == scope and m not in used]
        if len(cands) == 1:
            used.add(cands[0])
            out.append((q.split(".")[-1], cands[0].split(".")[-1]))
    return out


def apply_name_renames(tree: ast.AST, mapping: dict[str, str]) -> int:
    n = 0
    for node in ast.walk(tree):
        if isinstance(node, (ast.FunctionDef, ast.AsyncFunctionDef)) and node.name in mapping:
            node.name = mapping[node.name]
            n += 1
        elif isinstance(node, ast.Attribute) and node.attr in mapping:
            node.attr = mapping[node.attr]
            n += 1
        elif isinstance(node, ast.Name) and node.id in mapping:
            node.id = mapping[node.id]
            n += 1
        elif isinstance(node, ast.ImportFrom):
            for a in node.names:
                if a.name in mapping:
                    if a.asname is None:
                        a.name = mapping[a.name]
                    else:
                        a.name = mapping[a.name]
                    n += 1
    return n
