"""Statement-level control-flow graph with exceptional edges (A2 of DESIGN.md).

Nodes are simple statements, branch tests, `for` heads, `with` enter/exit points and `except`
matchers.  `finally` suites (and `with` exits) are duplicated per continuation kind (normal,
exc, return, break, continue) so that path queries can tell "on the exceptional path" from "on
the normal path".  Which nodes may raise is a parameter.
"""
from __future__ import annotations

import ast
from collections import deque
from typing import Callable, Iterable

from .loader import AnalysisError

SIMPLE = (ast.Assign, ast.AugAssign, ast.AnnAssign, ast.Expr, ast.Return, ast.Raise, ast.Assert,
          ast.Delete, ast.Pass, ast.Import, ast.ImportFrom, ast.Global, ast.Nonlocal,
          ast.FunctionDef, ast.ClassDef, ast.Break, ast.Continue)


class Node:
    __slots__ = ("id", "kind", "ast", "expr", "succ", "pred", "copy_kind", "lineno", "extra")

    def __init__(self, id, kind, ast_node=None, expr=None, copy_kind="normal"):
        self.id = id
        self.kind = kind
        self.ast = ast_node  # owning statement (or ExceptHandler / withitem)
        self.expr = expr  # expression(s) evaluated at this node (AST or list of AST)
        self.succ: list[tuple[str, "Node"]] = []
        self.pred: list[tuple[str, "Node"]] = []
        self.copy_kind = copy_kind
        self.lineno = getattr(ast_node, "lineno", None) or getattr(expr, "lineno", 0)
        self.extra = None

    def exprs(self) -> list[ast.AST]:
        """AST roots evaluated at this node (used for scanning calls/reads)."""
        if self.kind in ("stmt",):
            if isinstance(self.ast, (ast.FunctionDef, ast.ClassDef)):
                return list(self.ast.decorator_list)
            return [self.ast]
        if self.expr is None:
            return []
        if isinstance(self.expr, list):
            return self.expr
        return [self.expr]

    def walk(self) -> Iterable[ast.AST]:
        for e in self.exprs():
            yield from walk_no_defs(e)

    def calls(self) -> list[ast.Call]:
        return [n for n in self.walk() if isinstance(n, ast.Call)]

    def __repr__(self):
        try:
            txt = ast.unparse(self.exprs()[0]).split("\n")[0][:60] if self.exprs() else ""
        except Exception:
            txt = ""
        ck = "" if self.copy_kind == "normal" else f"/{self.copy_kind}"
        return f"<{self.id}:{self.kind}{ck}@{self.lineno} {txt}>"


def walk_no_defs(node):
    """ast.walk that does not descend into nested function/class bodies (lambda bodies and
    comprehensions are kept)."""
    stack = [node]
    while stack:
        n = stack.pop()
        yield n
        for ch in ast.iter_child_nodes(n):
            if isinstance(ch, (ast.FunctionDef, ast.AsyncFunctionDef, ast.ClassDef)):
                continue
            stack.append(ch)


def default_may_raise(node: Node) -> bool:
    if node.kind in ("with_enter", "with_exit", "iter"):
        return True
    if node.kind == "stmt" and isinstance(node.ast, (ast.Raise, ast.Assert)):
        return True
    for n in node.walk():
        if isinstance(n, (ast.Call, ast.Yield, ast.YieldFrom, ast.Await)):
            return True
    return False


class _Loop:
    def __init__(self, head):
        self.head = head
        self.breaks: list[tuple[Node, str]] = []


class _Try:
    def __init__(self, first_matcher):
        self.first_matcher = first_matcher


class _Finally:
    def __init__(self, build):
        self.build = build  # (dangling, frames, copy_kind) -> dangling
        self.copies: dict[str, Node] = {}


class CFG:
    stats = {"cfgs": 0, "nodes": 0, "edges": 0, "functions": set()}

    def __init__(self, func_node: ast.FunctionDef, may_raise: Callable[[Node], bool] | None = None,
                 name: str = ""):
        self.func = func_node
        self.name = name or func_node.name
        self.nodes: list[Node] = []
        self.may_raise = may_raise or default_may_raise
        self.entry = self._new("entry")
        self.exit = self._new("exit")  # normal return
        self.raise_exit = self._new("raise")  # exception propagates out of the function
        self._by_ast: dict[int, list[Node]] = {}
        self._ck = "normal"
        d = self._seq(func_node.body, [(self.entry, "n")], ())
        self._connect(d, self.exit)
        CFG.stats["cfgs"] += 1
        CFG.stats["nodes"] += len(self.nodes)
        CFG.stats["edges"] += sum(len(n.succ) for n in self.nodes)
        CFG.stats["functions"].add(self.name)

    # ----------------------------------------------------------------- building
    def _new(self, kind, ast_node=None, expr=None) -> Node:
        n = Node(len(self.nodes), kind, ast_node, expr, getattr(self, "_ck", "normal"))
        self.nodes.append(n)
        if ast_node is not None:
            self._by_ast.setdefault(id(ast_node), []).append(n)
        return n

    def _edge(self, a: Node, kind: str, b: Node) -> None:
        if (kind, b) not in a.succ:
            a.succ.append((kind, b))
            b.pred.append((kind, a))

    def _connect(self, dangling, node: Node) -> None:
        for a, k in dangling:
            self._edge(a, k, node)

    def _seq(self, stmts, dangling, frames):
        for st in stmts:
            dangling = self._stmt(st, dangling, frames)
        return dangling

    def _raise_from(self, node: Node, frames) -> None:
        self._edge(node, "e", self._exc_target(frames))

    def _exc_target(self, frames) -> Node:
        for i in range(len(frames) - 1, -1, -1):
            fr = frames[i]
            if isinstance(fr, _Try):
                return fr.first_matcher
            if isinstance(fr, _Finally):
                return self._finally_copy(fr, frames[:i], "exc")
        return self.raise_exit

    def _finally_copy(self, fr: _Finally, outer, kind: str) -> Node:
        """Entry node of the copy of a finally suite for the continuation `kind`."""
        if kind in fr.copies:
            return fr.copies[kind]
        saved = self._ck
        self._ck = kind
        entry = self._new("join")
        fr.copies[kind] = entry
        d = fr.build([(entry, "n")], outer, kind)
        # continue with the interrupted control transfer
        if kind == "exc":
            if d:
                tail = self._new("join")
                self._connect(d, tail)
                self._edge(tail, "reraise", self._exc_target(outer))
        elif kind == "return":
            self._route_return(d, outer)
        elif kind in ("break", "continue"):
            self._route_loop(d, outer, kind)
        self._ck = saved
        return entry

    def _route_return(self, dangling, frames) -> None:
        for i in range(len(frames) - 1, -1, -1):
            fr = frames[i]
            if isinstance(fr, _Finally):
                self._connect(dangling, self._finally_copy(fr, frames[:i], "return"))
                return
        self._connect(dangling, self.exit)

    def _route_loop(self, dangling, frames, kind) -> None:
        for i in range(len(frames) - 1, -1, -1):
            fr = frames[i]
            if isinstance(fr, _Finally):
                self._connect(dangling, self._finally_copy(fr, frames[:i], kind))
                return
            if isinstance(fr, _Loop):
                if kind == "break":
                    fr.breaks.extend(dangling)
                else:
                    self._connect(dangling, fr.head)
                return
        raise AnalysisError(f"{kind} outside loop in {self.name}")

    def _simple(self, st, dangling, frames, kind="stmt", expr=None) -> Node:
        n = self._new(kind, st, expr)
        self._connect(dangling, n)
        if self.may_raise(n):
            self._raise_from(n, frames)
        return n

    def _stmt(self, st, dangling, frames):
        if not dangling:
            # unreachable code: still build it (so nodes exist), disconnected
            pass
        if isinstance(st, ast.Return):
            n = self._simple(st, dangling, frames)
            self._route_return([(n, "n")], frames)
            return []
        if isinstance(st, ast.Raise):
            n = self._new("stmt", st)
            self._connect(dangling, n)
            self._raise_from(n, frames)
            return []
        if isinstance(st, ast.Break):
            n = self._simple(st, dangling, frames)
            self._route_loop([(n, "n")], frames, "break")
            return []
        if isinstance(st, ast.Continue):
            n = self._simple(st, dangling, frames)
            self._route_loop([(n, "n")], frames, "continue")
            return []
        if isinstance(st, SIMPLE):
            n = self._simple(st, dangling, frames)
            if isinstance(st, ast.Assert) and _const_false(st.test):
                return []
            return [(n, "n")]
        if isinstance(st, ast.If):
            t = self._simple(st, dangling, frames, "test", st.test)
            c = _const_truth(st.test)
            a = self._seq(st.body, [] if c is False else [(t, "t")], frames)
            b = self._seq(st.orelse, [] if c is True else [(t, "f")], frames)
            return a + b
        if isinstance(st, ast.While):
            t = self._simple(st, dangling, frames, "test", st.test)
            loop = _Loop(t)
            c = _const_truth(st.test)
            body = self._seq(st.body, [(t, "t")], frames + (loop,))
            self._connect(body, t)
            out = self._seq(st.orelse, [] if c is True else [(t, "f")], frames)
            return out + loop.breaks
        if isinstance(st, (ast.For,)):
            h = self._simple(st, dangling, frames, "iter", [st.iter, st.target])
            loop = _Loop(h)
            body = self._seq(st.body, [(h, "loop")], frames + (loop,))
            self._connect(body, h)
            out = self._seq(st.orelse, [(h, "done")], frames)
            return out + loop.breaks
        if isinstance(st, ast.With):
            return self._with(st, 0, dangling, frames)
        if isinstance(st, ast.Try):
            return self._try(st, dangling, frames)
        raise AnalysisError(
            f"unsupported statement {type(st).__name__} at line {st.lineno} in {self.name}")

    def _with(self, st: ast.With, idx: int, dangling, frames):
        item = st.items[idx]
        exprs = [item.context_expr] + ([item.optional_vars] if item.optional_vars else [])
        enter = self._new("with_enter", st, exprs)
        enter.extra = item
        self._connect(dangling, enter)
        if self.may_raise(enter):
            self._raise_from(enter, frames)

        def build(d, outer, kind, item=item, st=st):
            x = self._new("with_exit", st, [])
            x.extra = item
            self._connect(d, x)
            return [(x, "n")]

        fin = _Finally(build)
        inner = frames + (fin,)
        if idx + 1 < len(st.items):
            d = self._with(st, idx + 1, [(enter, "n")], inner)
        else:
            d = self._seq(st.body, [(enter, "n")], inner)
        return build(d, frames, "normal")

    def _try(self, st: ast.Try, dangling, frames):
        fin = None
        base = frames
        if st.finalbody:
            def build(d, outer, kind, st=st):
                return self._seq(st.finalbody, d, outer)
            fin = _Finally(build)
            base = frames + (fin,)
        matchers = []
        for h in st.handlers:
            m = self._new("except", h, h.type)
            matchers.append(m)
        body_frames = base
        if matchers:
            body_frames = base + (_Try(matchers[0]),)
        d_body = self._seq(st.body, dangling, body_frames)
        d_else = self._seq(st.orelse, d_body, base)
        out = list(d_else)
        for i, (h, m) in enumerate(zip(st.handlers, matchers)):
            out += self._seq(h.body, [(m, "match")], base)
            if not _catches_everything(h.type):
                nxt = matchers[i + 1] if i + 1 < len(matchers) else self._exc_target(base)
                self._edge(m, "nomatch", nxt)
        if fin is not None:
            out = fin.build(out, frames, "normal")
        return out

    # ----------------------------------------------------------------- queries
    def nodes_of(self, ast_node) -> list[Node]:
        return self._by_ast.get(id(ast_node), [])

    def stmt_nodes(self) -> list[Node]:
        return [n for n in self.nodes if n.kind not in ("entry", "exit", "raise", "join")]

    def reachable(self, srcs, avoid_nodes=(), avoid_edges=(), edge_ok=None) -> set[Node]:
        """Nodes reachable from srcs (inclusive) without entering avoid_nodes / using
        avoid_edges ((node, kind, node) triples)."""
        avoid = set(avoid_nodes)
        ae = set(avoid_edges)
        seen = set()
        dq = deque(s for s in srcs if s not in avoid)
        seen.update(dq)
        while dq:
            n = dq.popleft()
            for k, m in n.succ:
                if m in seen or m in avoid or (n, k, m) in ae:
                    continue
                if edge_ok is not None and not edge_ok(n, k, m):
                    continue
                seen.add(m)
                dq.append(m)
        return seen

    def path(self, src: Node, dst_set, avoid_nodes=(), avoid_edges=(), edge_ok=None):
        """Shortest path (list of nodes) from src to any node in dst_set, or None."""
        avoid = set(avoid_nodes)
        ae = set(avoid_edges)
        dst_set = set(dst_set)
        if src in avoid:
            return None
        prev = {src: None}
        dq = deque([src])
        while dq:
            n = dq.popleft()
            if n in dst_set and (n is not src or False):
                out = []
                while n is not None:
                    out.append(n)
                    n = prev[n]
                return list(reversed(out))
            for k, m in n.succ:
                if m in prev or m in avoid or (n, k, m) in ae:
                    continue
                if edge_ok is not None and not edge_ok(n, k, m):
                    continue
                prev[m] = n
                dq.append(m)
        if src in dst_set:
            return [src]
        return None

    def dominated_by(self, target: Node, guards, edges=()) -> bool:
        """True iff every path entry→target passes through a node in `guards` or an edge in
        `edges`."""
        return target not in self.reachable([self.entry], avoid_nodes=guards, avoid_edges=edges)

    def witness(self, target_set, guards=(), edges=(), src=None, edge_ok=None) -> str | None:
        p = self.path(src or self.entry, target_set, guards, edges, edge_ok)
        if p is None:
            return None
        return " -> ".join(f"{n.kind}@{n.lineno}" for n in p if n.kind != "join")


def _const_truth(e):
    if isinstance(e, ast.Constant):
        return bool(e.value)
    return None


def _const_false(e):
    return isinstance(e, ast.Constant) and not e.value


def _catches_everything(t) -> bool:
    if t is None:
        return True
    names = []
    if isinstance(t, ast.Tuple):
        names = [getattr(x, "id", getattr(x, "attr", None)) for x in t.elts]
    else:
        names = [getattr(t, "id", getattr(t, "attr", None))]
    return "BaseException" in names


def handler_names(t) -> list[str]:
    """Simple class names caught by an except clause type expression."""
    if t is None:
        return ["BaseException"]
    elts = t.elts if isinstance(t, ast.Tuple) else [t]
    out = []
    for x in elts:
        if isinstance(x, ast.Name):
            out.append(x.id)
        elif isinstance(x, ast.Attribute):
            out.append(x.attr)
        else:
            out.append("?")
    return out
