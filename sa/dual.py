"""Direction duality: structural matching of the two arms of a direction site.

`match(a, b)` walks two ASTs in lock step.  Where they differ in a way that the involution
delta (min<->max, <<->>, asc<->desc, sorted(..)<->sorted(.., reverse=True), 'less'<->'greater',
x<->-x, a+d<->a-d under a comparison, xs[k]<->xs[-(k+1)]) explains, a *direction pair* is
recorded; anything else is a structural mismatch (None).  A site is dual iff the match succeeds,
at least one pair exists and every pair is made of opposite tokens.
"""
from __future__ import annotations

import ast

from .loader import dotted, norm

FN_SWAP = {}
for a, b in (("min", "max"), ("nanmin", "nanmax"), ("argmin", "argmax"), ("nanargmin", "nanargmax"),
             ("asc", "desc"), ("find_min_value_trial_id", "find_max_value_trial_id"),
             ("minimum", "maximum"), ("fmin", "fmax"), ("cummin", "cummax"), ("amin", "amax")):
    FN_SWAP[a] = ("lo", b)
    FN_SWAP[b] = ("hi", a)
STR_SWAP = {"less": ("lo", "greater"), "greater": ("hi", "less")}
ORDER_OPS = {ast.Lt: "lt", ast.LtE: "lt", ast.Gt: "gt", ast.GtE: "gt"}
SORTED_NAMES: set[str] = set()  # names known to hold ascending-sorted sequences in the current function


class Pair:
    __slots__ = ("kind", "a", "b", "node_a", "node_b")

    def __init__(self, kind, a, b, node_a=None, node_b=None):
        self.kind, self.a, self.b, self.node_a, self.node_b = kind, a, b, node_a, node_b

    @property
    def dual(self) -> bool:
        return self.kind != "asym" and self.a != self.b

    def __repr__(self):
        return f"{self.kind}:{self.a}/{self.b}"


def _last_base(name: str) -> str:
    """Family of a swappable name: min/max -> 'min|max'."""
    other = FN_SWAP[name][1]
    return "|".join(sorted((name, other)))


def _last(name: str | None) -> str | None:
    return name.split(".")[-1] if name else None


def _rev_index(e: ast.AST):
    """xs[-(k + 1)] -> k ; xs[-1] -> Constant 0 ; else None."""
    if isinstance(e, ast.UnaryOp) and isinstance(e.op, ast.USub):
        o = e.operand
        if isinstance(o, ast.BinOp) and isinstance(o.op, ast.Add) and isinstance(o.right, ast.Constant) and o.right.value == 1:
            return o.left
        if isinstance(o, ast.Constant) and isinstance(o.value, int) and o.value >= 1:
            return ast.Constant(o.value - 1)
    return None


def _sorted_dir(c: ast.Call):
    if isinstance(c, ast.Call) and _last(dotted(c.func)) in ("sorted", "sort", "argsort"):
        for k in c.keywords:
            if k.arg == "reverse":
                if isinstance(k.value, ast.Constant):
                    return "desc" if k.value.value else "asc"
                return "?"
        return "asc"
    return None


def match(a, b, under_cmp=False) -> list[Pair] | None:
    """Direction pairs explaining the differences between a and b, or None."""
    # lists of statements / nodes
    if isinstance(a, list) and isinstance(b, list):
        if len(a) != len(b):
            return None
        out = []
        for x, y in zip(a, b):
            r = match(x, y)
            if r is None:
                return None
            out += r
        return out
    if a is None or b is None:
        return [] if a is b else None
    # sign: x vs -x
    a_neg = isinstance(a, ast.UnaryOp) and isinstance(a.op, ast.USub)
    b_neg = isinstance(b, ast.UnaryOp) and isinstance(b.op, ast.USub)
    if a_neg != b_neg:
        inner = match(a.operand if a_neg else a, b.operand if b_neg else b)
        if inner is None:
            return None
        return [Pair("sign", "neg" if a_neg else "pos", "neg" if b_neg else "pos", a, b)] + inner
    if type(a) is not type(b):
        return None
    if isinstance(a, ast.Constant):
        if isinstance(a.value, str) and isinstance(b.value, str) and a.value in STR_SWAP and b.value in STR_SWAP:
            return [Pair("alt", STR_SWAP[a.value][0], STR_SWAP[b.value][0], a, b)]
        return [] if a.value == b.value and type(a.value) is type(b.value) else None
    if isinstance(a, ast.Name):
        if a.id in FN_SWAP and b.id in FN_SWAP and _last_base(a.id) == _last_base(b.id):
            return [Pair("fn", FN_SWAP[a.id][0], FN_SWAP[b.id][0], a, b)]
        return [] if a.id == b.id else None
    if isinstance(a, ast.Attribute):
        if a.attr in FN_SWAP and b.attr in FN_SWAP and norm(a.value) == norm(b.value) \
                and _last_base(a.attr) == _last_base(b.attr):
            return [Pair("fn", FN_SWAP[a.attr][0], FN_SWAP[b.attr][0], a, b)]
        if a.attr != b.attr:
            return None
        return match(a.value, b.value)
    if isinstance(a, ast.Compare):
        if len(a.ops) != len(b.ops):
            return None
        out = []
        la, lb = a.left, b.left
        for oa, ra, ob, rb in zip(a.ops, a.comparators, b.ops, b.comparators):
            ta, tb = ORDER_OPS.get(type(oa)), ORDER_OPS.get(type(ob))
            if ta and tb:
                # same operand order?
                m1 = _m2(la, lb, ra, rb, True)
                if m1 is not None:
                    out += [Pair("cmp", ta, tb, a, b)] + m1
                else:
                    m2 = _m2(la, rb, ra, lb, True)  # operands swapped: flips b's direction
                    if m2 is None:
                        # both arms are order comparisons but of different quantities: the arms
                        # cannot be mirror images of each other (one side clamps, offsets, ...)
                        out += [Pair("cmp", ta, tb, a, b), Pair("asym", norm(a)[:60], norm(b)[:60], a, b)]
                    else:
                        out += [Pair("cmp", ta, "lt" if tb == "gt" else "gt", a, b)] + m2
            else:
                if type(oa) is not type(ob):
                    return None
                m = _m2(la, lb, ra, rb, False)
                if m is None:
                    return None
                out += m
            la, lb = ra, rb
        return out
    if isinstance(a, ast.BinOp):
        if under_cmp and isinstance(a.op, (ast.Add, ast.Sub)) and isinstance(b.op, (ast.Add, ast.Sub)):
            m = _m2(a.left, b.left, a.right, b.right, False)
            if m is None:
                return None
            return [Pair("shift", "add" if isinstance(a.op, ast.Add) else "sub",
                         "add" if isinstance(b.op, ast.Add) else "sub", a, b)] + m
        # percentile mirror: p vs (100 - p) is handled by the one-armed idiom, not here
        if type(a.op) is not type(b.op):
            return None
        return _m2(a.left, b.left, a.right, b.right, False)
    if isinstance(a, ast.Subscript):
        base = match(a.value, b.value)
        if base is None:
            return None
        ra, rb = _rev_index(a.slice), _rev_index(b.slice)
        if (ra is None) != (rb is None):
            ia = ra if ra is not None else a.slice
            ib = rb if rb is not None else b.slice
            m = match(ia, ib)
            if m is None:
                return None
            return base + [Pair("idx", "rev" if ra is not None else "fwd", "rev" if rb is not None else "fwd", a, b)] + m
        m = match(a.slice, b.slice)
        if m is None:
            return None
        if under_cmp and ra is None and norm(a.value) in SORTED_NAMES and not isinstance(a.slice, ast.Slice):
            # element of a sorted list compared in both arms with the same index: the mirror
            # image must index from the other end
            return base + [Pair("idx", "fwd", "fwd", a, b)] + m
        if under_cmp and ra is not None and norm(a.value) in SORTED_NAMES:
            return base + [Pair("idx", "rev", "rev", a, b)] + m
        return base + m
    if isinstance(a, ast.Call):
        sa, sb = _sorted_dir(a), _sorted_dir(b)
        out = []
        if sa is not None and sb is not None:
            fm = match(a.func, b.func)
            if fm is None:
                return None
            out += fm + [Pair("sort", sa, sb, a, b)]
            ka = [k for k in a.keywords if k.arg != "reverse"]
            kb = [k for k in b.keywords if k.arg != "reverse"]
        else:
            fm = match(a.func, b.func)
            if fm is None:
                return None
            out += fm
            ka, kb = list(a.keywords), list(b.keywords)
        if len(a.args) != len(b.args) or len(ka) != len(kb):
            return None
        for x, y in zip(a.args, b.args):
            m = match(x, y)
            if m is None:
                return None
            out += m
        for x, y in zip(sorted(ka, key=lambda k: k.arg or ""), sorted(kb, key=lambda k: k.arg or "")):
            if x.arg != y.arg:
                return None
            m = match(x.value, y.value)
            if m is None:
                return None
            out += m
        return out
    # generic: same fields
    out = []
    for fld in a._fields:
        va, vb = getattr(a, fld, None), getattr(b, fld, None)
        if isinstance(va, list):
            if not isinstance(vb, list) or len(va) != len(vb):
                return None
            for x, y in zip(va, vb):
                if isinstance(x, ast.AST):
                    m = match(x, y)
                    if m is None:
                        return None
                    out += m
                elif x != y:
                    return None
        elif isinstance(va, ast.AST):
            if not isinstance(vb, ast.AST):
                return None
            if isinstance(va, (ast.expr_context, ast.operator, ast.unaryop, ast.boolop, ast.cmpop)):
                if type(va) is not type(vb):
                    return None
                continue
            m = match(va, vb)
            if m is None:
                return None
            out += m
        else:
            if va != vb and fld not in ("lineno", "col_offset", "end_lineno", "end_col_offset", "type_comment", "kind"):
                return None
    return out


def _m2(a1, b1, a2, b2, under_cmp):
    m1 = match(a1, b1, under_cmp)
    if m1 is None:
        return None
    m2 = match(a2, b2, under_cmp)
    if m2 is None:
        return None
    return m1 + m2


def order_sensitive(node) -> bool:
    """Does the code contain order-dependent operations at all?"""
    nodes = node if isinstance(node, list) else [node]
    for n in nodes:
        for x in ast.walk(n):
            if isinstance(x, ast.Compare) and any(type(o) in ORDER_OPS for o in x.ops):
                return True
            if isinstance(x, (ast.Name, ast.Attribute)):
                nm = x.id if isinstance(x, ast.Name) else x.attr
                if nm in FN_SWAP or nm in ("sorted", "sort", "argsort", "percentile", "nanpercentile"):
                    return True
            if isinstance(x, ast.Constant) and isinstance(x.value, str) and x.value in STR_SWAP:
                return True
    return False
