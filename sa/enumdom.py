"""Finite-domain evaluation of guards over TrialState (used for compare-and-set rules).

A function's CFG is explored for one concrete assignment of enum members to a handful of
expressions (the requested state, the stored state).  Tests that are decidable under the
assignment follow one edge, all others both.  Nothing is executed: expressions are evaluated
structurally.
"""
from __future__ import annotations

import ast

from .cfg import CFG, Node
from .loader import dotted, norm

TRIAL_STATES = ["RUNNING", "COMPLETE", "PRUNED", "FAIL", "WAITING"]
FINISHED = {"COMPLETE", "PRUNED", "FAIL"}


def member_of(e: ast.AST, env: dict[str, str]) -> str | None:
    """Enum member name denoted by expression e under env (expr text -> member)."""
    t = norm(e)
    if t in env:
        return env[t]
    d = dotted(e)
    if d and d.split(".")[-2:-1] == ["TrialState"] and d.split(".")[-1] in TRIAL_STATES:
        return d.split(".")[-1]
    return None


def ev(e: ast.AST, env: dict[str, str], call_models=None, _depth=0):
    """True / False / None (unknown)."""
    if isinstance(e, ast.Constant):
        return bool(e.value)
    if isinstance(e, ast.Name):
        # a named condition (`is_running_request = state == TrialState.RUNNING`): evaluate its single definition
        d = env.get("__defs__", {}).get(e.id) if isinstance(env.get("__defs__"), dict) else None
        if d is not None and _depth < 3 and not isinstance(d, ast.Name):
            return ev(d, env, call_models, _depth + 1)
        return None
    if isinstance(e, ast.UnaryOp) and isinstance(e.op, ast.Not):
        v = ev(e.operand, env, call_models)
        return None if v is None else (not v)
    if isinstance(e, ast.BoolOp):
        vals = [ev(v, env, call_models) for v in e.values]
        if isinstance(e.op, ast.And):
            if any(v is False for v in vals):
                return False
            if all(v is True for v in vals):
                return True
            return None
        if any(v is True for v in vals):
            return True
        if all(v is False for v in vals):
            return False
        return None
    if isinstance(e, ast.Compare):
        # chained comparison a == b == c -> conjunction
        left = e.left
        res = True
        for op, right in zip(e.ops, e.comparators):
            a, b = member_of(left, env), member_of(right, env)
            r = None
            if isinstance(op, (ast.Eq, ast.Is)) and a and b:
                r = a == b
            elif isinstance(op, (ast.NotEq, ast.IsNot)) and a and b:
                r = a != b
            elif isinstance(op, (ast.In, ast.NotIn)) and a and isinstance(right, (ast.Tuple, ast.List, ast.Set)):
                ms = [member_of(x, env) for x in right.elts]
                if all(ms):
                    r = (a in ms) if isinstance(op, ast.In) else (a not in ms)
            if r is None:
                return None
            if r is False:
                res = False
            left = right
        return res
    if isinstance(e, ast.Call):
        if isinstance(e.func, ast.Attribute) and e.func.attr == "is_finished" and not e.args:
            m = member_of(e.func.value, env)
            if m:
                return m in FINISHED
        if call_models:
            for cm in call_models:
                r = cm(e, env)
                if r is not None and r != "raise":
                    return r
    return None


def explore(g: CFG, env: dict[str, str], call_models=None, stop_at=(), return_edges=False):
    """Set of nodes reachable from entry under env.  `call_models`: callables (call, env) ->
    'raise' | True | False | None describing modelled callees.  Exploration does not continue
    past nodes in stop_at (they are included)."""
    if "__defs__" not in env and getattr(g, "func", None) is not None:
        from .expr import single_defs
        env = dict(env)
        env["__defs__"] = single_defs(g.func)
    seen = {g.entry}
    work = [g.entry]
    stop = set(stop_at)
    used_edges = set()
    while work:
        n = work.pop()
        if n in stop:
            continue
        edges = list(n.succ)
        # modelled raising calls
        raises = None
        if call_models:
            for c in n.calls():
                for cm in call_models:
                    r = cm(c, env)
                    if r == "raise":
                        raises = True
        if raises is True:
            edges = [(k, m) for k, m in edges if k == "e"]
        if n.kind == "test":
            v = ev(n.expr, env, call_models)
            if v is True:
                edges = [(k, m) for k, m in edges if k != "f"]
            elif v is False:
                edges = [(k, m) for k, m in edges if k != "t"]
        for k, m in edges:
            used_edges.add((n, k, m))
            if m not in seen:
                seen.add(m)
                work.append(m)
    if return_edges:
        return seen, used_edges
    return seen
