"""Expression normalisation helpers: single-assignment resolution, comparison normal form,
branch polarity of an atom inside a test expression."""
from __future__ import annotations

import ast
import copy

from .loader import norm, own_nodes

MIRROR = {ast.Lt: ast.Gt, ast.Gt: ast.Lt, ast.LtE: ast.GtE, ast.GtE: ast.LtE,
          ast.Eq: ast.Eq, ast.NotEq: ast.NotEq, ast.Is: ast.Is, ast.IsNot: ast.IsNot}
NEGATE = {ast.Lt: ast.GtE, ast.GtE: ast.Lt, ast.Gt: ast.LtE, ast.LtE: ast.Gt,
          ast.Eq: ast.NotEq, ast.NotEq: ast.Eq, ast.Is: ast.IsNot, ast.IsNot: ast.Is,
          ast.In: ast.NotIn, ast.NotIn: ast.In}
OPSTR = {ast.Lt: "<", ast.Gt: ">", ast.LtE: "<=", ast.GtE: ">=", ast.Eq: "==", ast.NotEq: "!=",
         ast.Is: "is", ast.IsNot: "is not", ast.In: "in", ast.NotIn: "not in"}


def single_defs(func_node: ast.FunctionDef) -> dict[str, ast.AST]:
    """Locals bound exactly once by a plain `name = expr` (not params, loop/with/except targets,
    aug-assigned, or unpacking targets) -> their value expression."""
    counts: dict[str, int] = {}
    vals: dict[str, ast.AST] = {}
    a = func_node.args
    for x in a.posonlyargs + a.args + a.kwonlyargs + ([a.vararg] if a.vararg else []) + ([a.kwarg] if a.kwarg else []):
        counts[x.arg] = 2
    for n in own_nodes(func_node):
        if isinstance(n, ast.Assign):
            for t in n.targets:
                if isinstance(t, ast.Name):
                    counts[t.id] = counts.get(t.id, 0) + 1
                    vals[t.id] = n.value
                else:
                    for s in ast.walk(t):
                        if isinstance(s, ast.Name) and isinstance(s.ctx, ast.Store):
                            counts[s.id] = counts.get(s.id, 0) + 2
        elif isinstance(n, ast.AnnAssign) and isinstance(n.target, ast.Name):
            if n.value is not None:
                counts[n.target.id] = counts.get(n.target.id, 0) + 1
                vals[n.target.id] = n.value
        elif isinstance(n, (ast.AugAssign,)):
            if isinstance(n.target, ast.Name):
                counts[n.target.id] = counts.get(n.target.id, 0) + 2
        elif isinstance(n, (ast.For, ast.comprehension)):
            for s in ast.walk(n.target):
                if isinstance(s, ast.Name):
                    counts[s.id] = counts.get(s.id, 0) + 2
        elif isinstance(n, ast.With):
            for it in n.items:
                if it.optional_vars is not None:
                    for s in ast.walk(it.optional_vars):
                        if isinstance(s, ast.Name):
                            counts[s.id] = counts.get(s.id, 0) + 2
        elif isinstance(n, ast.ExceptHandler) and n.name:
            counts[n.name] = counts.get(n.name, 0) + 2
        elif isinstance(n, ast.NamedExpr) and isinstance(n.target, ast.Name):
            counts[n.target.id] = counts.get(n.target.id, 0) + 2
    return {k: v for k, v in vals.items() if counts.get(k) == 1}


class _Subst(ast.NodeTransformer):
    def __init__(self, defs, depth):
        self.defs = defs
        self.depth = depth

    def visit_Name(self, node):
        if isinstance(node.ctx, ast.Load) and node.id in self.defs and self.depth > 0:
            v = copy.deepcopy(self.defs[node.id])
            return _Subst(self.defs, self.depth - 1).visit(v)
        return node


def resolve(expr: ast.AST, defs: dict[str, ast.AST], depth: int = 3) -> ast.AST:
    """Substitute single-assignment locals by their defining expressions (bounded depth)."""
    return _Subst(defs, depth).visit(copy.deepcopy(expr))


def inline_simple_calls(expr: ast.AST, lookup, depth: int = 2) -> ast.AST:
    """Replace calls `self.m(a, b)` / `m(a, b)` whose callee body is `[docstring|assert]* return <expr>`
    by that expression with the parameters substituted (a maintainer's "extract method" undone).
    `lookup(call) -> ast.FunctionDef | None` resolves the callee."""
    if depth <= 0:
        return expr

    class T(ast.NodeTransformer):
        def visit_Call(self, node):
            self.generic_visit(node)
            fn = lookup(node)
            if fn is None:
                return node
            body = [st for st in fn.body if not isinstance(st, ast.Assert)
                    and not (isinstance(st, ast.Expr) and isinstance(st.value, ast.Constant))]
            ret_expr = None
            if len(body) == 1 and isinstance(body[0], ast.Return) and body[0].value is not None:
                ret_expr = body[0].value
            elif len(body) >= 2 and isinstance(body[-1], ast.Return) and body[-1].value is not None:
                # guard-style boolean helper: `if c: return False` ... `return E`  ==  (not c) and ... and E
                #                             `if c: return True`  ... `return E`  ==  c or ... or E      (one kind per helper)
                kinds, conds = set(), []
                for st in body[:-1]:
                    if not (isinstance(st, ast.If) and not st.orelse and len(st.body) == 1 and isinstance(st.body[0], ast.Return)
                            and isinstance(st.body[0].value, ast.Constant) and isinstance(st.body[0].value.value, bool)):
                        kinds = None
                        break
                    kinds.add(st.body[0].value.value)
                    conds.append(st.test)
                if kinds == {False}:
                    ret_expr = ast.BoolOp(op=ast.And(), values=[ast.UnaryOp(op=ast.Not(), operand=c) for c in conds] + [body[-1].value])
                elif kinds == {True}:
                    ret_expr = ast.BoolOp(op=ast.Or(), values=list(conds) + [body[-1].value])
            if ret_expr is None:
                return node
            params = [a.arg for a in fn.args.posonlyargs + fn.args.args]
            if params and params[0] in ("self", "cls") and isinstance(node.func, ast.Attribute):
                params = params[1:]
            if fn.args.vararg or fn.args.kwarg or any(isinstance(a, ast.Starred) for a in node.args):
                return node
            binding = {}
            for name, a in zip(params, node.args):
                binding[name] = a
            for k in node.keywords:
                if k.arg is None:
                    return node
                binding[k.arg] = k.value
            defaults = fn.args.defaults
            for name, d in zip(params[len(params) - len(defaults):], defaults):
                binding.setdefault(name, d)
            if any(name not in binding for name in params):
                return node
            out = _Subst(binding, 1).visit(copy.deepcopy(ret_expr))
            return inline_simple_calls(out, lookup, depth - 1)
    return T().visit(copy.deepcopy(expr))


def rnorm(expr: ast.AST, defs: dict[str, ast.AST], depth: int = 3) -> str:
    return norm(resolve(expr, defs, depth))


def cmp_atom(e: ast.AST):
    """(left_text, opclass, right_text) for a single-operator Compare, constants on the right."""
    if isinstance(e, ast.Compare) and len(e.ops) == 1:
        l, op, r = e.left, type(e.ops[0]), e.comparators[0]
        if isinstance(l, ast.Constant) and not isinstance(r, ast.Constant) and op in MIRROR:
            l, r, op = r, l, MIRROR[op]
        return norm(l), op, norm(r)
    return None


def edges_where(test: ast.AST, is_atom) -> dict[str, bool]:
    """For the test expression of a branch: {'t'|'f': polarity} meaning "on that outgoing edge
    the atom (recognised by is_atom(expr) -> True for the atom, False for its negation, None
    otherwise) is known to hold (True) / not hold (False)"."""
    r = is_atom(test)
    if r is not None:
        return {"t": r, "f": (not r)}
    if isinstance(test, ast.UnaryOp) and isinstance(test.op, ast.Not):
        inner = edges_where(test.operand, is_atom)
        out = {}
        if "t" in inner:
            out["f"] = inner["t"]
        if "f" in inner:
            out["t"] = inner["f"]
        return out
    if isinstance(test, ast.BoolOp):
        out = {}
        for v in test.values:
            inner = edges_where(v, is_atom)
            if isinstance(test.op, ast.And) and "t" in inner:
                out["t"] = inner["t"]
            if isinstance(test.op, ast.Or) and "f" in inner:
                out["f"] = inner["f"]
        return out
    return {}


def kleene(test: ast.AST, classify, asg: dict) -> bool | None:
    """Three-valued value of a test under an assignment of named atoms.
    classify(expr) -> (atom_name, polarity) for a recognised atom, None otherwise (unknown leaf)."""
    c = classify(test)
    if c is not None:
        name, pol = c
        return asg[name] if pol else (not asg[name])
    if isinstance(test, ast.UnaryOp) and isinstance(test.op, ast.Not):
        v = kleene(test.operand, classify, asg)
        return None if v is None else (not v)
    if isinstance(test, ast.BoolOp):
        vals = [kleene(v, classify, asg) for v in test.values]
        if isinstance(test.op, ast.And):
            if any(v is False for v in vals):
                return False
            return True if all(v is True for v in vals) else None
        if any(v is True for v in vals):
            return True
        return False if all(v is False for v in vals) else None
    return None


def edges_implying(test: ast.AST, classify, names: list[str], ok) -> set[str]:
    """Outgoing edges ('t'/'f') of a branch on which `ok(assignment)` holds for every assignment of
    the named atoms that is consistent with taking that edge (truth-table over the atoms; leaves that
    are not atoms are unknown and constrain nothing). Accepts nested/merged/negated/swapped forms."""
    import itertools
    out = set()
    for k in ("t", "f"):
        good = True
        for vals in itertools.product((True, False), repeat=len(names)):
            asg = dict(zip(names, vals))
            v = kleene(test, classify, asg)
            if v is None or v == (k == "t"):
                if not ok(asg):
                    good = False
                    break
        if good:
            out.add(k)
    return out


def const_str(e) -> str | None:
    return e.value if isinstance(e, ast.Constant) and isinstance(e.value, str) else None


def bitor_names(e: ast.AST, defs=None) -> set[str]:
    """Names (last attribute component) in an `a | b | c` chain, resolving single-def locals."""
    out = set()
    if defs and isinstance(e, ast.Name) and e.id in defs:
        return bitor_names(defs[e.id], defs)
    if isinstance(e, ast.BinOp) and isinstance(e.op, ast.BitOr):
        return bitor_names(e.left, defs) | bitor_names(e.right, defs)
    if isinstance(e, ast.Attribute):
        out.add(e.attr)
    elif isinstance(e, ast.Name):
        out.add(e.id)
    return out
