"""Parse the optuna package of a repository tree and build symbol tables.

Nothing here imports or executes repository code; everything is `ast`.
"""
from __future__ import annotations

import ast
import hashlib
import os
from typing import Iterator


class AnalysisError(Exception):
    """The analysis cannot be carried out (vanished anchor, unsupported shape...).

    Always leads to exit code 2, never to a VIOLATION and never to a pass.
    """


class Func:
    """A function or method definition with its context."""

    __slots__ = ("node", "module", "cls", "qualname", "parent")

    def __init__(self, node, module, cls, qualname, parent=None):
        self.node = node  # ast.FunctionDef
        self.module = module  # Module
        self.cls = cls  # Class | None
        self.qualname = qualname  # e.g. optuna.storages._in_memory.InMemoryStorage.get_trial
        self.parent = parent  # enclosing Func for nested defs

    @property
    def name(self) -> str:
        return self.node.name

    @property
    def short(self) -> str:
        """relative-file::Qual.name used in finding keys."""
        q = self.qualname[len(self.module.name) + 1 :]
        return f"{self.module.relpath}::{q}"

    def params(self) -> list[str]:
        a = self.node.args
        return [x.arg for x in a.posonlyargs + a.args + a.kwonlyargs]

    def decorators(self) -> list[str]:
        out = []
        for d in self.node.decorator_list:
            out.append(dotted(d.func if isinstance(d, ast.Call) else d) or "?")
        return out

    def __repr__(self):
        return f"<Func {self.qualname}>"


class Class:
    __slots__ = ("node", "module", "qualname", "methods", "bases", "_mro")

    def __init__(self, node, module, qualname):
        self.node = node
        self.module = module
        self.qualname = qualname
        self.methods: dict[str, Func] = {}
        self.bases: list[str] = [dotted(b) or "?" for b in node.bases]
        self._mro = None

    @property
    def name(self) -> str:
        return self.node.name

    def __repr__(self):
        return f"<Class {self.qualname}>"


class Module:
    __slots__ = ("name", "path", "relpath", "tree", "source", "funcs", "classes", "imports", "renamed_locals", "same_as_reference",
                 "digest", "lines")

    def __init__(self, name, path, relpath, source):
        self.name = name
        self.path = path
        self.relpath = relpath
        self.source = source
        self.lines = source.splitlines()
        self.tree = ast.parse(source, filename=path)  # raw until finish() has run
        self.digest = hashlib.sha256(source.encode()).hexdigest()[:16]
        self.renamed_locals = 0
        self.funcs: dict[str, Func] = {}  # top-level functions by name
        self.classes: dict[str, Class] = {}
        self.imports: dict[str, str] = {}  # local alias -> dotted target
        self.digest = hashlib.sha256(source.encode()).hexdigest()[:16]


_MIRROR_OPS = {ast.Lt: ast.Gt, ast.Gt: ast.Lt, ast.LtE: ast.GtE, ast.GtE: ast.LtE, ast.Eq: ast.Eq, ast.NotEq: ast.NotEq,
               ast.Is: ast.Is, ast.IsNot: ast.IsNot}


def _const_like(e: ast.AST) -> bool:
    """literals, -literals, None, UPPER_CASE names and Enum-style members (TrialState.COMPLETE, errno.EEXIST)"""
    if isinstance(e, ast.Constant):
        return True
    if isinstance(e, ast.UnaryOp) and isinstance(e.op, (ast.USub, ast.UAdd)) and isinstance(e.operand, ast.Constant):
        return True
    if isinstance(e, ast.Name):
        return e.id.isupper()
    if isinstance(e, ast.Attribute):
        return e.attr.isupper() and not isinstance(e.value, ast.Call)
    if isinstance(e, (ast.Tuple, ast.List, ast.Set)):
        return all(_const_like(x) for x in e.elts)
    return False


class _Canon(ast.NodeTransformer):
    """One canonical spelling for constructs a maintainer may write either way, applied to every module
    before any rule looks at it - so that no rule can depend on which spelling the source uses:

      * a single-operator comparison puts the constant-like operand (literal, None, UPPER_CASE name, Enum
        member) on the right; if both or neither operand is constant-like the operands are ordered by
        their text (`b > a` and `a < b` become the same node);
      * `if not c: A else: B` becomes `if c: B else: A` (also for conditional expressions).

    Line numbers of the operands are kept, so reports still point at the source line."""

    def visit_Compare(self, node):
        self.generic_visit(node)
        if len(node.ops) == 1 and type(node.ops[0]) in _MIRROR_OPS:
            l, r = node.left, node.comparators[0]
            cl, cr = _const_like(l), _const_like(r)
            swap = (cl and not cr) or (cl == cr and ast.unparse(l) > ast.unparse(r))
            if swap:
                new = ast.Compare(left=r, ops=[_MIRROR_OPS[type(node.ops[0])]()], comparators=[l])
                return ast.copy_location(new, node)
        return node

    _EXACT_NEG = {ast.Eq: ast.NotEq, ast.NotEq: ast.Eq, ast.Is: ast.IsNot, ast.IsNot: ast.Is, ast.In: ast.NotIn, ast.NotIn: ast.In}

    def visit_UnaryOp(self, node):
        self.generic_visit(node)
        # `not (a == b)` -> `a != b` (and is / in): exact negations only - `not (a < b)` is NOT `a >= b` for NaN
        if isinstance(node.op, ast.Not) and isinstance(node.operand, ast.Compare) and len(node.operand.ops) == 1 \
                and type(node.operand.ops[0]) in self._EXACT_NEG:
            c = node.operand
            new = ast.Compare(left=c.left, ops=[self._EXACT_NEG[type(c.ops[0])]()], comparators=c.comparators)
            return self.visit_Compare(ast.copy_location(new, node)) if True else new
        return node

    _NEGATIVE = {ast.NotEq: ast.Eq, ast.IsNot: ast.Is, ast.NotIn: ast.In}

    def _positive_test(self, node):
        """two-armed branch: strip a leading `not` / turn `!=`, `is not`, `not in` into the positive form and swap the arms"""
        t = node.test
        if isinstance(t, ast.UnaryOp) and isinstance(t.op, ast.Not):
            node.test, node.body, node.orelse = t.operand, node.orelse, node.body
        elif isinstance(t, ast.Compare) and len(t.ops) == 1 and type(t.ops[0]) in self._NEGATIVE:
            pos = ast.copy_location(ast.Compare(left=t.left, ops=[self._NEGATIVE[type(t.ops[0])]()], comparators=t.comparators), t)
            node.test, node.body, node.orelse = pos, node.orelse, node.body
        return node

    def visit_If(self, node):
        self.generic_visit(node)
        return self._positive_test(node) if node.orelse else node

    def visit_IfExp(self, node):
        self.generic_visit(node)
        return self._positive_test(node)


class _CanonStmts(ast.NodeTransformer):
    """Statement-level canonical spellings:

      * `x = x <op> e`                      -> `x <op>= e`            (plain names)
      * `if a: (if b: X)` (no else on both) -> `if a and b: X`
      * `t = e; return t` (t used nowhere else in the function) -> `return e`
    """

    def __init__(self):
        self.uses: list[dict[str, int]] = []

    def _count(self, fn):
        """names whose every occurrence is in an adjacent `x = e; return x` pair"""
        c: dict[str, int] = {}
        pairs: dict[str, int] = {}
        for n in ast.walk(fn):
            if isinstance(n, ast.Name):
                c[n.id] = c.get(n.id, 0) + 1
            for fld in ("body", "orelse", "finalbody"):
                b = getattr(n, fld, None)
                if isinstance(b, list):
                    for st, nxt in zip(b, b[1:]):
                        if (isinstance(st, ast.Assign) and len(st.targets) == 1 and isinstance(st.targets[0], ast.Name)
                                and isinstance(nxt, ast.Return) and isinstance(nxt.value, ast.Name) and nxt.value.id == st.targets[0].id):
                            pairs[nxt.value.id] = pairs.get(nxt.value.id, 0) + 1
        return {k: 2 for k, v in pairs.items() if c.get(k, 0) == 2 * v}

    def visit_FunctionDef(self, node):
        self.uses.append(self._count(node))
        self.generic_visit(node)
        self.uses.pop()
        return node

    visit_AsyncFunctionDef = visit_FunctionDef

    def visit_Assign(self, node):
        self.generic_visit(node)
        if (len(node.targets) == 1 and isinstance(node.targets[0], ast.Name) and isinstance(node.value, ast.BinOp)
                and isinstance(node.value.left, ast.Name) and node.value.left.id == node.targets[0].id):
            return ast.copy_location(ast.AugAssign(target=node.targets[0], op=node.value.op, value=node.value.right), node)
        return node

    def visit_If(self, node):
        self.generic_visit(node)
        if not node.orelse and len(node.body) == 1 and isinstance(node.body[0], ast.If) and not node.body[0].orelse:
            inner = node.body[0]
            vals = []
            for t in (node.test, inner.test):
                vals += t.values if isinstance(t, ast.BoolOp) and isinstance(t.op, ast.And) else [t]
            node.test = ast.copy_location(ast.BoolOp(op=ast.And(), values=vals), node.test)
            node.body = inner.body
        return node

    def generic_visit(self, node):
        super().generic_visit(node)
        if self.uses:
            for fld in ("body", "orelse", "finalbody"):
                b = getattr(node, fld, None)
                if isinstance(b, list) and len(b) >= 2 and isinstance(b[0], ast.stmt):
                    setattr(node, fld, self._fold_returns(b))
        return node

    def _fold_returns(self, body):
        out = []
        i = 0
        while i < len(body):
            st = body[i]
            nxt = body[i + 1] if i + 1 < len(body) else None
            if (isinstance(st, ast.Assign) and len(st.targets) == 1 and isinstance(st.targets[0], ast.Name)
                    and isinstance(nxt, ast.Return) and isinstance(nxt.value, ast.Name) and nxt.value.id == st.targets[0].id
                    and self.uses[-1].get(st.targets[0].id, 0) == 2):
                out.append(ast.copy_location(ast.Return(value=st.value), st))
                i += 2
                continue
            out.append(st)
            i += 1
        return out


_LOCALNAMES: dict | None = None


def _alpha_normalise(tree: ast.AST, relpath: str, digest: str | None = None) -> int:
    """rename recognised function locals back to the reference names (sa/alpha.py)"""
    if os.environ.get("VERIF_NO_ALPHA"):
        return 0
    ref = _localnames().get(relpath)
    if not ref or (digest is not None and ref.get("__digest__") == digest):
        return 0
    from . import alpha
    return alpha.normalise(tree, ref)


def canonicalise(tree: ast.AST) -> ast.AST:
    tree = _Canon().visit(tree)
    tree = _CanonStmts().visit(tree)
    ast.fix_missing_locations(tree)
    return tree


def _finish_modules(modules: dict) -> int:
    """Normalisation of all parsed modules (DESIGN.md 1.4): private-function names back to the reference
    names (package-wide, because callers live in other modules), then per module the function locals,
    then the canonical spellings."""
    ref = _localnames()
    if not os.environ.get("VERIF_NO_ALPHA") and ref:
        from . import alpha
        mapping: dict[str, str] = {}
        defined: dict[str, int] = {}
        for m in modules.values():
            for node in ast.walk(m.tree):
                if isinstance(node, (ast.FunctionDef, ast.AsyncFunctionDef, ast.ClassDef)):
                    defined[node.name] = defined.get(node.name, 0) + 1
        votes: dict[str, list[str]] = {}
        for m in modules.values():
            r = ref.get(m.relpath)
            if not r or r.get("__digest__") == m.digest or "__funcs__" not in r:
                continue
            for new, old in alpha.private_renames(m.tree, r["__funcs__"]):
                votes.setdefault(new, []).append(old)
        for new, olds in votes.items():
            # references are renamed package-wide by simple name: every definition carrying the new name must be a
            # recognised rename of the same reference name, and that reference name must be free
            if len(set(olds)) == 1 and len(olds) == defined.get(new, 0) and defined.get(olds[0], 0) == 0 \
                    and olds[0] not in mapping.values():
                mapping[new] = olds[0]
        if mapping:
            for m in modules.values():
                alpha.apply_name_renames(m.tree, mapping)
        n_private = len(mapping)
    else:
        n_private = 0
    for m in modules.values():
        m.same_as_reference = bool(ref.get(m.relpath, {}).get("__digest__") == m.digest) if ref else False
        m.renamed_locals = _alpha_normalise(m.tree, m.relpath, m.digest)  # before canonicalise: operand order depends on names
        m.tree = canonicalise(m.tree)
    return n_private


def _localnames() -> dict:
    global _LOCALNAMES
    if _LOCALNAMES is None:
        import json
        try:
            _LOCALNAMES = json.load(open(os.path.join(os.path.dirname(os.path.abspath(__file__)), "localnames.json")))
        except OSError:
            _LOCALNAMES = {}
    return _LOCALNAMES


def dotted(node) -> str | None:
    """`a.b.c` for Name/Attribute chains, else None."""
    parts = []
    while isinstance(node, ast.Attribute):
        parts.append(node.attr)
        node = node.value
    if isinstance(node, ast.Name):
        parts.append(node.id)
        return ".".join(reversed(parts))
    return None


class Program:
    """All parsed modules of `<repo>/optuna` plus lookup tables."""

    def __init__(self, repo: str | None, package: str = "optuna",
                 sources: dict[str, str] | None = None,
                 overrides: dict[str, str] | None = None):
        self.overrides = overrides or {}  # relpath -> replacement source (self-test variants)
        self.repo = os.path.abspath(repo) if repo else "<fixture>"
        self.package = package
        self.modules: dict[str, Module] = {}
        self.classes: dict[str, Class] = {}  # by qualified name
        self.classes_by_name: dict[str, list[Class]] = {}
        self.funcs: dict[str, Func] = {}  # every def by qualified name (methods, nested too)
        if sources is not None:
            for modname, src in sources.items():
                rel = modname.replace(".", "/") + ".py"
                self.modules[modname] = Module(modname, rel, rel, src)
            self.renamed_private_functions = _finish_modules(self.modules)
            for m in self.modules.values():
                self._index_module(m)
        else:
            self._load()

    @classmethod
    def from_sources(cls, sources: dict[str, str]) -> "Program":
        """A tiny program built from in-memory sources (used for rule fixtures)."""
        return cls(None, sources=sources)

    # ------------------------------------------------------------------ loading
    def _load(self) -> None:
        root = os.path.join(self.repo, self.package)
        if not os.path.isdir(root):
            raise AnalysisError(f"package directory {root} not found")
        for dirpath, dirnames, filenames in os.walk(root):
            dirnames[:] = sorted(d for d in dirnames if d != "__pycache__")
            for fn in sorted(filenames):
                if not fn.endswith(".py"):
                    continue
                path = os.path.join(dirpath, fn)
                rel = os.path.relpath(path, self.repo)
                modname = rel[:-3].replace(os.sep, ".")
                if modname.endswith(".__init__"):
                    modname = modname[: -len(".__init__")]
                if rel in self.overrides:
                    src = self.overrides[rel]
                else:
                    with open(path, encoding="utf-8") as f:
                        src = f.read()
                try:
                    m = Module(modname, path, rel, src)
                except SyntaxError as e:
                    raise AnalysisError(f"cannot parse {rel}: {e}")
                self.modules[modname] = m
        self.renamed_private_functions = _finish_modules(self.modules)
        for m in self.modules.values():
            self._index_module(m)

    def _index_module(self, m: Module) -> None:
        is_pkg = m.path.endswith("__init__.py")
        for node in ast.walk(m.tree):
            if isinstance(node, ast.Import):
                for a in node.names:
                    m.imports[a.asname or a.name.split(".")[0]] = a.name if a.asname else a.name.split(".")[0]
            elif isinstance(node, ast.ImportFrom):
                base = node.module or ""
                if node.level:
                    pkg = m.name.split(".")
                    if not is_pkg:
                        pkg = pkg[:-1]
                    pkg = pkg[: len(pkg) - (node.level - 1)]
                    base = ".".join(pkg + ([node.module] if node.module else []))
                for a in node.names:
                    m.imports[a.asname or a.name] = f"{base}.{a.name}"
            elif isinstance(node, ast.Assign) and len(node.targets) == 1:
                # repo idiom: models = _LazyImport("optuna.storages._rdb.models")
                t = node.targets[0]
                v = node.value
                if (isinstance(t, ast.Name) and isinstance(v, ast.Call)
                        and dotted(v.func) in ("_LazyImport", "optuna._imports._LazyImport")
                        and v.args and isinstance(v.args[0], ast.Constant)
                        and isinstance(v.args[0].value, str)):
                    m.imports[t.id] = v.args[0].value

        def visit_body(body, cls: Class | None, prefix: str, parent: Func | None):
            for st in body:
                if isinstance(st, (ast.FunctionDef, ast.AsyncFunctionDef)):
                    q = f"{prefix}.{st.name}"
                    f = Func(st, m, cls, q, parent)
                    # later definitions (e.g. property setters) must not hide the first,
                    # except that a real definition replaces typing @overload stubs
                    if q in self.funcs and "overload" in " ".join(self.funcs[q].decorators()):
                        self.funcs[q] = f
                        if cls is not None and parent is None:
                            cls.methods[st.name] = f
                        elif cls is None and parent is None:
                            m.funcs[st.name] = f
                    elif q in self.funcs:
                        q2 = q + "#" + str(st.lineno)
                        f.qualname = q
                        self.funcs[q2] = f
                    else:
                        self.funcs[q] = f
                        if cls is not None and parent is None:
                            cls.methods.setdefault(st.name, f)
                        elif cls is None and parent is None:
                            m.funcs.setdefault(st.name, f)
                    visit_nested(st.body, cls, q, f)
                elif isinstance(st, ast.ClassDef):
                    q = f"{prefix}.{st.name}"
                    c = Class(st, m, q)
                    self.classes[q] = c
                    self.classes_by_name.setdefault(st.name, []).append(c)
                    if parent is None and cls is None:
                        m.classes[st.name] = c
                    visit_body(st.body, c, q, None)
                elif isinstance(st, (ast.If, ast.Try)):
                    # module/class level conditional definitions (TYPE_CHECKING, try-import)
                    for sub in _sub_bodies(st):
                        visit_body(sub, cls, prefix, parent)

        def visit_nested(body, cls, prefix, parent):
            for st in body:
                for node in _iter_nested_defs(st):
                    if isinstance(node, (ast.FunctionDef, ast.AsyncFunctionDef)):
                        q = f"{prefix}.<locals>.{node.name}"
                        f = Func(node, m, cls, q, parent)
                        self.funcs.setdefault(q, f)
                        visit_nested(node.body, cls, q, f)

        visit_body(m.tree.body, None, m.name, None)

    # ------------------------------------------------------------------ lookup
    def module(self, name: str) -> Module:
        if name not in self.modules:
            raise AnalysisError(f"anchored module {name} not found")
        return self.modules[name]

    def func(self, qualname: str) -> Func:
        f = self.funcs.get(qualname)
        if f is None:
            raise AnalysisError(f"anchored function {qualname} not found")
        return f

    def cls(self, qualname: str) -> Class:
        c = self.classes.get(qualname)
        if c is None:
            raise AnalysisError(f"anchored class {qualname} not found")
        return c

    def has_func(self, qualname: str) -> bool:
        return qualname in self.funcs

    def resolve_name(self, m: Module, name: str) -> str | None:
        """Resolve a (possibly dotted) name used in module m to a qualified repo name."""
        head, _, rest = name.partition(".")
        if head in m.classes:
            base = m.classes[head].qualname
        elif head in m.funcs:
            base = m.funcs[head].qualname
        elif head in m.imports:
            base = m.imports[head]
        else:
            return None
        full = f"{base}.{rest}" if rest else base
        return self._follow_reexport(full)

    def _follow_reexport(self, full: str, depth: int = 0) -> str:
        """optuna.storages.BaseStorage -> optuna.storages._base.BaseStorage."""
        if depth > 6:
            return full
        if full in self.classes or full in self.funcs or full in self.modules:
            return full
        # split into module prefix + attr chain
        parts = full.split(".")
        for i in range(len(parts) - 1, 0, -1):
            mod = ".".join(parts[:i])
            if mod in self.modules:
                attr = parts[i]
                m = self.modules[mod]
                if attr in m.imports:
                    tgt = m.imports[attr]
                    rest = parts[i + 1 :]
                    return self._follow_reexport(".".join([tgt] + rest), depth + 1)
                break
        return full

    def resolve_class(self, m: Module, name: str) -> Class | None:
        q = self.resolve_name(m, name)
        if q and q in self.classes:
            return self.classes[q]
        return None

    def mro(self, c: Class) -> list[Class]:
        """Linearisation over repo classes (depth-first, left-to-right, dedup keeping last
        occurrence order compatible with C3 for the simple hierarchies of this repo)."""
        if c._mro is not None:
            return c._mro
        out: list[Class] = [c]
        seqs = []
        for b in c.bases:
            bc = self.resolve_class(c.module, b)
            if bc is not None and bc is not c:
                seqs.append(self.mro(bc))
        for s in seqs:
            for x in s:
                if x in out:
                    out.remove(x)
                out.append(x)
        c._mro = out
        return out

    def lookup_method(self, c: Class, name: str) -> Func | None:
        for k in self.mro(c):
            if name in k.methods:
                return k.methods[name]
        return None

    def subclasses(self, base: Class, strict: bool = True) -> list[Class]:
        out = []
        for c in self.classes.values():
            if base in self.mro(c) and (c is not base or not strict):
                out.append(c)
        return sorted(out, key=lambda c: c.qualname)

    def is_subclass_name(self, c: Class, base_simple_name: str) -> bool:
        for k in self.mro(c):
            if k.name == base_simple_name:
                return True
            for b in k.bases:
                if b.split(".")[-1] == base_simple_name:
                    return True
        return False

    def iter_funcs(self, module_prefixes: tuple[str, ...] | None = None) -> Iterator[Func]:
        seen = set()
        for q, f in sorted(self.funcs.items()):
            if id(f) in seen:
                continue
            seen.add(id(f))
            if module_prefixes is None or any(
                f.module.name == p or f.module.name.startswith(p + ".") for p in module_prefixes
            ):
                yield f


def _sub_bodies(st):
    if isinstance(st, ast.If):
        return [st.body, st.orelse]
    if isinstance(st, ast.Try):
        return [st.body, st.orelse, st.finalbody] + [h.body for h in st.handlers]
    return []


def _iter_nested_defs(st):
    """Yield function defs directly nested (at any statement depth, not inside other defs)."""
    if isinstance(st, (ast.FunctionDef, ast.AsyncFunctionDef)):
        yield st
        return
    if isinstance(st, ast.ClassDef):
        return
    for field in ("body", "orelse", "finalbody", "handlers"):
        for sub in getattr(st, field, []) or []:
            if isinstance(sub, ast.ExceptHandler):
                for s2 in sub.body:
                    yield from _iter_nested_defs(s2)
            elif isinstance(sub, ast.stmt):
                yield from _iter_nested_defs(sub)


def own_nodes(func_node) -> Iterator[ast.AST]:
    """All AST nodes of a function body excluding nested function/class bodies (lambdas and
    comprehensions are included: they run in the enclosing activation for our purposes)."""
    stack = list(reversed(func_node.body))
    while stack:
        n = stack.pop()
        yield n
        for ch in ast.iter_child_nodes(n):
            if isinstance(ch, (ast.FunctionDef, ast.AsyncFunctionDef, ast.ClassDef)):
                # yield the def node itself (decorators/defaults run), not its body
                yield ch
                continue
            stack.append(ch)


def norm(node) -> str:
    """Normalised source text of a node (formatting independent)."""
    try:
        return ast.unparse(node)
    except Exception:  # pragma: no cover
        return "<?>"
