"""Parse the optuna package of a repository tree and build symbol tables.

Nothing here imports or executes repository code; everything is `ast`.
"""
from __future__ import annotations

import ast
import hashlib
import os
from typing import Iterator


class AnalysisError(Exception):
    """The analysis cannot be carried out (vanished anchor, unsupported shape...).

    Always leads to exit code 2, never to a VIOLATION and never to a pass.
    """


class Func:
    """A function or method definition with its context."""

    __slots__ = ("node", "module", "cls", "qualname", "parent")

    def __init__(self, node, module, cls, qualname, parent=None):
        self.node = node  # ast.FunctionDef
        self.module = module  # Module
        self.cls = cls  # Class | None
        self.qualname = qualname  # e.g. optuna.storages._in_memory.InMemoryStorage.get_trial
        self.parent = parent  # enclosing Func for nested defs

    @property
    def name(self) -> str:
        return self.node.name

    @property
    def short(self) -> str:
        """relative-file::Qual.name used in finding keys."""
        q = self.qualname[len(self.module.name) + 1 :]
        return f"{self.module.relpath}::{q}"

    def params(self) -> list[str]:
        a = self.node.args
        return [x.arg for x in a.posonlyargs + a.args + a.kwonlyargs]

    def decorators(self) -> list[str]:
        out = []
        for d in self.node.decorator_list:
            out.append(dotted(d.func if isinstance(d, ast.Call) else d) or "?")
        return out

    def __repr__(self):
        return f"<Func {self.qualname}>"


class Class:
    __slots__ = ("node", "module", "qualname", "methods", "bases", "_mro")

    def __init__(self, node, module, qualname):
        self.node = node
        self.module = module
        self.qualname = qualname
        self.methods: dict[str, Func] = {}
        self.bases: list[str] = [dotted(b) or "?" for b in node.bases]
        self._mro = None

    @property
    def name(self) -> str:
        return self.node.name

    def __repr__(self):
        return f"<Class {self.qualname}>"


class Module:
    __slots__ = ("name", "path", "relpath", "tree", "source", "funcs", "classes", "imports", "renamed_locals", "same_as_reference",
                 "digest", "lines")

    def __init__(self, name, path, relpath, source):
        self.name = name
        self.path = path
        self.relpath = relpath
        self.source = source
        self.lines = source.splitlines()
        self.tree = ast.parse(source, filename=path)  # raw until finish() has run
        self.digest = hashlib.sha256(source.encode()).hexdigest()[:16]
        self.renamed_locals = 0
        self.funcs: dict[str, Func] = {}  # top-level functions by name
        self.classes: dict[str, Class] = {}
        self.imports: dict[str, str] = {}  # local alias -> dotted target
        self.digest = hashlib.sha256(source.encode()).hexdigest()[:16]


_MIRROR_OPS = {ast.Lt: ast.Gt, ast.Gt: ast.Lt, ast.LtE: ast.GtE, ast.GtE: ast.LtE, ast.Eq: ast.Eq, ast.NotEq: ast.NotEq,
               ast.Is: ast.Is, ast.IsNot: ast.IsNot}


def _const_like(e: ast.AST) -> bool:
    """literals, -literals, None, UPPER_CASE names and Enum-style members (TrialState.COMPLETE, errno.EEXIST)"""
    if isinstance(e, ast.Constant):
        return True
    if isinstance(e, ast.UnaryOp) and isinstance(e.op, (ast.USub, ast.UAdd)) and isinstance(e.operand, ast.Constant):
        return True
    if isinstance(e, ast.Name):
        return e.id.isupper()
    if isinstance(e, ast.Attribute):
        return e.attr.isupper() and not isinstance(e.value, ast.Call)
    if isinstance(e, (ast.Tuple, ast.List, ast.Set)):
        return all(_const_like(x) for x in e.elts)
    return False


class _Canon(ast.NodeTransformer):
    """One canonical spelling for constructs a maintainer may write either way, applied to every module
    before any rule looks at it - so that no rule can depend on which spelling the source uses:

      * a single-operator comparison puts the constant-like operand (literal, None, UPPER_CASE name, Enum
        member) on the right; if both or neither operand is constant-like the operands are ordered by
        their text (`b > a` and `a < b` become the same node);
      * `if not c: A else: B` becomes `if c: B else: A` (also for conditional expressions).

    Line numbers of the operands are kept, so reports still point at the source line."""

    def visit_Compare(self, node):
        self.generic_visit(node)
        if len(node.ops) == 1 and type(node.ops[0]) in _MIRROR_OPS:
            l, r = node.left, node.comparators[0]
            cl, cr = _const_like(l), _const_like(r)
            swap = (cl and not cr) or (cl == cr and ast.unparse(l) > ast.unparse(r))
            if swap:
                new = ast.Compare(left=r, ops=[_MIRROR_OPS[type(node.ops[0])]()], comparators=[l])
                return ast.copy_location(new, node)
        return node

    _EXACT_NEG = {ast.Eq: ast.NotEq, ast.NotEq: ast.Eq, ast.Is: ast.IsNot, ast.IsNot: ast.Is, ast.In: ast.NotIn, ast.NotIn: ast.In}

    def _neg(self, e):
        """negation normal form of `not e` (e already canonical): double negations removed, De Morgan applied,
        `not (a == b)` -> `a != b` for the exact negations (== / is / in) - `not (a < b)` stays: it is NOT `a >= b` for NaN"""
        if isinstance(e, ast.UnaryOp) and isinstance(e.op, ast.Not):
            return e.operand
        if isinstance(e, ast.BoolOp):
            other = ast.Or() if isinstance(e.op, ast.And) else ast.And()
            return ast.copy_location(ast.BoolOp(op=other, values=[self._neg(v) for v in e.values]), e)
        if isinstance(e, ast.Compare) and len(e.ops) == 1 and type(e.ops[0]) in self._EXACT_NEG:
            new = ast.Compare(left=e.left, ops=[self._EXACT_NEG[type(e.ops[0])]()], comparators=e.comparators)
            return self.visit_Compare(ast.copy_location(new, e))
        return ast.copy_location(ast.UnaryOp(op=ast.Not(), operand=e), e)

    def visit_UnaryOp(self, node):
        self.generic_visit(node)
        if isinstance(node.op, ast.Not):
            return ast.copy_location(self._neg(node.operand), node)
        return node

    _NEGATIVE = {ast.NotEq: ast.Eq, ast.IsNot: ast.Is, ast.NotIn: ast.In}

    def _negativity(self, t):
        """(number of negative atoms, 0 for and / 1 for or, text): the smaller of a test and its negation is kept"""
        neg = sum(1 for x in ast.walk(t) if (isinstance(x, ast.UnaryOp) and isinstance(x.op, ast.Not))
                  or (isinstance(x, ast.Compare) and len(x.ops) == 1 and type(x.ops[0]) in self._NEGATIVE))
        top = 1 if isinstance(t, ast.BoolOp) and isinstance(t.op, ast.Or) else 0
        return (neg, top, ast.unparse(t))

    def _positive_test(self, node):
        """two-armed branch: of the test and its negation (negation normal form) the one with fewer negative atoms is kept
        (ties: conjunction before disjunction, then text order) and the arms are swapped accordingly - `if not c: A else: B`,
        `if a != b: A else: B` and `if not a or not b: A else: B` all become the positive spelling with B first"""
        t = node.test
        n = self._neg(t)
        if self._negativity(n) < self._negativity(t):
            node.test, node.body, node.orelse = ast.copy_location(n, t), node.orelse, node.body
        return node

    def visit_If(self, node):
        self.generic_visit(node)
        return self._positive_test(node) if node.orelse else node

    def visit_IfExp(self, node):
        self.generic_visit(node)
        return self._positive_test(node)


class _CanonStmts(ast.NodeTransformer):
    """Statement-level canonical spellings:

      * `x = x <op> e`                      -> `x <op>= e`            (plain names)
      * `if a: (if b: X)` (no else on both) -> `if a and b: X`
      * `t = e; return t` (t used nowhere else in the function) -> `return e`
    """

    def __init__(self):
        self.uses: list[dict[str, int]] = []

    def _count(self, fn):
        """names whose every occurrence is in an adjacent `x = e; return x` pair"""
        c: dict[str, int] = {}
        pairs: dict[str, int] = {}
        for n in ast.walk(fn):
            if isinstance(n, ast.Name):
                c[n.id] = c.get(n.id, 0) + 1
            for fld in ("body", "orelse", "finalbody"):
                b = getattr(n, fld, None)
                if isinstance(b, list):
                    for st, nxt in zip(b, b[1:]):
                        if (isinstance(st, ast.Assign) and len(st.targets) == 1 and isinstance(st.targets[0], ast.Name)
                                and isinstance(nxt, ast.Return) and isinstance(nxt.value, ast.Name) and nxt.value.id == st.targets[0].id):
                            pairs[nxt.value.id] = pairs.get(nxt.value.id, 0) + 1
        return {k: 2 for k, v in pairs.items() if c.get(k, 0) == 2 * v}

    def visit_FunctionDef(self, node):
        self.uses.append(self._count(node))
        occ: dict[str, int] = {}
        for n in ast.walk(node):
            if isinstance(n, ast.Name):
                occ[n.id] = occ.get(n.id, 0) + 1
        if not hasattr(self, "test_temps"):
            self.test_temps = []
        self.test_temps.append(occ)
        self.generic_visit(node)
        self.uses.pop()
        self.test_temps.pop()
        return node

    visit_AsyncFunctionDef = visit_FunctionDef

    def visit_Assign(self, node):
        self.generic_visit(node)
        if (len(node.targets) == 1 and isinstance(node.targets[0], ast.Name) and isinstance(node.value, ast.BinOp)
                and isinstance(node.value.left, ast.Name) and node.value.left.id == node.targets[0].id):
            return ast.copy_location(ast.AugAssign(target=node.targets[0], op=node.value.op, value=node.value.right), node)
        return node

    def visit_If(self, node):
        self.generic_visit(node)
        if not node.orelse and len(node.body) == 1 and isinstance(node.body[0], ast.If) and not node.body[0].orelse:
            inner = node.body[0]
            vals = []
            for t in (node.test, inner.test):
                vals += t.values if isinstance(t, ast.BoolOp) and isinstance(t.op, ast.And) else [t]
            node.test = ast.copy_location(ast.BoolOp(op=ast.And(), values=vals), node.test)
            node.body = inner.body
        return node

    def generic_visit(self, node):
        super().generic_visit(node)
        if self.uses:
            for fld in ("body", "orelse", "finalbody"):
                b = getattr(node, fld, None)
                if isinstance(b, list) and len(b) >= 1 and isinstance(b[0], ast.stmt):
                    setattr(node, fld, self._fold_returns(b))
        return node

    def _ifexp_to_if(self, body):
        """`x = a if c else b` -> `if c: x = a else: x = b`; `return a if c else b` -> `if c: return a else: return b`
        (the branch becomes visible to the control-flow graph; nested conditional expressions stay expressions)"""
        import copy as _copy
        out = []
        for st in body:
            if isinstance(st, ast.Assign) and isinstance(st.value, ast.IfExp) and len(st.targets) == 1 and isinstance(st.targets[0], ast.Name):
                v = st.value
                a = ast.copy_location(ast.Assign(targets=[_copy.deepcopy(st.targets[0])], value=v.body), st)
                b = ast.copy_location(ast.Assign(targets=[_copy.deepcopy(st.targets[0])], value=v.orelse), st)
                out.append(ast.copy_location(ast.If(test=v.test, body=self._ifexp_to_if([a]), orelse=self._ifexp_to_if([b])), st))
            elif isinstance(st, ast.Return) and isinstance(st.value, ast.IfExp):
                v = st.value
                out.append(ast.copy_location(ast.If(test=v.test, body=self._ifexp_to_if([ast.copy_location(ast.Return(value=v.body), st)]),
                                                    orelse=self._ifexp_to_if([ast.copy_location(ast.Return(value=v.orelse), st)])), st))
            else:
                out.append(st)
        return out

    def _fold_returns(self, body):
        return self._ifexp_to_if(self._fold_pairs(self._loops_to_comprehensions(body)))

    def _continue_guards(self, loop):
        """in a loop body: `if c: continue; REST` -> `if not c: REST`"""
        body = loop.body
        for i, st in enumerate(body):
            if (isinstance(st, ast.If) and not st.orelse and len(st.body) == 1 and isinstance(st.body[0], ast.Continue) and i + 1 < len(body)):
                rest = ast.For(target=None, iter=None, body=body[i + 1:], orelse=[]) if False else None
                inner = ast.If(test=_Canon().visit(ast.copy_location(ast.UnaryOp(op=ast.Not(), operand=st.test), st.test)), body=body[i + 1:], orelse=[])
                inner = ast.copy_location(inner, st)
                # the rest may itself start with guards
                tmp = type(loop)() if False else None
                holder = ast.While(test=ast.Constant(value=True), body=inner.body, orelse=[])
                self._continue_guards(holder)
                inner.body = holder.body
                # nested `if`s without else merge into one test (as visit_If does)
                if len(inner.body) == 1 and isinstance(inner.body[0], ast.If) and not inner.body[0].orelse:
                    nxt = inner.body[0]
                    vals = []
                    for t in (inner.test, nxt.test):
                        vals += t.values if isinstance(t, ast.BoolOp) and isinstance(t.op, ast.And) else [t]
                    inner.test = ast.copy_location(ast.BoolOp(op=ast.And(), values=vals), inner.test)
                    inner.body = nxt.body
                loop.body = body[:i] + [inner]
                return

    def visit_For(self, node):
        self.generic_visit(node)      # first: temporaries of the body's tests are folded
        self._continue_guards(node)
        return node

    def visit_While(self, node):
        self.generic_visit(node)
        self._continue_guards(node)
        return node

    def _loops_to_comprehensions(self, body):
        """`xs = []; for a in it: [if c:] xs.append(e)` -> `xs = [e for a in it if c]` (xs not read by e / c; no nested scope
        in the loop that could tell a comprehension variable from a function local)"""
        out, i = [], 0
        while i < len(body):
            st, nxt = body[i], (body[i + 1] if i + 1 < len(body) else None)
            if (isinstance(st, ast.Assign) and len(st.targets) == 1 and isinstance(st.targets[0], ast.Name) and isinstance(st.value, ast.List) and not st.value.elts
                    and isinstance(nxt, ast.For) and not nxt.orelse and len(nxt.body) == 1):
                xs = st.targets[0].id
                inner, cond = nxt.body[0], None
                if isinstance(inner, ast.If) and not inner.orelse and len(inner.body) == 1:
                    cond, inner = inner.test, inner.body[0]
                tn = {t.id for t in ast.walk(nxt.target) if isinstance(t, ast.Name)}
                # the loop variable must not be used after the loop (a comprehension would hide it)
                later = any(isinstance(x, ast.Name) and x.id in tn for s2 in body[i + 2:] for x in ast.walk(s2))
                if (not later and isinstance(inner, ast.Expr) and isinstance(inner.value, ast.Call) and isinstance(inner.value.func, ast.Attribute)
                        and inner.value.func.attr == "append" and isinstance(inner.value.func.value, ast.Name) and inner.value.func.value.id == xs
                        and len(inner.value.args) == 1 and not inner.value.keywords
                        and not any(isinstance(x, ast.Name) and x.id == xs for x in ast.walk(inner.value.args[0]))
                        and not (cond is not None and any(isinstance(x, ast.Name) and x.id == xs for x in ast.walk(cond)))
                        and not any(isinstance(x, (ast.Yield, ast.YieldFrom, ast.Await, ast.NamedExpr, ast.Lambda, ast.ListComp, ast.SetComp, ast.DictComp, ast.GeneratorExp))
                                    for x in ast.walk(nxt))):
                    comp = ast.ListComp(elt=inner.value.args[0], generators=[ast.comprehension(target=nxt.target, iter=nxt.iter, ifs=[cond] if cond is not None else [], is_async=0)])
                    out.append(ast.copy_location(ast.Assign(targets=st.targets, value=ast.copy_location(comp, nxt)), st))
                    i += 2
                    continue
            out.append(st)
            i += 1
        return out

    def _fold_pairs(self, body):
        out = []
        i = 0
        while i < len(body):
            st = body[i]
            nxt = body[i + 1] if i + 1 < len(body) else None
            # `t = e; if t: ...` with t used nowhere else -> `if e: ...`
            if (isinstance(st, ast.Assign) and len(st.targets) == 1 and isinstance(st.targets[0], ast.Name)
                    and isinstance(nxt, ast.If) and self.test_temps[-1].get(st.targets[0].id, 0) == 2):
                t = st.targets[0].id
                if isinstance(nxt.test, ast.Name) and nxt.test.id == t:
                    nxt.test = st.value
                    out.append(nxt)
                    i += 2
                    continue
                # ... or the first operand of the test (evaluated first, as the assignment was)
                if isinstance(nxt.test, ast.BoolOp) and isinstance(nxt.test.values[0], ast.Name) and nxt.test.values[0].id == t:
                    v = st.value
                    if isinstance(v, ast.BoolOp) and type(v.op) is type(nxt.test.op):
                        nxt.test.values[0:1] = v.values
                    else:
                        nxt.test.values[0] = v
                    out.append(nxt)
                    i += 2
                    continue
            if (isinstance(st, ast.Assign) and len(st.targets) == 1 and isinstance(st.targets[0], ast.Name)
                    and isinstance(nxt, ast.Return) and isinstance(nxt.value, ast.Name) and nxt.value.id == st.targets[0].id
                    and self.uses[-1].get(st.targets[0].id, 0) == 2):
                out.append(ast.copy_location(ast.Return(value=st.value), st))
                i += 2
                continue
            out.append(st)
            i += 1
        return out


class _SubstNames(ast.NodeTransformer):
    def __init__(self, mapping):
        self.mapping = mapping

    def visit_Name(self, node):
        if isinstance(node.ctx, ast.Load) and node.id in self.mapping:
            import copy as _copy
            return ast.copy_location(_copy.deepcopy(self.mapping[node.id]), node)
        return node


class _CanonTables(ast.NodeTransformer):
    """Table-driven dispatch back to the if/elif chain it abbreviates, and two small folds it needs:

      * `for a, b in ((A1, B1), (A2, B2), ...): if <test(a, b)>: <body(a, b)>; break|return` [else: E]
        over a literal tuple/list (written in place, bound once to a local just before, or a module-level
        constant) becomes `if test(A1, B1): body(A1, B1) elif test(A2, B2): ... else: E`;
      * `<X>.<MEMBER>.name` -> "MEMBER" (Enum member names), `getattr(a, "ident")` -> `a.ident`;
      * `f = A if c else B` immediately followed by the only use `... f(args) ...` becomes
        `if c: ... A(args) ... else: ... B(args) ...`.
    """
    MAX_ROWS = 40

    def __init__(self, module_tables):
        self.module_tables = module_tables
        self.local_tables: list[dict] = []
        self.name_counts: list[dict] = []

    # -- scopes (the two folds live in _Folds, which runs after the unrolling has substituted the cells)
    def _unused_visit_Attribute(self, node):
        self.generic_visit(node)
        if node.attr == "name" and isinstance(node.ctx, ast.Load) and isinstance(node.value, ast.Attribute) and node.value.attr.isupper() \
                and isinstance(node.value.value, (ast.Name, ast.Attribute)):
            return ast.copy_location(ast.Constant(value=node.value.attr), node)
        return node

    def _unused_visit_Call(self, node):
        return node

    def visit_FunctionDef(self, node):
        tables, counts = {}, {}
        stores: dict[str, int] = {}
        for n in ast.walk(node):
            if isinstance(n, ast.Name):
                counts[n.id] = counts.get(n.id, 0) + 1
                if isinstance(n.ctx, (ast.Store, ast.Del)):
                    stores[n.id] = stores.get(n.id, 0) + 1
        for n in ast.walk(node):
            if isinstance(n, ast.Assign) and len(n.targets) == 1 and isinstance(n.targets[0], ast.Name) \
                    and isinstance(n.value, (ast.Tuple, ast.List)) and stores.get(n.targets[0].id) == 1:
                tables[n.targets[0].id] = n.value
        self.local_tables.append(tables)
        self.name_counts.append(counts)
        self.generic_visit(node)
        self.local_tables.pop()
        self.name_counts.pop()
        return node

    visit_AsyncFunctionDef = visit_FunctionDef

    def _table(self, it):
        if isinstance(it, (ast.Tuple, ast.List)):
            return it
        if isinstance(it, ast.Name):
            if self.local_tables and it.id in self.local_tables[-1]:
                return self.local_tables[-1][it.id]
            return self.module_tables.get(it.id)
        return None

    def visit_For(self, node):
        self.generic_visit(node)
        table = self._table(node.iter)
        if table is None or not (1 <= len(table.elts) <= self.MAX_ROWS) or len(node.body) != 1:
            return node
        inner = node.body[0]
        if not isinstance(inner, ast.If) or inner.orelse or not inner.body:
            return node
        last = inner.body[-1]
        if not isinstance(last, (ast.Break, ast.Return, ast.Raise)):
            return node
        rest = inner.body[:-1] if isinstance(last, ast.Break) else inner.body
        for st in (inner.body[:-1]):
            for x in ast.walk(st):
                if isinstance(x, (ast.Break, ast.Continue)):
                    return node
        tnames = [node.target] if isinstance(node.target, ast.Name) else (list(node.target.elts) if isinstance(node.target, ast.Tuple) else None)
        if tnames is None or not all(isinstance(t, ast.Name) for t in tnames):
            return node
        ids = [t.id for t in tnames]
        for x in ast.walk(inner):
            if isinstance(x, ast.Name) and x.id in ids and isinstance(x.ctx, (ast.Store, ast.Del)):
                return node
        rows = []
        for e in table.elts:
            if isinstance(node.target, ast.Name):
                vals = [e]
            else:
                if not isinstance(e, (ast.Tuple, ast.List)) or len(e.elts) != len(ids):
                    return node
                vals = list(e.elts)
            if any(isinstance(v, (ast.Starred,)) or any(isinstance(y, (ast.Call, ast.Await, ast.Yield, ast.NamedExpr)) for y in ast.walk(v)) for v in vals):
                return node  # only side-effect-free cells
            rows.append(dict(zip(ids, vals)))
        import copy as _copy
        chain_else = list(node.orelse)
        for row in reversed(rows):
            sub = _SubstNames(row)
            test = sub.visit(_copy.deepcopy(inner.test))
            body = [sub.visit(_copy.deepcopy(st)) for st in rest] or [ast.copy_location(ast.Pass(), inner)]
            chain_else = [ast.copy_location(ast.If(test=test, body=body, orelse=chain_else), inner)]
        return chain_else[0] if len(chain_else) == 1 else node

    # -- callable chosen by a conditional expression
    def generic_visit(self, node):
        super().generic_visit(node)
        if self.name_counts:
            for fld in ("body", "orelse", "finalbody"):
                b = getattr(node, fld, None)
                if isinstance(b, list) and len(b) >= 2 and isinstance(b[0], ast.stmt):
                    setattr(node, fld, self._expand_selected_callable(b))
        return node

    def _expand_selected_callable(self, body):
        import copy as _copy
        out, i = [], 0
        while i < len(body):
            st = body[i]
            nxt = body[i + 1] if i + 1 < len(body) else None
            if (nxt is not None and isinstance(st, ast.Assign) and len(st.targets) == 1 and isinstance(st.targets[0], ast.Name)
                    and isinstance(st.value, ast.IfExp) and isinstance(st.value.body, ast.Name) and isinstance(st.value.orelse, ast.Name)
                    and self.name_counts[-1].get(st.targets[0].id, 0) == 2 and isinstance(nxt, (ast.Assign, ast.Return, ast.Expr, ast.AnnAssign))):
                v = st.targets[0].id
                uses = [x for x in ast.walk(nxt) if isinstance(x, ast.Call) and isinstance(x.func, ast.Name) and x.func.id == v]
                if len(uses) == 1:
                    a = _SubstNames({v: st.value.body}).visit(_copy.deepcopy(nxt))
                    b = _SubstNames({v: st.value.orelse}).visit(_copy.deepcopy(nxt))
                    out.append(ast.copy_location(ast.If(test=st.value.test, body=[a], orelse=[b]), st))
                    i += 2
                    continue
            out.append(st)
            i += 1
        return out


class _Folds(ast.NodeTransformer):
    """`<X>.<MEMBER>.name` -> "MEMBER" (an Enum member's name), `getattr(a, "ident")` -> `a.ident`"""

    def visit_Attribute(self, node):
        self.generic_visit(node)
        if node.attr == "name" and isinstance(node.ctx, ast.Load) and isinstance(node.value, ast.Attribute) and node.value.attr.isupper() \
                and isinstance(node.value.value, (ast.Name, ast.Attribute)):
            return ast.copy_location(ast.Constant(value=node.value.attr), node)
        return node

    def visit_Call(self, node):
        self.generic_visit(node)
        if isinstance(node.func, ast.Name) and node.func.id == "getattr" and len(node.args) == 2 and not node.keywords \
                and isinstance(node.args[1], ast.Constant) and isinstance(node.args[1].value, str) and node.args[1].value.isidentifier():
            return ast.copy_location(ast.Attribute(value=node.args[0], attr=node.args[1].value, ctx=ast.Load()), node)
        return node


def _lock_context_managers(tree: ast.AST) -> dict:
    """module-level `@contextmanager def G(p): p.acquire(); try: yield; finally: p.release()` -> {G: param}"""
    out = {}
    for st in getattr(tree, "body", []):
        if not isinstance(st, ast.FunctionDef) or len(st.args.args) != 1:
            continue
        if not any((isinstance(d, ast.Name) and d.id == "contextmanager") or (isinstance(d, ast.Attribute) and d.attr == "contextmanager") for d in st.decorator_list):
            continue
        prm = st.args.args[0].arg
        body = [b for b in st.body if not (isinstance(b, ast.Expr) and isinstance(b.value, ast.Constant))]
        if len(body) != 2 or not isinstance(body[1], ast.Try) or body[1].handlers or body[1].orelse:
            continue
        a, t = body
        ok_a = isinstance(a, ast.Expr) and ast.unparse(a.value) == f"{prm}.acquire()"
        ok_y = len(t.body) == 1 and isinstance(t.body[0], ast.Expr) and isinstance(t.body[0].value, ast.Yield) and t.body[0].value.value is None
        ok_r = len(t.finalbody) == 1 and isinstance(t.finalbody[0], ast.Expr) and ast.unparse(t.finalbody[0].value) == f"{prm}.release()"
        if ok_a and ok_y and ok_r:
            out[st.name] = prm
    return out


class _CanonLockRegions(ast.NodeTransformer):
    """`X.acquire(); try: BODY finally: X.release()` -> `with G(X): BODY` when the module defines the context manager
    G exactly as that acquire / try-yield / finally-release sequence (the two spellings are the same program)."""

    def __init__(self, managers):
        self.g = sorted(managers)[0] if managers else None

    def visit_FunctionDef(self, node):
        if node.name == self.g:
            return node  # the definition itself stays as it is
        return self.generic_visit(node)

    def generic_visit(self, node):
        super().generic_visit(node)
        if self.g is None:
            return node
        for fld in ("body", "orelse", "finalbody"):
            b = getattr(node, fld, None)
            if isinstance(b, list) and len(b) >= 2 and isinstance(b[0], ast.stmt):
                out, i = [], 0
                while i < len(b):
                    st, nxt = b[i], (b[i + 1] if i + 1 < len(b) else None)
                    if (isinstance(st, ast.Expr) and isinstance(st.value, ast.Call) and isinstance(st.value.func, ast.Attribute)
                            and st.value.func.attr == "acquire" and not st.value.args and not st.value.keywords
                            and isinstance(nxt, ast.Try) and not nxt.handlers and not nxt.orelse and len(nxt.finalbody) == 1
                            and isinstance(nxt.finalbody[0], ast.Expr)
                            and ast.unparse(nxt.finalbody[0].value) == ast.unparse(st.value.func.value) + ".release()"):
                        w = ast.With(items=[ast.withitem(context_expr=ast.Call(func=ast.Name(id=self.g, ctx=ast.Load()), args=[st.value.func.value], keywords=[]),
                                                         optional_vars=None)], body=nxt.body)
                        out.append(ast.copy_location(w, st))
                        i += 2
                        continue
                    out.append(st)
                    i += 1
                setattr(node, fld, out)
        return node


class _InlineDelegates(ast.NodeTransformer):
    """A method / function whose whole body is one call of a module-level function of the same module, with plain
    names / attribute chains / constants as arguments, is the body of that function with the parameters
    substituted ("move method body to a module-level helper" undone)."""

    def __init__(self, module_funcs):
        self.funcs = module_funcs

    def visit_FunctionDef(self, node):
        self.generic_visit(node)
        body = [b for b in node.body if not (isinstance(b, ast.Expr) and isinstance(b.value, ast.Constant))]
        if len(body) != 1 or not isinstance(body[0], (ast.Expr, ast.Return)) or not isinstance(body[0].value, ast.Call):
            return node
        call = body[0].value
        if not isinstance(call.func, ast.Name) or call.func.id not in self.funcs or call.func.id == node.name:
            return node
        g = self.funcs[call.func.id]
        ga = g.args
        if ga.vararg or ga.kwarg or ga.kwonlyargs or ga.posonlyargs or g.decorator_list or call.keywords and any(k.arg is None for k in call.keywords):
            return node
        params = [a.arg for a in ga.args]
        simple = lambda e: isinstance(e, (ast.Name, ast.Constant)) or (isinstance(e, ast.Attribute) and simple(e.value))  # noqa: E731
        binding = {}
        for name, a in zip(params, call.args):
            binding[name] = a
        for k in call.keywords:
            binding[k.arg] = k.value
        for name, d in zip(params[len(params) - len(ga.defaults):], ga.defaults):
            binding.setdefault(name, d)
        if set(binding) != set(params) or len(call.args) > len(params) or not all(simple(v) for v in binding.values()):
            return node
        for x in ast.walk(g):
            if isinstance(x, (ast.Yield, ast.YieldFrom, ast.Await, ast.Global, ast.Nonlocal)) or (x is not g and isinstance(x, (ast.FunctionDef, ast.Lambda, ast.ClassDef))):
                return node
            if isinstance(x, ast.Name) and x.id in params and isinstance(x.ctx, (ast.Store, ast.Del)):
                return node
        if isinstance(body[0], ast.Expr) and any(isinstance(x, ast.Return) and x.value is not None for x in ast.walk(g)):
            return node  # the caller discards the value; keep it simple
        # the helper's own locals must not collide with names of the caller's arguments
        glocals = {x.id for x in ast.walk(g) if isinstance(x, ast.Name) and isinstance(x.ctx, ast.Store)}
        if any(isinstance(y, ast.Name) and y.id in glocals for v in binding.values() for y in ast.walk(v)):
            return node
        import copy as _copy
        new_body = [_SubstNames(binding).visit(_copy.deepcopy(st)) for st in g.body
                    if not (isinstance(st, ast.Expr) and isinstance(st.value, ast.Constant))]
        node.body = [b for b in node.body if isinstance(b, ast.Expr) and isinstance(b.value, ast.Constant)][:1] + new_body
        return node


class _PositionalCalls(ast.NodeTransformer):
    """`self._m(b=y, a=x)` / `_f(a=x)` -> positional arguments in the callee's parameter order, when the callee is a *private*
    method of the same class / private function of the same module with plain positional parameters and the keywords fill a prefix
    of them without gaps.  Call syntax only; evaluation order of the argument expressions is kept only when the
    keywords are already in parameter order (otherwise the call is left alone)."""

    def __init__(self, tree):
        self.mod_funcs = {st.name: st for st in getattr(tree, "body", []) if isinstance(st, ast.FunctionDef)}
        self.cls_stack = []

    def visit_ClassDef(self, node):
        self.cls_stack.append({st.name: st for st in node.body if isinstance(st, ast.FunctionDef)})
        self.generic_visit(node)
        self.cls_stack.pop()
        return node

    def visit_Call(self, node):
        self.generic_visit(node)
        if not node.keywords or any(k.arg is None for k in node.keywords) or any(isinstance(a, ast.Starred) for a in node.args):
            return node
        callee, skip = None, 0
        f = node.func
        if isinstance(f, ast.Attribute) and isinstance(f.value, ast.Name) and f.value.id in ("self", "cls") and self.cls_stack and f.attr in self.cls_stack[-1] \
                and f.attr.startswith("_") and not f.attr.endswith("__"):
            callee = self.cls_stack[-1][f.attr]
            is_static = any((isinstance(d, ast.Name) and d.id == "staticmethod") for d in callee.decorator_list)
            skip = 0 if is_static else 1
        elif isinstance(f, ast.Name) and f.id in self.mod_funcs and f.id.startswith("_"):
            callee = self.mod_funcs[f.id]
        if callee is None or callee.args.vararg or callee.args.kwarg or callee.args.posonlyargs:
            return node
        params = [a.arg for a in callee.args.args][skip:]
        n_pos = len(node.args)
        kw = {k.arg: k.value for k in node.keywords}
        if any(k not in params for k in kw):
            return node  # keyword-only parameter etc.
        order = [k.arg for k in node.keywords]
        want = params[n_pos:n_pos + len(order)]
        if order != want:
            return node  # gaps, or a different order of evaluation
        node.args = list(node.args) + [kw[k] for k in want]
        node.keywords = []
        return node


class _SpliceGuardHelpers(ast.NodeTransformer):
    """`def f(self, ..): return self._a(args) and self._b(args)` where `_a` is a guard-style method of the same class
    (its only `return True` is its last statement; every other exit is `return False` or a raise) is the body of `_a`
    without that last statement, followed by the body of `_b` ("split one helper into two" undone). Arguments must be
    plain names / attribute chains / constants and the parameters must not be rebound."""

    def visit_ClassDef(self, node):
        self.generic_visit(node)
        methods = {st.name: st for st in node.body if isinstance(st, ast.FunctionDef)}
        self.spliced = getattr(self, "spliced", set())
        for f in list(methods.values()):
            body = [b for b in f.body if not (isinstance(b, ast.Expr) and isinstance(b.value, ast.Constant))]
            if len(body) != 1 or not isinstance(body[0], ast.Return) or not isinstance(body[0].value, ast.BoolOp) or not isinstance(body[0].value.op, ast.And):
                continue
            calls = body[0].value.values
            if not all(isinstance(c, ast.Call) and isinstance(c.func, ast.Attribute) and isinstance(c.func.value, ast.Name) and c.func.value.id == "self"
                       and c.func.attr in methods and c.func.attr != f.name and not c.keywords for c in calls):
                continue
            pieces, ok = [], True
            for i, c in enumerate(calls):
                g = methods[c.func.attr]
                params = [a.arg for a in g.args.args][1:]
                if g.args.vararg or g.args.kwarg or g.args.kwonlyargs or g.decorator_list or len(params) != len(c.args):
                    ok = False
                    break
                simple = lambda e: isinstance(e, (ast.Name, ast.Constant)) or (isinstance(e, ast.Attribute) and simple(e.value))  # noqa: E731
                if not all(simple(a) for a in c.args):
                    ok = False
                    break
                for x in ast.walk(g):
                    if isinstance(x, ast.Name) and x.id in params and isinstance(x.ctx, (ast.Store, ast.Del)):
                        ok = False
                gb = [b for b in g.body if not (isinstance(b, ast.Expr) and isinstance(b.value, ast.Constant))]
                is_true = lambda r: isinstance(r, ast.Return) and isinstance(r.value, ast.Constant) and r.value.value is True  # noqa: E731
                if i < len(calls) - 1:
                    # all but the last: `return True` exactly once, as the last statement
                    rets_true = [x for x in ast.walk(g) if is_true(x)]
                    if not gb or not is_true(gb[-1]) or len(rets_true) != 1:
                        ok = False
                        break
                    gb = gb[:-1]
                import copy as _copy
                binding = dict(zip(params, c.args))
                pieces += [_SubstNames(binding).visit(_copy.deepcopy(st)) for st in gb]
                if not ok:
                    break
            if ok and pieces:
                f.body = [b for b in f.body if isinstance(b, ast.Expr) and isinstance(b.value, ast.Constant)][:1] + pieces
                self.spliced |= {c.func.attr for c in calls}
        return node


def _inline_new_single_call_helpers(tree: ast.AST, ref_private: set) -> int:
    """"Extract method" undone: a private method / module-level private function that the reference tree does not
    have, that is referenced exactly once in its module - as `self._h(args)` / `_h(args)` forming a whole statement
    (`call`, `x = call`, `return call`) with plain arguments - and whose body has no early return, is put back in
    place of that statement.  `ref_private` = qualified names of the reference tree's private functions."""
    import copy as _copy
    n_inlined = 0
    simple = lambda e: isinstance(e, (ast.Name, ast.Constant)) or (isinstance(e, ast.Attribute) and simple(e.value))  # noqa: E731

    def candidates(scope_body, prefix, is_class):
        for st in list(scope_body):
            if isinstance(st, ast.FunctionDef) and st.name.startswith("_") and not st.name.endswith("__") \
                    and f"{prefix}{st.name}" not in ref_private and (not st.decorator_list or [ast.unparse(d) for d in st.decorator_list] == ["staticmethod"]):
                yield st

    def try_inline(h, scope_body, is_class, owner_nodes):
        nonlocal n_inlined
        a = h.args
        if a.vararg or a.kwarg or a.kwonlyargs or a.posonlyargs:
            return
        is_static = bool(h.decorator_list)
        params = [x.arg for x in a.args][1 if (is_class and not is_static) else 0:]
        # exactly one reference in the module
        refs = []
        for n in ast.walk(tree):
            if is_class and isinstance(n, ast.Attribute) and n.attr == h.name:
                refs.append(n)
            elif not is_class and isinstance(n, ast.Name) and n.id == h.name:
                refs.append(n)
        if not refs or len(refs) > 3:
            return
        body = [b for b in h.body if not (isinstance(b, ast.Expr) and isinstance(b.value, ast.Constant))]
        rets = [x for x in ast.walk(h) if isinstance(x, ast.Return)]
        stored_params = set()
        for x in ast.walk(h):
            if isinstance(x, (ast.Yield, ast.YieldFrom, ast.Await, ast.Global, ast.Nonlocal)) or (x is not h and isinstance(x, (ast.FunctionDef, ast.Lambda, ast.ClassDef))):
                return
            if isinstance(x, ast.Name) and x.id in params and isinstance(x.ctx, (ast.Store, ast.Del)):
                stored_params.add(x.id)
        tail_value = None
        if rets:
            if len(rets) != 1 or rets[0] is not body[-1]:
                return
            tail_value = rets[0].value
            body = body[:-1]
        # find the statements that are the calls (every reference must be one; all are rewritten or none)
        sites = []
        for owner in owner_nodes:
            for parent in ast.walk(owner):
                for fld in ("body", "orelse", "finalbody"):
                    blk = getattr(parent, fld, None)
                    if not isinstance(blk, list):
                        continue
                    for i, st in enumerate(blk):
                        call = st.value if isinstance(st, (ast.Expr, ast.Return, ast.Assign, ast.AnnAssign)) else None
                        if isinstance(call, ast.Call) and any(call.func is r for r in refs) and not any(s_[1] is st for s_ in sites):
                            sites.append((blk, st, owner))
        if len(sites) != len(refs):
            return
        plans = []
        for blk, st, owner in sites:
            for _once in (0,):
                        call = st.value
                        i = blk.index(st)
                        if is_class and not (isinstance(call.func.value, ast.Name) and call.func.value.id in ("self", "cls")):
                            return
                        if call.keywords and any(k.arg is None for k in call.keywords):
                            return
                        binding = dict(zip(params, call.args))
                        for k in call.keywords:
                            binding[k.arg] = k.value
                        for name, d in zip(params[len(params) - len(a.defaults):], a.defaults):
                            binding.setdefault(name, d)
                        if set(binding) != set(params) or len(call.args) > len(params):
                            return
                        # an argument that is not a plain name / constant / attribute chain may only replace a parameter the helper reads
                        # exactly once (outside nested loops it is then still evaluated once)
                        for pn_, v_ in binding.items():
                            if not simple(v_):
                                loads = [x for x in ast.walk(h) if isinstance(x, ast.Name) and x.id == pn_ and isinstance(x.ctx, ast.Load)]
                                in_loop_body = any(isinstance(lp, (ast.For, ast.While)) and any(y is loads[0] for b_ in lp.body for y in ast.walk(b_))
                                                   for lp in ast.walk(h)) if len(loads) == 1 else True
                                if len(loads) != 1 or in_loop_body:
                                    return
                        if isinstance(st, ast.Expr) and tail_value is not None:
                            return
                        if isinstance(st, (ast.Assign, ast.AnnAssign, ast.Return)) and tail_value is None:
                            return
                        # a parameter the helper re-binds can only be substituted by itself, and only when nothing of the caller
                        # runs after the call (tail position)
                        tail = isinstance(st, ast.Return) or (isinstance(owner, ast.FunctionDef) and blk is owner.body and owner.body[-1] is st)
                        for sp in stored_params:
                            if not (tail and isinstance(binding.get(sp), ast.Name) and binding[sp].id == sp):
                                return
                        # helper locals vs names used by the caller function (harmless in tail position)
                        hl = {x.id for x in ast.walk(h) if isinstance(x, ast.Name) and isinstance(x.ctx, ast.Store)} - set(params)
                        fn = owner
                        used = {x.id for x in ast.walk(fn) if isinstance(x, ast.Name)} | {x.arg for x in ast.walk(fn) if isinstance(x, ast.arg)}
                        if hl & used and not tail:
                            # a clash only matters for a caller name whose value is still needed after the call: outside loops that
                            # is a name read in a later statement (the call's own target is assigned by the call anyway)
                            in_loop = any(isinstance(x, (ast.For, ast.While)) and any(y is st for y in ast.walk(x)) for x in ast.walk(fn))
                            own_t = {x.id for t_ in (st.targets if isinstance(st, ast.Assign) else ([st.target] if isinstance(st, ast.AnnAssign) else []))
                                     for x in ast.walk(t_) if isinstance(x, ast.Name)}
                            later = set()

                            def _after(node, target):
                                """True if `target` lies inside `node`; collects the names read by what executes after it"""
                                for fld_ in ("body", "orelse", "finalbody", "handlers"):
                                    blk_ = getattr(node, fld_, None)
                                    if not isinstance(blk_, list):
                                        continue
                                    for i_, ch in enumerate(blk_):
                                        if ch is target or _after(ch, target):
                                            for nxt in blk_[i_ + 1:]:
                                                later.update(x.id for x in ast.walk(nxt) if isinstance(x, ast.Name) and isinstance(x.ctx, ast.Load))
                                            return True
                                return False
                            _after(fn, st)
                            if in_loop or ((hl & used) - own_t) & later:
                                return
                        new = [_SubstNames(binding).visit(_copy.deepcopy(b)) for b in body]
                        if tail_value is not None:
                            tv = _SubstNames(binding).visit(_copy.deepcopy(tail_value))
                            if isinstance(st, ast.Return):
                                new.append(ast.copy_location(ast.Return(value=tv), st))
                            elif isinstance(st, ast.Assign):
                                if not (len(st.targets) == 1 and isinstance(st.targets[0], ast.Name) and isinstance(tv, ast.Name) and tv.id == st.targets[0].id):
                                    new.append(ast.copy_location(ast.Assign(targets=st.targets, value=tv), st))
                            else:
                                new.append(ast.copy_location(ast.AnnAssign(target=st.target, annotation=st.annotation, value=tv, simple=st.simple), st))
                        plans.append((blk, st, new or [ast.copy_location(ast.Pass(), st)]))
        if len(plans) != len(sites):
            return
        for blk, st, new in plans:
            i = blk.index(st)
            blk[i:i + 1] = new
        scope_body.remove(h)
        n_inlined += 1
        return

    for node in list(getattr(tree, "body", [])):
        if isinstance(node, ast.ClassDef):
            methods = [st for st in node.body if isinstance(st, ast.FunctionDef)]
            for h in list(candidates(node.body, node.name + ".", True)):
                try_inline(h, node.body, True, [m for m in methods if m is not h])
    mod_funcs = [st for st in getattr(tree, "body", []) if isinstance(st, ast.FunctionDef)]
    all_funcs = [n for n in ast.walk(tree) if isinstance(n, ast.FunctionDef)]
    for h in list(candidates(getattr(tree, "body", []), "", False)):
        try_inline(h, tree.body, False, [f for f in all_funcs if f is not h])
    return n_inlined


def _module_tables(tree: ast.AST) -> dict:
    """module-level `NAME = (<literal rows>)` bound once"""
    out, seen = {}, {}
    for st in getattr(tree, "body", []):
        tg = st.targets[0] if isinstance(st, ast.Assign) and len(st.targets) == 1 else (st.target if isinstance(st, ast.AnnAssign) else None)
        if isinstance(tg, ast.Name):
            seen[tg.id] = seen.get(tg.id, 0) + 1
            if isinstance(getattr(st, "value", None), (ast.Tuple, ast.List)):
                out[tg.id] = st.value
    return {k: v for k, v in out.items() if seen.get(k) == 1}


_LOCALNAMES: dict | None = None


def _alpha_normalise(tree: ast.AST, relpath: str, digest: str | None = None) -> int:
    """rename recognised function locals back to the reference names (sa/alpha.py)"""
    if os.environ.get("VERIF_NO_ALPHA"):
        return 0
    ref = _localnames().get(relpath)
    if not ref or (digest is not None and ref.get("__digest__") == digest):
        return 0
    from . import alpha
    return alpha.normalise(tree, ref)


def canonicalise(tree: ast.AST) -> ast.AST:
    mfuncs = {st.name: st for st in getattr(tree, "body", []) if isinstance(st, ast.FunctionDef)}
    tree = _PositionalCalls(tree).visit(tree)
    tree = _InlineDelegates(mfuncs).visit(tree)
    sp = _SpliceGuardHelpers()
    tree = sp.visit(tree)
    tree._spliced_helpers = getattr(sp, "spliced", set())
    tree = _CanonLockRegions(_lock_context_managers(tree)).visit(tree)
    tree = _CanonTables(_module_tables(tree)).visit(tree)
    tree = _Folds().visit(tree)
    tree = _Canon().visit(tree)
    tree = _CanonStmts().visit(tree)
    ast.fix_missing_locations(tree)
    return tree


def _finish_modules(modules: dict) -> int:
    """Normalisation of all parsed modules (DESIGN.md 1.4): private-function names back to the reference
    names (package-wide, because callers live in other modules), then per module the function locals,
    then the canonical spellings."""
    ref = _localnames()
    n_private = 0

    def rename_pass() -> int:
        """private-function names back to the reference names by body fingerprint (package-wide, callers live in other modules)"""
        from . import alpha
        mapping: dict[str, str] = {}
        defined: dict[str, int] = {}
        for m in modules.values():
            for node in ast.walk(m.tree):
                if isinstance(node, (ast.FunctionDef, ast.AsyncFunctionDef, ast.ClassDef)):
                    defined[node.name] = defined.get(node.name, 0) + 1
        votes: dict[str, list[str]] = {}
        for m in modules.values():
            r = ref.get(m.relpath)
            if not r or r.get("__digest__") == m.digest or "__funcs__" not in r:
                continue
            for new, old in alpha.private_renames(m.tree, r["__funcs__"]):
                votes.setdefault(new, []).append(old)
        for new, olds in votes.items():
            # references are renamed package-wide by simple name: every definition carrying the new name must be a
            # recognised rename of the same reference name, and that reference name must be free
            if len(set(olds)) == 1 and len(olds) == defined.get(new, 0) and defined.get(olds[0], 0) == 0 \
                    and olds[0] not in mapping.values():
                mapping[new] = olds[0]
        if mapping:
            for m in modules.values():
                alpha.apply_name_renames(m.tree, mapping)
        return len(mapping)

    if ref and not os.environ.get("VERIF_NO_ALPHA"):
        # 1. functions that were merely renamed get their reference names back, so that the un-move passes below only see helpers
        #    that are really new
        n_private += rename_pass()
        # 2. code moved between functions / classes is moved back (sa/unmove.py)
        from . import unmove
        for m in modules.values():
            r = ref.get(m.relpath)
            if r and r.get("__digest__") != m.digest and "__funcs__" in r:
                rp = set(r["__funcs__"])
                unmove.reattach(m.tree, rp)
                unmove.specialise(m.tree, rp)
                unmove.tail_returns(m.tree, rp)
        unmove.inline_expr_helpers(modules, ref)
        # 3. clones made by `specialise` (and re-attached methods) get their reference names by body fingerprint
        n_private += rename_pass()
    if ref and not os.environ.get("VERIF_NO_ALPHA"):
        for m in modules.values():
            r = ref.get(m.relpath)
            if r and r.get("__digest__") != m.digest and "__funcs__" in r:
                from . import unmove
                unmove.splice_cm(m.tree, set(r["__funcs__"]))
                unmove.tail_if(m.tree, set(r["__funcs__"]))
                _inline_new_single_call_helpers(m.tree, set(r["__funcs__"]))
                unmove.unwrap_namedtuples(m.tree)
    for m in modules.values():
        m.same_as_reference = bool(ref.get(m.relpath, {}).get("__digest__") == m.digest) if ref else False
        m.renamed_locals = _alpha_normalise(m.tree, m.relpath, m.digest)  # before canonicalise: operand order depends on names
        m.tree = canonicalise(m.tree)
    # private helper methods whose body was spliced into their only caller and that nothing in the package refers to
    # any more are dead code: drop them, so that censuses do not analyse a fragment out of its (former) context
    spliced = set()
    for m in modules.values():
        spliced |= getattr(m.tree, "_spliced_helpers", set())
    if spliced:
        refs: dict[str, int] = {}
        for m in modules.values():
            for n in ast.walk(m.tree):
                if isinstance(n, ast.Attribute) and n.attr in spliced:
                    refs[n.attr] = refs.get(n.attr, 0) + 1
                elif isinstance(n, ast.Name) and n.id in spliced:
                    refs[n.id] = refs.get(n.id, 0) + 1
                elif isinstance(n, ast.Constant) and isinstance(n.value, str) and n.value in spliced:
                    refs[n.value] = refs.get(n.value, 0) + 1
        dead = {h for h in spliced if h.startswith("_") and refs.get(h, 0) == 0}
        if dead:
            for m in modules.values():
                for n in ast.walk(m.tree):
                    if isinstance(n, ast.ClassDef):
                        n.body = [st for st in n.body if not (isinstance(st, ast.FunctionDef) and st.name in dead)] or [ast.Pass()]
    return n_private


def _localnames() -> dict:
    global _LOCALNAMES
    if _LOCALNAMES is None:
        import json
        try:
            _LOCALNAMES = json.load(open(os.path.join(os.path.dirname(os.path.abspath(__file__)), "localnames.json")))
        except OSError:
            _LOCALNAMES = {}
    return _LOCALNAMES


def dotted(node) -> str | None:
    """`a.b.c` for Name/Attribute chains, else None."""
    parts = []
    while isinstance(node, ast.Attribute):
        parts.append(node.attr)
        node = node.value
    if isinstance(node, ast.Name):
        parts.append(node.id)
        return ".".join(reversed(parts))
    return None


class Program:
    """All parsed modules of `<repo>/optuna` plus lookup tables."""

    def __init__(self, repo: str | None, package: str = "optuna",
                 sources: dict[str, str] | None = None,
                 overrides: dict[str, str] | None = None):
        self.overrides = overrides or {}  # relpath -> replacement source (self-test variants)
        self.repo = os.path.abspath(repo) if repo else "<fixture>"
        self.package = package
        self.modules: dict[str, Module] = {}
        self.classes: dict[str, Class] = {}  # by qualified name
        self.classes_by_name: dict[str, list[Class]] = {}
        self.funcs: dict[str, Func] = {}  # every def by qualified name (methods, nested too)
        if sources is not None:
            for modname, src in sources.items():
                rel = modname.replace(".", "/") + ".py"
                self.modules[modname] = Module(modname, rel, rel, src)
            self.renamed_private_functions = _finish_modules(self.modules)
            for m in self.modules.values():
                self._index_module(m)
        else:
            self._load()

    @classmethod
    def from_sources(cls, sources: dict[str, str]) -> "Program":
        """A tiny program built from in-memory sources (used for rule fixtures)."""
        return cls(None, sources=sources)

    # ------------------------------------------------------------------ loading
    def _load(self) -> None:
        root = os.path.join(self.repo, self.package)
        if not os.path.isdir(root):
            raise AnalysisError(f"package directory {root} not found")
        for dirpath, dirnames, filenames in os.walk(root):
            dirnames[:] = sorted(d for d in dirnames if d != "__pycache__")
            for fn in sorted(filenames):
                if not fn.endswith(".py"):
                    continue
                path = os.path.join(dirpath, fn)
                rel = os.path.relpath(path, self.repo)
                modname = rel[:-3].replace(os.sep, ".")
                if modname.endswith(".__init__"):
                    modname = modname[: -len(".__init__")]
                if rel in self.overrides:
                    src = self.overrides[rel]
                else:
                    with open(path, encoding="utf-8") as f:
                        src = f.read()
                try:
                    m = Module(modname, path, rel, src)
                except SyntaxError as e:
                    raise AnalysisError(f"cannot parse {rel}: {e}")
                self.modules[modname] = m
        self.renamed_private_functions = _finish_modules(self.modules)
        for m in self.modules.values():
            self._index_module(m)

    def _index_module(self, m: Module) -> None:
        is_pkg = m.path.endswith("__init__.py")
        for node in ast.walk(m.tree):
            if isinstance(node, ast.Import):
                for a in node.names:
                    m.imports[a.asname or a.name.split(".")[0]] = a.name if a.asname else a.name.split(".")[0]
            elif isinstance(node, ast.ImportFrom):
                base = node.module or ""
                if node.level:
                    pkg = m.name.split(".")
                    if not is_pkg:
                        pkg = pkg[:-1]
                    pkg = pkg[: len(pkg) - (node.level - 1)]
                    base = ".".join(pkg + ([node.module] if node.module else []))
                for a in node.names:
                    m.imports[a.asname or a.name] = f"{base}.{a.name}"
            elif isinstance(node, ast.Assign) and len(node.targets) == 1:
                # repo idiom: models = _LazyImport("optuna.storages._rdb.models")
                t = node.targets[0]
                v = node.value
                if (isinstance(t, ast.Name) and isinstance(v, ast.Call)
                        and dotted(v.func) in ("_LazyImport", "optuna._imports._LazyImport")
                        and v.args and isinstance(v.args[0], ast.Constant)
                        and isinstance(v.args[0].value, str)):
                    m.imports[t.id] = v.args[0].value

        def visit_body(body, cls: Class | None, prefix: str, parent: Func | None):
            for st in body:
                if isinstance(st, (ast.FunctionDef, ast.AsyncFunctionDef)):
                    q = f"{prefix}.{st.name}"
                    f = Func(st, m, cls, q, parent)
                    # later definitions (e.g. property setters) must not hide the first,
                    # except that a real definition replaces typing @overload stubs
                    if q in self.funcs and "overload" in " ".join(self.funcs[q].decorators()):
                        self.funcs[q] = f
                        if cls is not None and parent is None:
                            cls.methods[st.name] = f
                        elif cls is None and parent is None:
                            m.funcs[st.name] = f
                    elif q in self.funcs:
                        q2 = q + "#" + str(st.lineno)
                        f.qualname = q
                        self.funcs[q2] = f
                    else:
                        self.funcs[q] = f
                        if cls is not None and parent is None:
                            cls.methods.setdefault(st.name, f)
                        elif cls is None and parent is None:
                            m.funcs.setdefault(st.name, f)
                    visit_nested(st.body, cls, q, f)
                elif isinstance(st, ast.ClassDef):
                    q = f"{prefix}.{st.name}"
                    c = Class(st, m, q)
                    self.classes[q] = c
                    self.classes_by_name.setdefault(st.name, []).append(c)
                    if parent is None and cls is None:
                        m.classes[st.name] = c
                    visit_body(st.body, c, q, None)
                elif isinstance(st, (ast.If, ast.Try)):
                    # module/class level conditional definitions (TYPE_CHECKING, try-import)
                    for sub in _sub_bodies(st):
                        visit_body(sub, cls, prefix, parent)

        def visit_nested(body, cls, prefix, parent):
            for st in body:
                for node in _iter_nested_defs(st):
                    if isinstance(node, (ast.FunctionDef, ast.AsyncFunctionDef)):
                        q = f"{prefix}.<locals>.{node.name}"
                        f = Func(node, m, cls, q, parent)
                        self.funcs.setdefault(q, f)
                        visit_nested(node.body, cls, q, f)

        visit_body(m.tree.body, None, m.name, None)

    # ------------------------------------------------------------------ lookup
    def module(self, name: str) -> Module:
        if name not in self.modules:
            raise AnalysisError(f"anchored module {name} not found")
        return self.modules[name]

    def func(self, qualname: str) -> Func:
        f = self.funcs.get(qualname)
        if f is None:
            raise AnalysisError(f"anchored function {qualname} not found")
        return f

    def cls(self, qualname: str) -> Class:
        c = self.classes.get(qualname)
        if c is None:
            raise AnalysisError(f"anchored class {qualname} not found")
        return c

    def has_func(self, qualname: str) -> bool:
        return qualname in self.funcs

    def resolve_name(self, m: Module, name: str) -> str | None:
        """Resolve a (possibly dotted) name used in module m to a qualified repo name."""
        head, _, rest = name.partition(".")
        if head in m.classes:
            base = m.classes[head].qualname
        elif head in m.funcs:
            base = m.funcs[head].qualname
        elif head in m.imports:
            base = m.imports[head]
        else:
            return None
        full = f"{base}.{rest}" if rest else base
        return self._follow_reexport(full)

    def _follow_reexport(self, full: str, depth: int = 0) -> str:
        """optuna.storages.BaseStorage -> optuna.storages._base.BaseStorage."""
        if depth > 6:
            return full
        if full in self.classes or full in self.funcs or full in self.modules:
            return full
        # split into module prefix + attr chain
        parts = full.split(".")
        for i in range(len(parts) - 1, 0, -1):
            mod = ".".join(parts[:i])
            if mod in self.modules:
                attr = parts[i]
                m = self.modules[mod]
                if attr in m.imports:
                    tgt = m.imports[attr]
                    rest = parts[i + 1 :]
                    return self._follow_reexport(".".join([tgt] + rest), depth + 1)
                break
        return full

    def resolve_class(self, m: Module, name: str) -> Class | None:
        q = self.resolve_name(m, name)
        if q and q in self.classes:
            return self.classes[q]
        return None

    def mro(self, c: Class) -> list[Class]:
        """Linearisation over repo classes (depth-first, left-to-right, dedup keeping last
        occurrence order compatible with C3 for the simple hierarchies of this repo)."""
        if c._mro is not None:
            return c._mro
        out: list[Class] = [c]
        seqs = []
        for b in c.bases:
            bc = self.resolve_class(c.module, b)
            if bc is not None and bc is not c:
                seqs.append(self.mro(bc))
        for s in seqs:
            for x in s:
                if x in out:
                    out.remove(x)
                out.append(x)
        c._mro = out
        return out

    def lookup_method(self, c: Class, name: str) -> Func | None:
        for k in self.mro(c):
            if name in k.methods:
                return k.methods[name]
        return None

    def subclasses(self, base: Class, strict: bool = True) -> list[Class]:
        out = []
        for c in self.classes.values():
            if base in self.mro(c) and (c is not base or not strict):
                out.append(c)
        return sorted(out, key=lambda c: c.qualname)

    def is_subclass_name(self, c: Class, base_simple_name: str) -> bool:
        for k in self.mro(c):
            if k.name == base_simple_name:
                return True
            for b in k.bases:
                if b.split(".")[-1] == base_simple_name:
                    return True
        return False

    def iter_funcs(self, module_prefixes: tuple[str, ...] | None = None) -> Iterator[Func]:
        seen = set()
        for q, f in sorted(self.funcs.items()):
            if id(f) in seen:
                continue
            seen.add(id(f))
            if module_prefixes is None or any(
                f.module.name == p or f.module.name.startswith(p + ".") for p in module_prefixes
            ):
                yield f


def _sub_bodies(st):
    if isinstance(st, ast.If):
        return [st.body, st.orelse]
    if isinstance(st, ast.Try):
        return [st.body, st.orelse, st.finalbody] + [h.body for h in st.handlers]
    return []


def _iter_nested_defs(st):
    """Yield function defs directly nested (at any statement depth, not inside other defs)."""
    if isinstance(st, (ast.FunctionDef, ast.AsyncFunctionDef)):
        yield st
        return
    if isinstance(st, ast.ClassDef):
        return
    for field in ("body", "orelse", "finalbody", "handlers"):
        for sub in getattr(st, field, []) or []:
            if isinstance(sub, ast.ExceptHandler):
                for s2 in sub.body:
                    yield from _iter_nested_defs(s2)
            elif isinstance(sub, ast.stmt):
                yield from _iter_nested_defs(sub)


def own_nodes(func_node) -> Iterator[ast.AST]:
    """All AST nodes of a function body excluding nested function/class bodies (lambdas and
    comprehensions are included: they run in the enclosing activation for our purposes)."""
    stack = list(reversed(func_node.body))
    while stack:
        n = stack.pop()
        yield n
        for ch in ast.iter_child_nodes(n):
            if isinstance(ch, (ast.FunctionDef, ast.AsyncFunctionDef, ast.ClassDef)):
                # yield the def node itself (decorators/defaults run), not its body
                yield ch
                continue
            stack.append(ch)


def norm(node) -> str:
    """Normalised source text of a node (formatting independent)."""
    try:
        return ast.unparse(node)
    except Exception:  # pragma: no cover
        return "<?>"
