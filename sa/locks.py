"""Lock-discipline analysis for a class (A4 + A5 of DESIGN.md).

guarded fields  G(C): fields assigned in __init__ that are rebound or mutated (directly or
                through one alias level) in some method outside the exempt set - i.e. mutable
                shared state - plus explicitly added fields, minus the lock itself.
held set        : lexical `with self.<lock>:` regions, plus "held on entry" for helper methods
                every one of whose `self.<helper>(..)` call sites in the class is itself in a
                held region or in another held-on-entry helper (greatest fixpoint).
"""
from __future__ import annotations

import ast

from .loader import Class, Func, Program, own_nodes
from .util import FieldAccess, LockRegions, field_accesses, init_fields, lock_kind, self_attr

EXEMPT = {"__init__", "__getstate__", "__setstate__", "__del__", "__new__"}


class ClassLockInfo:
    def __init__(self, program: Program, cls: Class, lock_field: str,
                 extra_guarded: set[str] = frozenset(), helper_public: set[str] = frozenset(),
                 exempt: set[str] = EXEMPT):
        self.program = program
        self.cls = cls
        self.lock = lock_field
        self.exempt = set(exempt)
        self.methods: dict[str, Func] = dict(cls.methods)
        inits = init_fields(cls)
        self.lock_ctor = lock_kind(inits.get(lock_field)) if lock_field in inits else None
        self.regions: dict[str, LockRegions] = {}
        self.accesses: dict[str, list[FieldAccess]] = {}
        for name, f in self.methods.items():
            self.regions[name] = LockRegions(f.node, {lock_field})
            self.accesses[name] = field_accesses(f.node)
        # guarded set
        g = set(extra_guarded)
        for name, accs in self.accesses.items():
            if name in self.exempt:
                continue
            for a in accs:
                if a.kind in ("write", "mutate") and a.field in inits and a.field != lock_field:
                    g.add(a.field)
        self.guarded = g
        # self-call sites
        self.calls: dict[str, list[tuple[str, ast.Call]]] = {n: [] for n in self.methods}
        for name, f in self.methods.items():
            for n in own_nodes(f.node):
                if isinstance(n, ast.Call):
                    callee = self_attr(n.func)
                    if callee is not None and callee in self.methods:
                        self.calls[callee].append((name, n))
        # held-on-entry greatest fixpoint over helper candidates
        cand = {n for n in self.methods
                if (n.startswith("_") and not n.startswith("__")) or n in helper_public}
        cand = {n for n in cand if self.calls[n]
                and "staticmethod" not in self.methods[n].decorators()}
        changed = True
        while changed:
            changed = False
            for h in list(cand):
                for caller, call in self.calls[h]:
                    if caller in self.exempt and caller == "__init__":
                        # call from the constructor: object not shared yet; still require the
                        # lexical lock unless no lock exists yet - be strict: lexical only
                        pass
                    held = self.lock in self.regions[caller].at(call) or caller in cand
                    if not held:
                        cand.discard(h)
                        changed = True
                        break
        self.held_on_entry = cand

    def is_held(self, method: str, node: ast.AST) -> bool:
        return self.lock in self.regions[method].at(node) or method in self.held_on_entry

    def acquires(self) -> dict[str, bool]:
        """method -> does it (transitively through self calls) execute `with self.<lock>`."""
        direct = {}
        for name, f in self.methods.items():
            d = False
            for n in own_nodes(f.node):
                if isinstance(n, ast.With):
                    for it in n.items:
                        if self_attr(it.context_expr) == self.lock:
                            d = True
            direct[name] = d
        acq = dict(direct)
        changed = True
        while changed:
            changed = False
            for callee, sites in self.calls.items():
                if not acq[callee]:
                    continue
                for caller, _ in sites:
                    if not acq[caller]:
                        acq[caller] = True
                        changed = True
        return acq
