"""Command line entry: ./check <Cxx> [--tier quick|thorough] [--repo DIR] [--replay F]."""
from __future__ import annotations

import argparse
import importlib
import json
import os
import sys
import traceback

from .loader import AnalysisError, Program
from .report import Ctx, VERIF, finish


def main(argv=None) -> int:
    ap = argparse.ArgumentParser(prog="check")
    ap.add_argument("property")
    ap.add_argument("--tier", default=os.environ.get("VERIF_TIER") or "quick",
                    choices=["quick", "thorough"])
    ap.add_argument("--repo", default=os.environ.get("VERIF_REPO") or "/repo")
    ap.add_argument("--evidence-dir", default=os.path.join(VERIF, "evidence"))
    ap.add_argument("--replay", default=None)
    args = ap.parse_args(argv)
    pid = args.property.upper()
    try:
        seed = int(os.environ.get("VERIF_SEED", "0") or 0)
    except ValueError:
        seed = 0
    try:
        try:
            mod = importlib.import_module(f"rules.{pid.lower()}")
        except ModuleNotFoundError:
            print(f"ANALYSIS-ERROR property={pid} no rule module rules/{pid.lower()}.py")
            return 2
        import time
        t0 = time.time()
        program = Program(args.repo)
        ctx = Ctx(pid, program, args.tier, seed)
        ctx.t0 = t0
        try:
            mod.run(ctx)
        except AnalysisError as e:
            # findings already established stand on their own; report them, then the error
            if ctx.findings:
                rc = finish(ctx, args.evidence_dir)
                print(f"ANALYSIS-ERROR property={pid} {e} (after the findings above)")
                return rc if rc else 2
            raise
        rc = finish(ctx, args.evidence_dir)
        if args.replay:
            _replay(ctx, args.replay, program)
        return rc
    except AnalysisError as e:
        print(f"ANALYSIS-ERROR property={pid} {e}")
        return 2
    except Exception:  # noqa: BLE001 - a traceback must never look like a violation
        traceback.print_exc()
        print(f"ANALYSIS-ERROR property={pid} internal error (traceback above)")
        return 2


def _replay(ctx: Ctx, path: str, program: Program) -> None:
    try:
        with open(path, encoding="utf-8") as fh:
            wanted = {d["key"] for d in json.load(fh)}
    except Exception as e:  # noqa: BLE001
        print(f"replay: cannot read {path}: {e}")
        return
    now = {f.key: f for f in ctx.findings}
    for k in sorted(wanted):
        if k in now:
            f = now[k]
            print(f"REPLAY still-violated {k}\n   {f.message}\n   at {f.where}\n   witness: {f.witness}")
            if f.where and ":" in f.where:
                rel, _, ln = f.where.rpartition(":")
                try:
                    lines = open(os.path.join(program.repo, rel), encoding="utf-8").read().splitlines()
                    i = int(ln)
                    for j in range(max(1, i - 2), min(len(lines), i + 2) + 1):
                        print(f"     {j:5d} {lines[j-1]}")
                except Exception:  # noqa: BLE001
                    pass
        else:
            print(f"REPLAY no-longer-violated {k}")


if __name__ == "__main__":
    sys.exit(main())
