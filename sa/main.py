"""Command line entry: ./check <Cxx> [--tier quick|thorough] [--repo DIR] [--replay F]."""
from __future__ import annotations

import argparse
import importlib
import json
import os
import sys
import traceback

from .loader import AnalysisError, Program
from .report import Ctx, VERIF, finish


def main(argv=None) -> int:
    ap = argparse.ArgumentParser(prog="check")
    ap.add_argument("property")
    ap.add_argument("--tier", default=os.environ.get("VERIF_TIER") or "quick",
                    choices=["quick", "thorough"])
    ap.add_argument("--repo", default=os.environ.get("VERIF_REPO") or "/repo")
    ap.add_argument("--evidence-dir", default=os.path.join(VERIF, "evidence"))
    ap.add_argument("--replay", default=None)
    args = ap.parse_args(argv)
    pid = args.property.upper()
    try:
        seed = int(os.environ.get("VERIF_SEED", "0") or 0)
    except ValueError:
        seed = 0
    try:
        try:
            mod = importlib.import_module(f"rules.{pid.lower()}")
        except ModuleNotFoundError:
            print(f"ANALYSIS-ERROR property={pid} no rule module rules/{pid.lower()}.py")
            return 2
        import time
        t0 = time.time()
        program = Program(args.repo)
        ctx = Ctx(pid, program, args.tier, seed)
        ctx.t0 = t0
        ctx.note("normalisation", {
            "modules_parsed": len(program.modules),
            "modules_identical_to_reference_tree": sum(1 for m in program.modules.values() if getattr(m, "same_as_reference", False)),
            "function_locals_renamed_to_reference_names": sum(m.renamed_locals for m in program.modules.values()),
            "private_functions_renamed_to_reference_names": getattr(program, "renamed_private_functions", 0),
            "rule": "DESIGN.md 1.4: alpha-normalisation of locals / private function names, canonical comparison orientation, "
                    "positive two-armed tests, augmented assignment, merged nested ifs, folded temp-returns"})
        try:
            mod.run(ctx)
        except AnalysisError as e:
            # findings already established stand on their own; report them, then the error
            if ctx.findings:
                rc = finish(ctx, args.evidence_dir)
                print(f"ANALYSIS-ERROR property={pid} {e} (after the findings above)")
                return rc if rc else 2
            raise
        if args.tier == "thorough" and not os.environ.get("VERIF_NO_SELFVALIDATION"):
            _self_validation(ctx, pid, args.repo)
            _metamorphic(ctx, pid, args.repo)
        rc = finish(ctx, args.evidence_dir)
        if args.replay:
            _replay(ctx, args.replay, program)
        return rc
    except AnalysisError as e:
        print(f"ANALYSIS-ERROR property={pid} {e}")
        return 2
    except Exception:  # noqa: BLE001 - a traceback must never look like a violation
        traceback.print_exc()
        print(f"ANALYSIS-ERROR property={pid} internal error (traceback above)")
        return 2


def _self_validation(ctx: Ctx, pid: str, repo: str) -> None:
    """Thorough tier: re-run the rule on every self-validation variant of this property (one
    instance broken / neutral edit, applied in memory) and record kills in the evidence.  Never
    changes the exit code: a variant that no longer applies to an edited tree is `skipped`."""
    try:
        os.environ["VERIF_REPO"] = repo
        from selftest import run as st
        import importlib
        importlib.reload(st)
        from concurrent.futures import ProcessPoolExecutor
        vs = st.all_variants([pid])
        if not vs:
            return
        with ProcessPoolExecutor(max_workers=min(16, os.cpu_count() or 1)) as ex:
            results = list(ex.map(st.run_variant, vs))
        tally = {}
        for (_vid, _p, status, _info) in results:
            tally[status] = tally.get(status, 0) + 1
        ctx.note("self_validation", {"variants": len(results), "tally": tally,
                                     "not_ok": [f"{v}:{s}:{i[:120]}" for (v, _p, s, i) in results if s.startswith(("MISSED", "FALSE"))]})
        print(f"{pid} self-validation: {len(results)} variants " + " ".join(f"{k}={v}" for k, v in sorted(tally.items())))
    except Exception as e:  # noqa: BLE001
        ctx.note("self_validation", {"error": str(e)[:200]})


def _metamorphic(ctx: Ctx, pid: str, repo: str) -> None:
    """Thorough tier: the verdict of this property's rules must not change under behaviour-preserving rewrites of
    the whole package (tools/metamorph.py T1..T10, applied in memory).  Recorded in the evidence; like the
    self-validation it never changes the exit code of a manifest command."""
    try:
        import importlib
        import io
        import contextlib
        sys.path.insert(0, os.path.join(VERIF, "tools"))
        import metamorph
        metamorph.REPO = repo
        base = sorted(f.key for f in ctx.findings)
        mod = importlib.import_module(f"rules.{pid.lower()}")
        sources = {}
        for root, _d, files in os.walk(os.path.join(repo, "optuna")):
            for fn in files:
                if fn.endswith(".py"):
                    path = os.path.join(root, fn)
                    sources[os.path.relpath(path, repo)] = open(path, encoding="utf-8").read()
        from concurrent.futures import ProcessPoolExecutor
        names = [t for t in metamorph.TRANSFORMS if t != "T0"]
        with ProcessPoolExecutor(max_workers=min(10, os.cpu_count() or 1)) as ex:
            results = list(ex.map(_metamorphic_one, [(pid, repo, t, ctx.tier) for t in names]))
        changed = {t: r for t, r in zip(names, results) if r != base}
        ctx.note("metamorphic", {"transforms": names, "verdict_changes": {t: (r if isinstance(r, str) else sorted(set(r) ^ set(base))[:5]) for t, r in changed.items()},
                                 "rule": "same set of finding keys on every transformed tree"})
        print(f"{pid} metamorphic: {len(names)} whole-package rewrites, verdict changed on {len(changed)}" + (f" {sorted(changed)}" if changed else ""))
    except Exception as e:  # noqa: BLE001
        ctx.note("metamorphic", {"error": str(e)[:200]})


def _metamorphic_one(job):
    pid, repo, tname, tier = job
    import importlib
    import io
    import contextlib
    sys.path.insert(0, os.path.join(VERIF, "tools"))
    import metamorph
    metamorph.REPO = repo
    try:
        if tname == "T10" and not metamorph.RenamePrivateFuncs.NAMES:
            metamorph.RenamePrivateFuncs.NAMES = metamorph._collect_private_funcs()
        ov = {}
        for root, _d, files in os.walk(os.path.join(repo, "optuna")):
            for fn in files:
                if fn.endswith(".py"):
                    path = os.path.join(root, fn)
                    src = open(path, encoding="utf-8").read()
                    try:
                        ov[os.path.relpath(path, repo)] = metamorph.transform_source(src, tname)
                    except SyntaxError:
                        pass
        program = Program(repo, overrides=ov)
        c2 = Ctx(pid, program, tier, 0)
        mod = importlib.import_module(f"rules.{pid.lower()}")
        with contextlib.redirect_stdout(io.StringIO()):
            try:
                mod.run(c2)
            except AnalysisError as e:
                return f"ANALYSIS-ERROR {e}"[:200]
        return sorted(f.key for f in c2.findings)
    except Exception as e:  # noqa: BLE001
        return f"ERROR {type(e).__name__}: {e}"[:200]


def _replay(ctx: Ctx, path: str, program: Program) -> None:
    try:
        with open(path, encoding="utf-8") as fh:
            wanted = {d["key"] for d in json.load(fh)}
    except Exception as e:  # noqa: BLE001
        print(f"replay: cannot read {path}: {e}")
        return
    now = {f.key: f for f in ctx.findings}
    for k in sorted(wanted):
        if k in now:
            f = now[k]
            print(f"REPLAY still-violated {k}\n   {f.message}\n   at {f.where}\n   witness: {f.witness}")
            if f.where and ":" in f.where:
                rel, _, ln = f.where.rpartition(":")
                try:
                    lines = open(os.path.join(program.repo, rel), encoding="utf-8").read().splitlines()
                    i = int(ln)
                    for j in range(max(1, i - 2), min(len(lines), i + 2) + 1):
                        print(f"     {j:5d} {lines[j-1]}")
                except Exception:  # noqa: BLE001
                    pass
        else:
            print(f"REPLAY no-longer-violated {k}")


if __name__ == "__main__":
    sys.exit(main())
