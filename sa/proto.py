"""Tiny parser for optuna/storages/_grpc/api.proto: messages (field name -> kind), enums,
service rpcs.  Enough for the writer/reader agreement rules; not a general proto parser."""
from __future__ import annotations

import os
import re

from .loader import AnalysisError


class Proto:
    def __init__(self, text: str):
        self.messages: dict[str, dict[str, dict]] = {}
        self.enums: dict[str, list[str]] = {}
        self.rpcs: dict[str, tuple[str, str]] = {}
        text = re.sub(r"//[^\n]*", "", text)
        text = re.sub(r"/\*.*?\*/", "", text, flags=re.S)
        for m in re.finditer(r"\brpc\s+(\w+)\s*\(\s*(\w+)\s*\)\s*returns\s*\(\s*(\w+)\s*\)", text):
            self.rpcs[m.group(1)] = (m.group(2), m.group(3))
        for m in re.finditer(r"\benum\s+(\w+)\s*\{([^}]*)\}", text):
            self.enums[m.group(1)] = re.findall(r"\b([A-Z_][A-Z0-9_]*)\s*=\s*\d+", m.group(2))
        for m in re.finditer(r"\bmessage\s+(\w+)\s*\{([^}]*)\}", text):
            fields = {}
            for line in m.group(2).split(";"):
                line = line.strip()
                if not line:
                    continue
                mm = re.match(r"(repeated\s+)?(map\s*<[^>]+>|[\w.]+)\s+(\w+)\s*=\s*\d+", line)
                if mm:
                    kind = "map" if mm.group(2).startswith("map") else ("repeated" if mm.group(1) else "scalar")
                    fields[mm.group(3)] = {"kind": kind, "type": mm.group(2)}
            self.messages[m.group(1)] = fields

    def container_fields(self, message: str) -> set[str]:
        return {k for k, v in self.messages.get(message, {}).items() if v["kind"] in ("repeated", "map")}


def load(repo: str) -> Proto:
    path = os.path.join(repo, "optuna", "storages", "_grpc", "api.proto")
    if not os.path.exists(path):
        raise AnalysisError("api.proto not found")
    with open(path, encoding="utf-8") as f:
        return Proto(f.read())
