"""Findings, known-finding matching, evidence JSON, exit codes."""
from __future__ import annotations

import json
import os
import re
import time

from .loader import AnalysisError

VERIF = os.path.dirname(os.path.dirname(os.path.abspath(__file__)))
KNOWN_FILE = os.path.join(VERIF, "known_findings.txt")


class Finding:
    def __init__(self, rule, construct, detail, message, witness=None, where=None):
        self.rule = rule
        self.construct = construct  # relative-file::Qual.name
        self.detail = detail  # normalised detail (field, callee, parameter) - no line numbers
        self.message = message
        self.witness = witness
        self.where = where  # file:line (informational only; never part of the key)

    @property
    def key(self) -> str:
        return f"{self.rule}|{self.construct}|{self.detail}"

    def to_json(self):
        return {"key": self.key, "rule": self.rule, "construct": self.construct,
                "detail": self.detail, "message": self.message, "witness": self.witness,
                "where": self.where}


def load_known(property_id: str, path: str = KNOWN_FILE) -> dict[str, str]:
    """key -> description for `known:` lines of this property (`fixed:` lines suppress
    nothing and are ignored here)."""
    out: dict[str, str] = {}
    if not os.path.exists(path):
        return out
    with open(path, encoding="utf-8") as f:
        for line in f:
            line = line.strip()
            if not line.startswith("known:"):
                continue
            m = re.match(r"known:\s+property=(\S+)\s+key=(\S+)\s+(.*)$", line)
            if not m:
                continue
            if m.group(1) == property_id:
                out[m.group(2)] = m.group(3)
    return out


class Ctx:
    """Collects obligations and findings for one property run."""

    def __init__(self, property_id, program, tier="quick", seed=0):
        self.property_id = property_id
        self.program = program
        self.tier = tier
        self.seed = seed
        self.t0 = time.time()
        self.findings: list[Finding] = []
        self.obligations = 0
        self.discharged = 0
        self.nontrivial: set[str] = set()
        self.per_rule: dict[str, dict[str, int]] = {}
        self.samples: list[dict] = []
        self.assumptions: list[str] = []
        self.notes: dict[str, object] = {}
        self.explanation = ""
        self.rules_text: dict[str, str] = {}
        self._seen_keys: set[str] = set()
        self._sample_per_rule: dict[str, int] = {}

    # -- declaration helpers
    def rule(self, rule_id: str, text: str) -> None:
        self.rules_text[rule_id] = text
        self.per_rule.setdefault(rule_id, {"obligations": 0, "discharged": 0, "violations": 0})

    def assume(self, text: str) -> None:
        if text not in self.assumptions:
            self.assumptions.append(text)

    def note(self, key: str, value) -> None:
        self.notes[key] = value

    def count(self, rule_id: str, what: str, n: int = 1) -> None:
        d = self.per_rule.setdefault(rule_id, {"obligations": 0, "discharged": 0, "violations": 0})
        d[what] = d.get(what, 0) + n

    # -- obligations
    def ok(self, rule_id: str, construct: str, detail: str, how: str = "", nontrivial=True):
        """Record a discharged obligation."""
        self.obligations += 1
        self.discharged += 1
        d = self.per_rule.setdefault(rule_id, {"obligations": 0, "discharged": 0, "violations": 0})
        d["obligations"] += 1
        d["discharged"] += 1
        key = f"{rule_id}|{construct}|{detail}"
        if nontrivial:
            self.nontrivial.add(key)
        k = self._sample_per_rule.get(rule_id, 0)
        if k < 3:
            self._sample_per_rule[rule_id] = k + 1
            self.samples.append({"rule": rule_id, "construct": construct, "obligation": detail,
                                 "verdict": "discharged", "how": how})

    def fail(self, rule_id, construct, detail, message, witness=None, where=None):
        """Record a violated obligation (a finding)."""
        self.obligations += 1
        d = self.per_rule.setdefault(rule_id, {"obligations": 0, "discharged": 0, "violations": 0})
        d["obligations"] += 1
        d["violations"] += 1
        f = Finding(rule_id, construct, detail, message, witness, where)
        if f.key in self._seen_keys:
            return
        self._seen_keys.add(f.key)
        self.findings.append(f)
        self.samples.append({"rule": rule_id, "construct": construct, "obligation": detail,
                             "verdict": "VIOLATED", "how": message})

    def check(self, cond, rule_id, construct, detail, message="", how="", witness=None,
              where=None, nontrivial=True):
        if cond:
            self.ok(rule_id, construct, detail, how, nontrivial)
        else:
            self.fail(rule_id, construct, detail, message or detail, witness, where)
        return bool(cond)

    # -- fail-closed helpers
    def require(self, cond, msg: str) -> None:
        if not cond:
            raise AnalysisError(msg)

    def floor(self, rule_id: str, what: str, n: int, minimum: int, exact: bool = False) -> None:
        """Fail closed when a rule matches far fewer instances than were confirmed by hand.

        `minimum` is the count confirmed on the tree the rule was written for. Counts of API-level
        things (abstract methods, backends, op-codes, RPCs: exact=True) must not drop at all.
        Counts of *sites* (accesses, call sites, tests) legitimately shrink when a maintainer
        removes duplication (extract-method halves them), so those only fail when they collapse
        below half: the floor is there to catch a rule that has gone blind, not to pin the text."""
        self.count(rule_id, what, 0)
        self.per_rule[rule_id][what] = n
        threshold = minimum if exact else max(1, (minimum + 1) // 2)
        if os.environ.get("VERIF_FLOOR_PROBE"):
            print(f"FLOOR-PROBE {rule_id} {what}: found={n} confirmed={minimum} fails-below={threshold}")
            return
        if n < threshold:
            raise AnalysisError(
                f"{rule_id}: found {n} {what}, the rule was confirmed by hand on {minimum} "
                f"(fails below {threshold}: rule would pass vacuously)")


class RuleAlias:
    """View of a Ctx that files everything a shared rule function reports under another rule id.

    Several properties have a clause in common (a queued trial hidden by a cache watermark breaks C04 as
    well as C08; a reader that caches an offset inside a half-written record breaks C03 as well as C07).
    The shared rule functions carry the id of the property they were written for; a property that
    registers the same clause calls them through this view, so the obligation, the floor and any finding
    are counted and reported under its own rule id."""

    def __init__(self, ctx, mapping):
        self._ctx = ctx
        self._map = dict(mapping)

    def __getattr__(self, name):
        return getattr(self._ctx, name)

    def _r(self, rule_id):
        return self._map.get(rule_id, rule_id)

    def rule(self, rule_id, text):
        return self._ctx.rule(self._r(rule_id), text)

    def count(self, rule_id, what, n=1):
        return self._ctx.count(self._r(rule_id), what, n)

    def ok(self, rule_id, *a, **k):
        return self._ctx.ok(self._r(rule_id), *a, **k)

    def fail(self, rule_id, *a, **k):
        return self._ctx.fail(self._r(rule_id), *a, **k)

    def check(self, cond, rule_id, *a, **k):
        return self._ctx.check(cond, self._r(rule_id), *a, **k)

    def floor(self, rule_id, *a, **k):
        return self._ctx.floor(self._r(rule_id), *a, **k)


def finish(ctx: Ctx, evidence_dir: str, level: str = "other") -> int:
    """Print the verdict lines, write evidence, return the exit code."""
    pid = ctx.property_id
    known = load_known(pid)
    unlisted = [f for f in ctx.findings if f.key not in known]
    listed = [f for f in ctx.findings if f.key in known]
    os.makedirs(evidence_dir, exist_ok=True)
    for f in listed:
        print(f"KNOWN-FINDING: property={pid} {known[f.key]} [{f.key}]")
    replay_path = os.path.join(evidence_dir, f"{pid}.violations.json")
    if unlisted:
        with open(replay_path, "w", encoding="utf-8") as fh:
            json.dump([f.to_json() for f in unlisted], fh, indent=1)
        for f in unlisted:
            print(f"FINDING property={pid} rule={f.rule} at={f.where or f.construct} "
                  f"construct={f.construct} detail={f.detail}: {f.message}")
            if f.witness:
                print(f"    witness: {f.witness}")
        print(f"VIOLATION property={pid} replay={replay_path}")
    elif os.path.exists(replay_path):
        os.remove(replay_path)
    wall = time.time() - ctx.t0
    expl = ctx.explanation + " Rules: " + " ".join(
        f"[{r}] {t}" for r, t in sorted(ctx.rules_text.items()))
    coverage = {
        "explanation": expl,
        "obligations": ctx.obligations,
        "discharged": ctx.discharged,
        "evaluations": ctx.obligations,
        "distinct_nontrivial": len(ctx.nontrivial),
        "rule": ("one evaluation = one static obligation (rule instance at a construct) decided "
                 "on the parsed source of /repo; non-trivial = discharged by a dominance, "
                 "reachability, dataflow or table comparison (not by absence of sites); "
                 "distinct = distinct rule|construct|detail keys"),
        "samples": ctx.samples[:60],
        "per_rule": ctx.per_rule,
        "exhaustive": True,
        "checker_cmd": f"./check {pid} --tier {ctx.tier}",
        "trusted_base": ["CPython ast parser", "sa/ engine (CFG, reachability, dataflow)",
                         "rule tables in rules/" + pid.lower() + ".py"],
        "modules_parsed": len(ctx.program.modules),
        "functions_parsed": len(ctx.program.funcs),
        "known_findings": [f.key for f in listed],
        "unlisted_findings": [f.to_json() for f in unlisted],
    }
    try:
        from .cfg import CFG
        coverage["cfgs_built"] = CFG.stats["cfgs"]
        coverage["cfg_nodes"] = CFG.stats["nodes"]
        coverage["cfg_edges"] = CFG.stats["edges"]
        coverage["functions_with_cfg"] = len(CFG.stats["functions"])
    except Exception:  # noqa: BLE001
        pass
    coverage.update(ctx.notes)
    ev = {
        "property_id": pid,
        "tier": ctx.tier,
        "seed": ctx.seed,
        "level": level,
        "coverage": coverage,
        "assumptions": ctx.assumptions,
        "wall_s": round(wall, 3),
        "violations": len(unlisted),
    }
    with open(os.path.join(evidence_dir, f"{pid}.json"), "w", encoding="utf-8") as fh:
        json.dump(ev, fh, indent=1, default=str)
    print(f"{pid} tier={ctx.tier}: obligations={ctx.obligations} discharged={ctx.discharged} "
          f"nontrivial={len(ctx.nontrivial)} known={len(listed)} violations={len(unlisted)} "
          f"wall={wall:.2f}s")
    for r, d in sorted(ctx.per_rule.items()):
        print(f"  {r}: " + " ".join(f"{k}={v}" for k, v in d.items()))
    return 1 if unlisted else 0
