"""Inverse refactorings for code that was moved *between* functions (DESIGN.md 1.4 item 7).

Every pass only touches private functions / methods that the reference tree (sa/localnames.json) does not
have, so the unchanged tree is never rewritten.  Each pass undoes one mechanical, behaviour-preserving move:

  reattach      a module-level private function all of whose uses are `f(self, ...)` inside methods of one
                class is that class's method again
  specialise    a private function with a parameter that is a literal True / False at every call site is
                cloned per value with the parameter folded away (the clones get their reference names back from
                the body-fingerprint renamer)
  splice_cm     `with self._h(args): BODY` for a private @contextmanager helper with one bare `yield` is the
                helper's body with BODY in place of the yield
  tail_if       a caller whose last statement is `if self._h(args): S` (no else) with a boolean helper made
                of early returns is the helper's body with `return True` -> `S; return`, `return False` ->
                `return`, `return E` -> `if E: S` + `return`
  tail_returns  a helper ending in `if c: return A else: return B` ends in `return A if c else B`
"""
from __future__ import annotations

import ast
import copy


def _is_new_private(name: str, qual: str, ref_private: set) -> bool:
    return name.startswith("_") and not name.endswith("__") and qual not in ref_private


class _Subst(ast.NodeTransformer):
    def __init__(self, binding):
        self.binding = binding

    def visit_Name(self, node):
        if node.id in self.binding and isinstance(node.ctx, ast.Load):
            return copy.deepcopy(self.binding[node.id])
        return node


def _refs(tree, name, as_attr):
    out = []
    for n in ast.walk(tree):
        if as_attr and isinstance(n, ast.Attribute) and n.attr == name:
            out.append(n)
        elif not as_attr and isinstance(n, ast.Name) and n.id == name:
            out.append(n)
    return out


# ------------------------------------------------------------------------------------------------ reattach
def reattach(tree: ast.Module, ref_private: set) -> int:
    n_done = 0
    classes = [c for c in tree.body if isinstance(c, ast.ClassDef)]
    for f in [x for x in tree.body if isinstance(x, ast.FunctionDef)]:
        if not _is_new_private(f.name, f.name, ref_private) or f.decorator_list:
            continue
        a = f.args
        if a.vararg or a.kwarg or a.posonlyargs or not a.args:
            continue
        refs = _refs(tree, f.name, False)
        if not refs:
            continue
        owner = None
        calls = []
        ok = True
        for c in classes:
            for m in [x for x in c.body if isinstance(x, ast.FunctionDef)]:
                for n in ast.walk(m):
                    if isinstance(n, ast.Call) and any(n.func is r for r in refs):
                        recv = m.args.args[0].arg if m.args.args else None
                        if not (n.args and isinstance(n.args[0], ast.Name) and n.args[0].id == recv and recv in ("self", "cls")):
                            ok = False
                        if owner is not None and owner is not c:
                            ok = False
                        owner = c
                        calls.append(n)
        if not ok or owner is None or len(calls) != len(refs):
            continue
        if any(isinstance(x, ast.FunctionDef) and x.name == f.name for x in owner.body):
            continue
        first = a.args[0].arg
        if first != "self":
            if any(isinstance(x, ast.Name) and x.id == "self" for x in ast.walk(f)):
                continue
            for x in ast.walk(f):
                if isinstance(x, ast.Name) and x.id == first:
                    x.id = "self"
            a.args[0].arg = "self"
        for c in calls:
            c.func = ast.copy_location(ast.Attribute(value=ast.Name(id="self", ctx=ast.Load()), attr=f.name, ctx=ast.Load()), c.func)
            c.args = c.args[1:]
        tree.body.remove(f)
        owner.body.append(f)
        n_done += 1
    return n_done


# ------------------------------------------------------------------------------------------------ specialise
class _FoldConst(ast.NodeTransformer):
    def __init__(self, name, value):
        self.name, self.value = name, value

    def visit_Name(self, node):
        if node.id == self.name and isinstance(node.ctx, ast.Load):
            return ast.copy_location(ast.Constant(value=self.value), node)
        return node

    @staticmethod
    def _truth(e):
        if isinstance(e, ast.Constant) and isinstance(e.value, bool):
            return e.value
        if isinstance(e, ast.UnaryOp) and isinstance(e.op, ast.Not) and isinstance(e.operand, ast.Constant) and isinstance(e.operand.value, bool):
            return not e.operand.value
        return None

    def visit_If(self, node):
        self.generic_visit(node)
        t = self._truth(node.test)
        if t is None:
            return node
        return (node.body if t else node.orelse) or [ast.copy_location(ast.Pass(), node)]

    def visit_IfExp(self, node):
        self.generic_visit(node)
        t = self._truth(node.test)
        if t is None:
            return node
        return node.body if t else node.orelse


def specialise(tree: ast.Module, ref_private: set) -> int:
    n_done = 0
    scopes = [(tree.body, "", False)] + [(c.body, c.name + ".", True) for c in tree.body if isinstance(c, ast.ClassDef)]
    for body, prefix, is_class in scopes:
        for f in [x for x in body if isinstance(x, ast.FunctionDef)]:
            if not _is_new_private(f.name, prefix + f.name, ref_private) or f.decorator_list:
                continue
            a = f.args
            if a.vararg or a.kwarg or a.posonlyargs or a.kwonlyargs:
                continue
            params = [x.arg for x in a.args]
            refs = _refs(tree, f.name, is_class)
            calls = [n for n in ast.walk(tree) if isinstance(n, ast.Call) and any(n.func is r for r in refs)]
            if not refs or len(calls) != len(refs):
                continue
            off = 1 if is_class else 0
            for i, pn in enumerate(params):
                if i < off:
                    continue
                if any(isinstance(x, ast.Name) and x.id == pn and isinstance(x.ctx, (ast.Store, ast.Del)) for x in ast.walk(f)):
                    continue
                vals = []
                for c in calls:
                    v = None
                    if len(c.args) > i - off:
                        v = c.args[i - off]
                    else:
                        v = next((k.value for k in c.keywords if k.arg == pn), None)
                    vals.append(v)
                if not all(isinstance(v, ast.Constant) and isinstance(v.value, bool) for v in vals) or len({v.value for v in vals}) < 2:
                    continue
                # clone per value
                for val in (True, False):
                    g = copy.deepcopy(f)
                    g.name = f"{f.name}__{pn}_{val}"
                    g.args.args = [x for x in g.args.args if x.arg != pn]
                    nd = len(a.defaults)
                    if nd:
                        keep = [(x, d) for x, d in zip(a.args[len(a.args) - nd:], a.defaults) if x.arg != pn]
                        g.args.defaults = [copy.deepcopy(d) for _, d in keep]
                    g = _FoldConst(pn, val).visit(g)
                    ast.fix_missing_locations(g)
                    body.insert(body.index(f), g)
                for c, v in zip(calls, vals):
                    nm = f"{f.name}__{pn}_{v.value}"
                    if is_class:
                        c.func.attr = nm
                    else:
                        c.func.id = nm
                    if len(c.args) > i - off:
                        del c.args[i - off]
                    else:
                        c.keywords = [k for k in c.keywords if k.arg != pn]
                body.remove(f)
                n_done += 1
                break
    return n_done


# ------------------------------------------------------------------------------------------------ splice_cm
def _is_cm(f: ast.FunctionDef) -> bool:
    for d in f.decorator_list:
        s = ast.unparse(d)
        if s in ("contextmanager", "contextlib.contextmanager"):
            return True
    return False


class _ReplaceYield(ast.NodeTransformer):
    def __init__(self, body, as_name=None, binding=None):
        self.body = body
        self.as_name = as_name
        self.binding = binding or {}
        self.n = 0

    def visit_Expr(self, node):
        if isinstance(node.value, ast.Yield):
            self.n += 1
            out = []
            if node.value.value is not None and self.as_name is not None:
                out.append(ast.copy_location(ast.Assign(targets=[ast.Name(id=self.as_name, ctx=ast.Store())],
                                                        value=copy.deepcopy(node.value.value)), node))
            return out + [copy.deepcopy(b) for b in self.body]
        return node

    def visit_FunctionDef(self, node):
        return node

    visit_Lambda = visit_FunctionDef


def splice_cm(tree: ast.Module, ref_private: set) -> int:
    n_done = 0
    scopes = [(tree.body, "", False)] + [(c.body, c.name + ".", True) for c in tree.body if isinstance(c, ast.ClassDef)]
    for body, prefix, is_class in scopes:
        for f in [x for x in body if isinstance(x, ast.FunctionDef)]:
            if not _is_new_private(f.name, prefix + f.name, ref_private) or not _is_cm(f) or len(f.decorator_list) != 1:
                continue
            yields = [x for x in ast.walk(f) if isinstance(x, (ast.Yield, ast.YieldFrom))]
            if len(yields) != 1 or not isinstance(yields[0], ast.Yield):
                continue
            yields_value = yields[0].value is not None
            if any(isinstance(x, ast.Return) for x in ast.walk(f)):
                continue
            a = f.args
            if a.vararg or a.kwarg or a.posonlyargs or a.kwonlyargs:
                continue
            params = [x.arg for x in a.args][1 if is_class else 0:]
            refs = _refs(tree, f.name, is_class)
            sites = []
            for n in ast.walk(tree):
                if isinstance(n, ast.With) and len(n.items) == 1:
                    ce = n.items[0].context_expr
                    ov = n.items[0].optional_vars
                    if isinstance(ce, ast.Call) and any(ce.func is r for r in refs) and ((ov is None and not yields_value) or (isinstance(ov, ast.Name) and yields_value)):
                        sites.append(n)
            if not sites or len(sites) != len(refs):
                continue
            hbody = [b for b in f.body if not (isinstance(b, ast.Expr) and isinstance(b.value, ast.Constant))]
            hl = {x.id for x in ast.walk(f) if isinstance(x, ast.Name) and isinstance(x.ctx, ast.Store)}
            if hl:
                continue  # helper-local names would have to be kept apart from the callers'
            plans = []
            for w in sites:
                ce = w.items[0].context_expr
                if is_class and not (isinstance(ce.func.value, ast.Name) and ce.func.value.id == "self"):
                    plans = None
                    break
                binding = dict(zip(params, ce.args))
                for k in ce.keywords:
                    if k.arg is None:
                        plans = None
                        break
                    binding[k.arg] = k.value
                if plans is None or set(binding) != set(params):
                    plans = None
                    break
                new = []
                for b in hbody:
                    nb = _Subst(binding).visit(copy.deepcopy(b))
                    ov = w.items[0].optional_vars
                    r = _ReplaceYield(w.body, ov.id if isinstance(ov, ast.Name) else None)
                    nb = r.visit(nb)
                    new.extend(nb if isinstance(nb, list) else [nb])
                plans.append((w, new))
            if not plans:
                continue
            # replace each With statement in its parent block
            for w, new in plans:
                for parent in ast.walk(tree):
                    for fld in ("body", "orelse", "finalbody"):
                        blk = getattr(parent, fld, None)
                        if isinstance(blk, list) and any(st is w for st in blk):
                            i = [k for k, st in enumerate(blk) if st is w][0]
                            for nb in new:
                                ast.copy_location(nb, w)
                            blk[i:i + 1] = new
            body.remove(f)
            ast.fix_missing_locations(tree)
            n_done += 1
    return n_done


# ------------------------------------------------------------------------------------------------ tail_returns
def tail_returns(tree: ast.Module, ref_private: set) -> int:
    """helper ending in `if c: return A else: return B` -> `return A if c else B` (so that the single-return inliner applies)"""
    n_done = 0
    scopes = [(tree.body, "")] + [(c.body, c.name + ".") for c in tree.body if isinstance(c, ast.ClassDef)]
    for body, prefix in scopes:
        for f in [x for x in body if isinstance(x, ast.FunctionDef)]:
            if not _is_new_private(f.name, prefix + f.name, ref_private):
                continue
            last = f.body[-1] if f.body else None
            if isinstance(last, ast.If) and len(last.body) == 1 and len(last.orelse) == 1 and isinstance(last.body[0], ast.Return) \
                    and isinstance(last.orelse[0], ast.Return) and last.body[0].value is not None and last.orelse[0].value is not None:
                f.body[-1] = ast.copy_location(ast.Return(value=ast.IfExp(test=last.test, body=last.body[0].value, orelse=last.orelse[0].value)), last)
                ast.fix_missing_locations(f)
                n_done += 1
    return n_done


# ------------------------------------------------------------------------------------------------ tail_if
class _RetToAction(ast.NodeTransformer):
    def __init__(self, action):
        self.action = action
        self.ok = True

    def visit_Return(self, node):
        v = node.value
        act = [copy.deepcopy(s) for s in self.action]
        ret = ast.copy_location(ast.Return(value=None), node)
        if isinstance(v, ast.Constant) and v.value is True:
            return act + [ret]
        if isinstance(v, ast.Constant) and v.value is False:
            return [ret]
        if v is None:
            self.ok = False
            return node
        return [ast.copy_location(ast.If(test=v, body=act, orelse=[]), node), ret]

    def visit_FunctionDef(self, node):
        return node

    visit_Lambda = visit_FunctionDef


def tail_if(tree: ast.Module, ref_private: set) -> int:
    n_done = 0
    for c in [x for x in tree.body if isinstance(x, ast.ClassDef)]:
        methods = [x for x in c.body if isinstance(x, ast.FunctionDef)]
        for h in list(methods):
            if not _is_new_private(h.name, c.name + "." + h.name, ref_private) or h.decorator_list:
                continue
            a = h.args
            if a.vararg or a.kwarg or a.posonlyargs or a.kwonlyargs:
                continue
            params = [x.arg for x in a.args][1:]
            refs = _refs(tree, h.name, True)
            if len(refs) != 1:
                continue
            if any(isinstance(x, (ast.Yield, ast.YieldFrom, ast.Await)) for x in ast.walk(h)):
                continue
            for m in methods:
                if m is h or not m.body:
                    continue
                last = m.body[-1]
                if not (isinstance(last, ast.If) and not last.orelse and isinstance(last.test, ast.Call) and last.test.func is refs[0]):
                    continue
                call = last.test
                if not (isinstance(call.func.value, ast.Name) and call.func.value.id == "self") or call.keywords:
                    continue
                if len(call.args) != len(params) or not all(isinstance(v, ast.Name) and v.id == pn for v, pn in zip(call.args, params)):
                    continue  # identity binding only: the helper's names become the caller's
                if any(isinstance(x, ast.Return) and x.value is not None for x in ast.walk(m)):
                    continue  # the caller returns None everywhere, so a spliced bare `return` means the same
                hbody = [b for b in h.body if not (isinstance(b, ast.Expr) and isinstance(b.value, ast.Constant))]
                tr = _RetToAction(last.body)
                new = []
                for b in hbody:
                    nb = tr.visit(copy.deepcopy(b))
                    new.extend(nb if isinstance(nb, list) else [nb])
                if not tr.ok:
                    continue
                for nb in new:
                    ast.copy_location(nb, last)
                m.body[-1:] = new
                c.body.remove(h)
                ast.fix_missing_locations(tree)
                n_done += 1
                break
    return n_done


# ------------------------------------------------------------------------------------------------ unwrap_namedtuples
def unwrap_namedtuples(tree: ast.Module) -> int:
    """`a, b = _C(x, y)` for a private NamedTuple class `_C` that is used for nothing else in the module (the carrier of a
    group of values between a caller and a helper that has been inlined again) -> `a, b = x, y`; identity pairs vanish."""
    n_done = 0
    for c in [x for x in tree.body if isinstance(x, ast.ClassDef)]:
        if not c.name.startswith("_") or [ast.unparse(b) for b in c.bases] not in (["NamedTuple"], ["typing.NamedTuple"]):
            continue
        if not all(isinstance(st, ast.AnnAssign) or (isinstance(st, ast.Expr) and isinstance(st.value, ast.Constant)) for st in c.body):
            continue
        nfields = sum(isinstance(st, ast.AnnAssign) for st in c.body)
        value_refs = []
        annotations = set()
        for n in ast.walk(tree):
            for fld in ("annotation", "returns"):
                ann = getattr(n, fld, None)
                if ann is not None:
                    for y in ast.walk(ann):
                        annotations.add(id(y))
        for n in ast.walk(tree):
            if isinstance(n, ast.Name) and n.id == c.name and id(n) not in annotations:
                value_refs.append(n)
        sites = []
        for parent in ast.walk(tree):
            for fld in ("body", "orelse", "finalbody"):
                blk = getattr(parent, fld, None)
                if not isinstance(blk, list):
                    continue
                for st in blk:
                    if isinstance(st, ast.Assign) and len(st.targets) == 1 and isinstance(st.targets[0], ast.Tuple) and isinstance(st.value, ast.Call) \
                            and any(st.value.func is r for r in value_refs) and not st.value.keywords and len(st.value.args) == nfields == len(st.targets[0].elts):
                        sites.append((blk, st))
        if not sites or len(sites) != len(value_refs):
            continue
        for blk, st in sites:
            pairs = [(t, v) for t, v in zip(st.targets[0].elts, st.value.args)
                     if not (isinstance(t, ast.Name) and isinstance(v, ast.Name) and t.id == v.id)]
            i = [k for k, x in enumerate(blk) if x is st][0]
            if not pairs:
                blk[i:i + 1] = [] if len(blk) > 1 else [ast.copy_location(ast.Pass(), st)]
            elif len(pairs) == 1:
                blk[i] = ast.copy_location(ast.Assign(targets=[pairs[0][0]], value=pairs[0][1]), st)
            else:
                blk[i] = ast.copy_location(ast.Assign(targets=[ast.Tuple(elts=[p[0] for p in pairs], ctx=ast.Store())],
                                                      value=ast.Tuple(elts=[p[1] for p in pairs], ctx=ast.Load())), st)
        tree.body.remove(c)
        ast.fix_missing_locations(tree)
        n_done += 1
    return n_done


# ------------------------------------------------------------------------------------------------ inline_expr_helpers
def _single_return_expr(f: ast.FunctionDef):
    body = [b for b in f.body if not (isinstance(b, ast.Expr) and isinstance(b.value, ast.Constant))]
    if len(body) == 1 and isinstance(body[0], ast.Return) and body[0].value is not None:
        return body[0].value
    return None


def inline_expr_helpers(modules: dict, ref: dict) -> int:
    """A module-level private function that the reference tree does not have and whose body is `return <expr>` (an expression factored out of
    several places, possibly used from a sibling module through `from m import _h`) is substituted back at every call."""
    n_done = 0
    new_helpers = {}  # (module name, function name) -> FunctionDef
    for m in modules.values():
        r = ref.get(m.relpath)
        if not r or r.get("__digest__") == m.digest:
            continue
        rp = set(r.get("__funcs__", {}))
        for f in [x for x in m.tree.body if isinstance(x, ast.FunctionDef)]:
            a = f.args
            if _is_new_private(f.name, f.name, rp) and not f.decorator_list and not (a.vararg or a.kwarg or a.posonlyargs or a.kwonlyargs) \
                    and _single_return_expr(f) is not None and not any(isinstance(x, (ast.Lambda, ast.Yield, ast.Await, ast.NamedExpr)) for x in ast.walk(f)):
                new_helpers[(m.name, f.name)] = f
    if not new_helpers:
        return 0
    used = set()
    for m in modules.values():
        visible = {fn: (mn, fn) for (mn, fn) in new_helpers if mn == m.name}
        for st in m.tree.body:
            if isinstance(st, ast.ImportFrom) and st.module:
                for al in st.names:
                    if (st.module, al.name) in new_helpers:
                        visible[al.asname or al.name] = (st.module, al.name)
        if not visible:
            continue

        class T(ast.NodeTransformer):
            def visit_Call(self, node):
                self.generic_visit(node)
                if isinstance(node.func, ast.Name) and node.func.id in visible:
                    h = new_helpers[visible[node.func.id]]
                    params = [x.arg for x in h.args.args]
                    if any(k.arg is None for k in node.keywords) or any(isinstance(x, ast.Starred) for x in node.args):
                        return node
                    binding = dict(zip(params, node.args))
                    for k in node.keywords:
                        binding[k.arg] = k.value
                    for name, d in zip(params[len(params) - len(h.args.defaults):], h.args.defaults):
                        binding.setdefault(name, d)
                    if set(binding) != set(params):
                        return node
                    expr = _single_return_expr(h)
                    for pn, v in binding.items():
                        uses = sum(1 for x in ast.walk(expr) if isinstance(x, ast.Name) and x.id == pn)
                        simple = isinstance(v, (ast.Name, ast.Constant)) or (isinstance(v, ast.Attribute) and isinstance(v.value, ast.Name))
                        if uses > 1 and not simple:
                            return node
                    used.add(visible[node.func.id])
                    return ast.copy_location(_Subst(binding).visit(copy.deepcopy(expr)), node)
                return node
        for f in [x for x in ast.walk(m.tree) if isinstance(x, ast.FunctionDef)]:
            if (m.name, f.name) in new_helpers and new_helpers[(m.name, f.name)] is f:
                continue
            T().visit(f)
        ast.fix_missing_locations(m.tree)
    # drop helpers that are referenced nowhere any more (value position)
    for (mn, fn) in used:
        still = False
        for m in modules.values():
            for n in ast.walk(m.tree):
                if isinstance(n, ast.Name) and n.id == fn and isinstance(n.ctx, ast.Load):
                    still = True
        if not still:
            mod = next(m for m in modules.values() if m.name == mn)
            mod.tree.body = [st for st in mod.tree.body if st is not new_helpers[(mn, fn)]]
            for m in modules.values():
                for st in m.tree.body:
                    if isinstance(st, ast.ImportFrom) and st.module == mn:
                        st.names = [al for al in st.names if al.name != fn] or st.names
            n_done += 1
    return n_done
