"""Shared syntactic helpers: parent maps, lock regions, self-field access census, calls."""
from __future__ import annotations

import ast
from typing import Iterable, Iterator

from .loader import AnalysisError, Class, Func, Program, dotted, norm, own_nodes

MUTATING_METHODS = {
    "append", "extend", "insert", "pop", "popitem", "remove", "discard", "clear", "update",
    "add", "setdefault", "sort", "reverse", "__setitem__", "__delitem__",
}


def parent_map(root: ast.AST) -> dict[int, ast.AST]:
    pm: dict[int, ast.AST] = {}
    for n in ast.walk(root):
        for ch in ast.iter_child_nodes(n):
            pm[id(ch)] = n
    return pm


def ancestors(node: ast.AST, pm: dict[int, ast.AST]) -> Iterator[ast.AST]:
    while id(node) in pm:
        node = pm[id(node)]
        yield node


def self_attr(node: ast.AST, self_name: str = "self") -> str | None:
    """`self.X` -> 'X' (only direct attribute of the receiver name)."""
    if (isinstance(node, ast.Attribute) and isinstance(node.value, ast.Name)
            and node.value.id == self_name):
        return node.attr
    return None


def root_self_attr(node: ast.AST, self_name: str = "self") -> str | None:
    """For `self.X[...].y[..]...` return 'X' (the self field at the root of the chain)."""
    while True:
        a = self_attr(node, self_name)
        if a is not None:
            return a
        if isinstance(node, ast.Attribute):
            node = node.value
        elif isinstance(node, ast.Subscript):
            node = node.value
        elif isinstance(node, ast.Call) and isinstance(node.func, ast.Attribute):
            # self.X.get(k).y  -> rooted at X
            node = node.func.value
        else:
            return None


def call_name(call: ast.Call) -> str | None:
    return dotted(call.func)


def calls_in(node: ast.AST) -> list[ast.Call]:
    return [n for n in ast.walk(node) if isinstance(n, ast.Call)]


def is_method_call(call: ast.Call, recv: str, name: str | None = None) -> bool:
    """call is `<recv>.<name>(...)` where recv is a dotted receiver such as 'self._backend'."""
    f = call.func
    if not isinstance(f, ast.Attribute):
        return False
    if name is not None and f.attr != name:
        return False
    return dotted(f.value) == recv


def kwarg(call: ast.Call, name: str, pos: int | None = None) -> ast.AST | None:
    for k in call.keywords:
        if k.arg == name:
            return k.value
    if pos is not None and pos < len(call.args):
        a = call.args[pos]
        if not isinstance(a, ast.Starred):
            return a
    return None


def with_lock_name(item: ast.withitem, self_name: str = "self") -> str | None:
    """`with self._lock:` -> '_lock' (context expr is a bare self attribute)."""
    return self_attr(item.context_expr, self_name)


class LockRegions:
    """Lexical held-lock sets for every AST node of a function (A4, lexical part)."""

    def __init__(self, func_node: ast.FunctionDef, lock_fields: set[str], self_name="self"):
        self.held: dict[int, frozenset[str]] = {}
        self.lock_fields = lock_fields
        self.self_name = self_name
        self._walk_body(func_node.body, frozenset())

    def _walk_body(self, body, held):
        for st in body:
            self._walk(st, held)

    def _walk(self, node, held):
        self.held[id(node)] = held
        if isinstance(node, ast.With):
            inner = held
            for item in node.items:
                # the context expression itself is evaluated with the outer set
                for sub in ast.walk(item):
                    self.held[id(sub)] = inner
                ln = with_lock_name(item, self.self_name)
                if ln is not None and ln in self.lock_fields:
                    inner = inner | {ln}
            for st in node.body:
                self._walk(st, inner)
            return
        if isinstance(node, (ast.FunctionDef, ast.AsyncFunctionDef, ast.ClassDef, ast.Lambda)):
            # nested function bodies do not run under the enclosing lock (they may be
            # called later); key lambdas passed to sorted() run immediately, treat Lambda
            # as running in place.
            if isinstance(node, ast.Lambda):
                for ch in ast.iter_child_nodes(node):
                    self._walk(ch, held)
            else:
                for ch in ast.iter_child_nodes(node):
                    self._walk(ch, frozenset())
            return
        for ch in ast.iter_child_nodes(node):
            self._walk(ch, held)

    def at(self, node) -> frozenset[str]:
        return self.held.get(id(node), frozenset())


class FieldAccess:
    __slots__ = ("field", "kind", "node", "stmt", "via_alias")

    def __init__(self, field, kind, node, via_alias=None):
        self.field = field
        self.kind = kind  # read | write | mutate
        self.node = node
        self.via_alias = via_alias


def field_accesses(func_node: ast.FunctionDef, self_name: str = "self",
                   alias_fields: set[str] | None = None) -> list[FieldAccess]:
    """Every access to `self.<field>` in the function body, classified.

    write  : self.f = ..., self.f += ..., del self.f
    mutate : self.f[k] = ..., del self.f[k], self.f[k].g = ..., self.f.append(..) and the same
             through a chain rooted at self.f
    read   : any other load of self.f

    One level of local aliasing is followed for fields in `alias_fields` (or all fields when
    None): `study = self._studies[k]` makes later `study.x = ...` / `study.xs.add(..)` a mutate
    of `_studies`, and loads of `study` reads of it.
    """
    out: list[FieldAccess] = []
    pm = parent_map(func_node)
    aliases: dict[str, str] = {}
    # pass 1: aliases (local bound to an expression rooted at a self field)
    for n in own_nodes(func_node):
        if isinstance(n, ast.Assign) and len(n.targets) == 1 and isinstance(n.targets[0], ast.Name):
            r = root_self_attr(n.value, self_name)
            if r is not None and (alias_fields is None or r in alias_fields):
                # only plain chains (self.f, self.f[k], self.f[k].g, self.f.get(k))
                aliases.setdefault(n.targets[0].id, r)
        elif isinstance(n, (ast.For, ast.comprehension)):
            tgt = n.target
            r = root_self_attr(n.iter, self_name)
            if r is None and isinstance(n.iter, ast.Call) and isinstance(n.iter.func, ast.Attribute):
                r = root_self_attr(n.iter.func.value, self_name)  # self.f.values()/items()
            if r is not None and (alias_fields is None or r in alias_fields):
                for t in ast.walk(tgt):
                    if isinstance(t, ast.Name):
                        aliases.setdefault(t.id, r)

    def classify(node: ast.AST, field: str, via) -> None:
        """node is the `self.f` Attribute (or alias Name) expression."""
        par = pm.get(id(node))
        ctx = getattr(node, "ctx", None)
        if isinstance(ctx, (ast.Store, ast.Del)):
            if via is None:
                out.append(FieldAccess(field, "write", node))
            return  # rebinding a local alias is not a field access
        if isinstance(par, ast.AugAssign) and par.target is node:
            out.append(FieldAccess(field, "write" if via is None else "read", node, via))
            return
        # climb the chain self.f[..].g[..] to see how the outermost expression is used
        cur = node
        while True:
            par = pm.get(id(cur))
            if isinstance(par, (ast.Subscript, ast.Attribute)) and par.value is cur:
                pctx = getattr(par, "ctx", None)
                if isinstance(pctx, (ast.Store, ast.Del)):
                    out.append(FieldAccess(field, "mutate", node, via))
                    return
                gp = pm.get(id(par))
                if isinstance(gp, ast.AugAssign) and gp.target is par:
                    out.append(FieldAccess(field, "mutate", node, via))
                    return
                if (isinstance(par, ast.Attribute) and isinstance(gp, ast.Call) and gp.func is par
                        and par.attr in MUTATING_METHODS):
                    out.append(FieldAccess(field, "mutate", node, via))
                    return
                cur = par
                continue
            break
        if via is not None and cur is node:
            # a bare load of the alias (returning it, comparing it, passing the reference on)
            # does not touch the shared object; dereferences and iteration do
            par = pm.get(id(node))
            iterated = isinstance(par, (ast.For, ast.comprehension)) and par.iter is node
            passed = isinstance(par, ast.Call) and node in par.args and not (
                isinstance(par.func, ast.Name) and par.func.id in ("isinstance", "id", "type"))
            if not iterated and not passed:
                return
        out.append(FieldAccess(field, "read", node, via))

    for n in own_nodes(func_node):
        a = self_attr(n, self_name)
        if a is not None:
            classify(n, a, None)
        elif isinstance(n, ast.Name) and n.id in aliases:
            classify(n, aliases[n.id], n.id)
    return out


def init_fields(cls: Class) -> dict[str, ast.AST]:
    """Fields assigned as `self.X = <expr>` in __init__ -> value expression."""
    out: dict[str, ast.AST] = {}
    init = cls.methods.get("__init__")
    if init is None:
        return out
    for n in own_nodes(init.node):
        tgt = None
        val = None
        if isinstance(n, ast.Assign) and len(n.targets) == 1:
            tgt, val = n.targets[0], n.value
        elif isinstance(n, ast.AnnAssign) and n.value is not None:
            tgt, val = n.target, n.value
        if tgt is not None:
            a = self_attr(tgt)
            if a is not None:
                out.setdefault(a, val)
    return out


def lock_kind(expr: ast.AST) -> str | None:
    """'Lock' / 'RLock' for `threading.Lock()` / `threading.RLock()` constructor calls."""
    if isinstance(expr, ast.Call):
        d = dotted(expr.func) or ""
        last = d.split(".")[-1]
        if last in ("Lock", "RLock"):
            return last
    return None


def where(func: Func, node: ast.AST) -> str:
    return f"{func.module.relpath}:{getattr(node, 'lineno', 0)}"


def stmt_of(node: ast.AST, pm: dict[int, ast.AST]) -> ast.AST:
    cur = node
    while not isinstance(cur, ast.stmt) and id(cur) in pm:
        cur = pm[id(cur)]
    return cur


def enclosing_with_items(node: ast.AST, pm: dict[int, ast.AST]) -> list[ast.withitem]:
    """with-items lexically enclosing node (outermost first) - body membership only."""
    out = []
    child = node
    for anc in ancestors(node, pm):
        if isinstance(anc, ast.With):
            # is child part of the body (not of the items)?
            if any(child is st for st in anc.body):
                out = list(anc.items) + out
        child = anc
    return out


def class_lock_fields(cls: Class) -> set[str]:
    """fields of the class initialised with threading.Lock()/RLock()"""
    return {k for k, v in init_fields(cls).items() if lock_kind(v) is not None}


def lock_section_of(node: ast.AST, pm: dict[int, ast.AST], lock_fields: set[str], self_name: str = "self"):
    """The outermost `with self.<lock>:` statement whose *body* contains node, or None.
    Two nodes with the same (non-None) section execute inside one critical section."""
    found = None
    child = node
    for anc in ancestors(node, pm):
        if isinstance(anc, ast.With) and any(child is st for st in anc.body):
            if any(with_lock_name(it, self_name) in lock_fields for it in anc.items):
                found = anc
        child = anc
    return found


def call_sites(program: Program, name: str, prefixes: tuple[str, ...] | None = None):
    """All calls whose callee's last name component is `name`: yields (Func, Call)."""
    for f in program.iter_funcs(prefixes):
        for n in own_nodes(f.node):
            if isinstance(n, ast.Call):
                d = n.func
                last = d.attr if isinstance(d, ast.Attribute) else getattr(d, "id", None)
                if last == name:
                    yield f, n
