"""Rule self-validation: apply one-instance breaks / neutral edits to an in-memory copy of the
source and check that the rule fires (naming the instance) / stays silent.

Variants are analysed statically only - nothing is executed.  Usage:
    ./check --selftest [C03 C05 ...] [-v]
Exit 0 iff every break variant is caught by the expected rule and every neutral one is silent.
"""
from __future__ import annotations

import importlib
import io
import os
import sys
import contextlib
import time
from concurrent.futures import ProcessPoolExecutor

from sa.loader import AnalysisError, Program
from sa.report import Ctx, load_known

REPO = os.environ.get("VERIF_REPO") or "/repo"


def _repo():
    return os.environ.get("VERIF_REPO") or "/repo"


def apply_variant(v) -> dict[str, str] | None:
    """Return overrides {relpath: new source} or None if the variant does not apply."""
    overrides = {}
    edits = v.get("edits") or [dict(file=v["file"], old=v["old"], new=v["new"], count=v.get("count", 1))]
    for e in edits:
        path = os.path.join(_repo(), e["file"])
        src = overrides.get(e["file"])
        if src is None:
            try:
                src = open(path, encoding="utf-8").read()
            except OSError:
                return None
        n = src.count(e["old"])
        want = e.get("count", 1)
        if n != want:
            return None
        overrides[e["file"]] = src.replace(e["old"], e["new"])
    return overrides


def run_variant(v):
    prop = v["prop"]
    ov = apply_variant(v)
    if ov is None:
        return (v["id"], prop, "skipped", "pattern not found (tree differs)")
    try:
        mod = importlib.import_module(f"rules.{prop.lower()}")
        program = Program(_repo(), overrides=ov)
        ctx = Ctx(prop, program, v.get("tier", "quick"), 0)
        buf = io.StringIO()
        with contextlib.redirect_stdout(buf):
            try:
                mod.run(ctx)
            except AnalysisError:
                if not ctx.findings:
                    raise
    except AnalysisError as e:
        res = ("analysis-error", str(e))
    except SyntaxError as e:
        return (v["id"], prop, "skipped", f"variant does not parse: {e}")
    except Exception as e:  # noqa: BLE001
        import traceback
        res = ("crash", traceback.format_exc()[-600:])
    else:
        known = load_known(prop)
        new = [f for f in ctx.findings if f.key not in known]
        res = ("findings", new)
    if res[0] == "analysis-error" and 'ctx' in dir() and ctx.findings:
        res = ("findings", [f for f in ctx.findings if f.key not in load_known(prop)])
    expect = v.get("expect")
    kind, payload = res
    if expect is None:  # neutral variant: must stay silent
        if v.get("absent") and kind == "findings" and any(v["absent"] in f.key for f in ctx.findings):
            # a repair variant: the recorded (known) finding itself has to disappear, not merely stay suppressed
            return (v["id"], prop, "FALSE-ALARM", "still reported on the repaired source: " + v["absent"])
        if kind == "findings" and not payload:
            return (v["id"], prop, "ok-silent", "")
        if kind == "findings":
            return (v["id"], prop, "FALSE-ALARM", "; ".join(f.key for f in payload[:3]))
        return (v["id"], prop, "FALSE-ALARM", f"{kind}: {payload}")
    # break variant
    if kind == "findings":
        hits = [f for f in payload if f.rule == expect or f.rule.startswith(expect)]
        if "expect_in" in v:
            hits = [f for f in hits if v["expect_in"] in f.key]
        if hits:
            return (v["id"], prop, "ok-killed", hits[0].key)
        if payload:
            return (v["id"], prop, "MISSED-wrong-rule", "; ".join(f.key for f in payload[:3]))
        return (v["id"], prop, "MISSED", "")
    if kind == "analysis-error" and v.get("accept_error"):
        return (v["id"], prop, "ok-error", payload[:120])
    return (v["id"], prop, "MISSED-" + kind, str(payload)[:300])


def all_variants(props):
    out = []
    for fn in sorted(os.listdir(os.path.dirname(__file__))):
        if fn.startswith("variants_") and fn.endswith(".py"):
            mod = importlib.import_module(f"selftest.{fn[:-3]}")
            for v in mod.VARIANTS:
                if not props or v["prop"] in props:
                    out.append(v)
    return out


def main(argv):
    verbose = "-v" in argv
    props = [a.upper() for a in argv if not a.startswith("-")]
    vs = all_variants(props)
    ids = [v["id"] for v in vs]
    assert len(ids) == len(set(ids)), "duplicate variant ids"
    t0 = time.time()
    with ProcessPoolExecutor(max_workers=min(16, os.cpu_count() or 1)) as ex:
        results = list(ex.map(run_variant, vs))
    bad = 0
    tally = {}
    for (vid, prop, status, info) in results:
        tally[status] = tally.get(status, 0) + 1
        if status.startswith(("MISSED", "FALSE")):
            bad += 1
        if verbose or status.startswith(("MISSED", "FALSE", "skipped")):
            print(f"{status:18s} {prop} {vid}  {info}")
    print(f"selftest: {len(results)} variants in {time.time()-t0:.1f}s: "
          + " ".join(f"{k}={v}" for k, v in sorted(tally.items())))
    return 1 if bad else 0


if __name__ == "__main__":
    sys.exit(main(sys.argv[1:]))
